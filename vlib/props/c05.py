"""C05 — parsers are total: bad input gives an error, never a crash, hang or huge allocation.

Decides (value-flow over MIR, inter-procedural fixpoint): for everything reachable from the public
parse/open/read entry points, whether a value read from the input reaches
  A. an allocation size (with_capacity / vec![_; n] / resize / reserve),
  C. a checked subtraction / addition / multiplication (debug-build panic, release wrap feeding A/B),
  D. an index `buf[const]` on a buffer whose length is input-controlled and unchecked,
without a dominating ordered comparison, min/clamp/checked_*/saturating_* or validator call on
that value or one of its ancestors.  Plus E: call-graph cycles reachable from the entry points
(unbounded recursion) and input-reachable explicit unwrap/expect on fallible input operations.
"""
import re

from .. import hirq, mirg, symx, taint
from ..mirg import plocal, pproj, op_local
from ..mirg import rvalue_operands as rvalue_ops
from ..rules import ncallee, norm

META = {
    "level": "other",
    "technique": "inter-procedural taint (MIR def-use, param/return/struct-field summaries to a fixpoint) from read primitives to allocation-size / checked-arithmetic / constant-index sinks with dominance-based sanitiser recognition; call-graph cycle detection",
    "claim": "Decides, for every function reachable from the parse entry points of all ten crates, that no input-derived value sizes an allocation, feeds overflow-checked arithmetic, or indexes a possibly-empty buffer without a bound check on its path. Sites that do are genuine violations (each listed known finding carries a reproducing input). Does not prove every bounds check infeasible, nor bounded running time of data-dependent loops. Also: F input-derived index into a fixed-size array (static bound or per-leaf clamp), G cyclic probe loops wrap-exit, H `continue` in a `while` only after progress, I clamped-length vector never indexed by an unclamped counter, C2 add/multiply of two input fields at their read width. Wave 5: J index guards are exclusive; every pub parse*/open*/read*/load*/list*/from_bytes/decompress* fn is a root; argument sanitisation is strict (integer-typed relation), lower-bound tests bound nothing, a subtraction's two operands must have been compared with each other; values looked up in a table are as untrusted as the table. Wave 6: count x element-size products checked at 32 bits (C3) as well as at the read width. Wave 7: constant-range slices are covered by a length guard at least as long (K); clamp constants of an index fit the indexed constant table (L); stream decoders are drained through Take (M); `x - K` needs a lower bound on the taken branch; parameter / slice-element operands count at their own width and both operands of a sum must be bounded; an index check does not bound the element; lazy record accessors are roots. Wave 8: N: operations that panic on 0 (/, %, ilog, div_ceil, chunks..) on input values need lower-bound evidence; O: an index guard compares with the indexed collection's own length.",
    "note": "Trusted: rustc MIR; the read-primitive table (byteorder, from_le_bytes, crate ReadExt traits, binrw read_*). Sanitiser recognition is deliberately generous (any dominating ordered comparison on the value, an ancestor or the same field), so a flagged site has no bound check at all on its path.",
    "assumptions": ["dependency decoders (flate2, bzip2, lzma-rs, pklib, image) are total", "allocation proportional to the actual input length is acceptable"],
    "explanation": "Taint sources: results of read primitives and fields of structs filled from them; sinks: Vec/String/BytesMut capacity and length operands, Assert(Overflow) operands, constant-index bounds checks; scope: call-graph closure of the public parse/open/read entry points.",
}

ENTRY = [
    # wow_mpq
    "wow_mpq::archive::Archive::open", "wow_mpq::archive::Archive::open_with_options", "wow_mpq::archive::Archive::list",
    "wow_mpq::archive::Archive::list_all", "wow_mpq::archive::Archive::read_file", "wow_mpq::archive::Archive::read_file_by_indices",
    "wow_mpq::archive::Archive::get_info", "wow_mpq::archive::Archive::load_attributes", "wow_mpq::archive::Archive::verify_signature",
    "wow_mpq::archive::Archive::find_file", "wow_mpq::patch::header::PatchFile::parse", "wow_mpq::patch::apply::apply_patch",
    "wow_mpq::patch_chain::PatchChain::read_file", "wow_mpq::compression::decompress::decompress",
    # m2
    "wow_m2::model::parse_m2", "wow_m2::model::M2Model::parse", "wow_m2::skin::SkinFile::parse", "wow_m2::skin::parse_skin", "wow_m2::anim::AnimFile::parse",
    # adt / wmo / blp / dbc / wdt / wdl
    "wow_adt::api::parse_adt", "wow_adt::api::parse_adt_with_metadata",
    "wow_wmo::api::parse_wmo", "wow_wmo::api::parse_wmo_with_metadata", "wow_wmo::parser::WmoParser::parse_root", "wow_wmo::group_parser::WmoGroupParser::parse_group",
    "wow_blp::parser::parse_blp", "wow_blp::parser::load_blp", "wow_blp::parser::load_blp_from_buf", "wow_blp::parser::parse_blp_with_externals",
    "wow_cdbc::parser::DbcParser::parse_bytes", "wow_cdbc::parser::DbcParser::parse_records", "wow_cdbc::parser::DbcParser::parse",
    "wow_wdt::WdtReader::read", "wow_wdl::parser::WdlParser::parse",
]

ALLOC = {
    "alloc::vec::Vec::with_capacity": 0, "alloc::vec::from_elem": 1, "alloc::vec::Vec::resize": 1, "alloc::vec::Vec::reserve": 1,
    "alloc::vec::Vec::reserve_exact": 1, "alloc::string::String::with_capacity": 0, "bytes::bytes_mut::BytesMut::with_capacity": 0,
    "alloc::vec::Vec::with_capacity_in": 0, "alloc::collections::vec_deque::VecDeque::with_capacity": 0,
    "std::collections::hash::map::HashMap::with_capacity": 0, "alloc::vec::Vec::resize_with": 1,
}
CRATES = ["wow_mpq", "wow_m2", "wow_adt", "wow_wmo", "wow_blp", "wow_cdbc", "wow_wdt", "wow_wdl"]


def tarjan_cycles(graph, nodes):
    index = {}
    low = {}
    stack = []
    on = set()
    out = []
    counter = [0]
    import sys
    sys.setrecursionlimit(10000)

    def sc(v):
        index[v] = low[v] = counter[0]
        counter[0] += 1
        stack.append(v)
        on.add(v)
        for w in graph.get(v, ()):
            if w not in nodes:
                continue
            if w not in index:
                sc(w)
                low[v] = min(low[v], low[w])
            elif w in on:
                low[v] = min(low[v], index[w])
        if low[v] == index[v]:
            comp = []
            while True:
                w = stack.pop()
                on.discard(w)
                comp.append(w)
                if w == v:
                    break
            if len(comp) > 1 or v in graph.get(v, ()):
                out.append(comp)
    for v in nodes:
        if v not in index:
            sc(v)
    return out


def load_exempt():
    import json, os
    from .. import facts
    p = os.path.join(facts.VERIF, "tables", "c05_exempt.json")
    return {e["key"]: e for e in json.load(open(p))["exempt"]} if os.path.exists(p) else {}


NARROW = re.compile(r"read_[ui](8|16)\b|read_[ui](8|16)_le|field u(8|16)\.")


_BITS = {"u8": 8, "i8": 8, "u16": 16, "i16": 16, "u32": 32, "i32": 32, "u64": 64, "i64": 64, "usize": 64, "isize": 64, "u128": 128, "i128": 128}


def _widened_signed(f, ft, ops):
    """`i64::from(a) - i64::from(b)` with a, b of at most 32 bits (or `a as i64 - b as i64`): the checked subtraction exists in MIR
    but cannot fire"""
    du = ft.du if getattr(ft, "du", None) is not None else mirg.DefUse(f)
    for o in ops:
        l = op_local(o)
        if l is None:
            if mirg.op_int(o) is None:
                return False
            continue
        ty = f.crate.ty(f.mir["locals"][l][0]) or ""
        if ty not in ("i64", "i128", "isize"):
            return False
        srcs = []
        stack, seen = [l], set()
        while stack:
            x = stack.pop()
            if x in seen:
                continue
            seen.add(x)
            for _b, k_, p_ in du.defs.get(x, []):
                if k_ == "assign" and p_[2][0] == "use" and op_local(p_[2][1]) is not None and not pproj(p_[2][1][1]):
                    stack.append(op_local(p_[2][1]))
                elif k_ == "assign" and p_[2][0] == "cast" and op_local(p_[2][2]) is not None:
                    srcs.append(f.crate.ty(f.mir["locals"][op_local(p_[2][2])][0]) or "?")
                elif k_ == "call" and re.search(r"convert::From<.*>>::from$|::from$", mirg.callee(p_) or "") and len(p_["a"]) == 1 and op_local(p_["a"][0]) is not None:
                    srcs.append(f.crate.ty(f.mir["locals"][op_local(p_["a"][0])][0]) or "?")
                else:
                    srcs.append("?")
        if not srcs or any(_BITS.get(s_, 999) >= _BITS[ty] for s_ in srcs):
            return False
    return True



ZERO_CALL = re.compile(r"::(ilog2|ilog10|ilog|div_ceil|next_multiple_of|rem_euclid|div_euclid|chunks|chunks_exact|chunks_mut|chunks_exact_mut|par_chunks|par_chunks_exact|windows|step_by)$")


def _returns_shifted_constant(g):
    """the function's return value is `K << x` (K >= 1) on every definition of _0 — e.g. MpqHeader::sector_size = 512 << block_size
    (the shift count is bounded where the header is read: validate_header_security rejects shifts the type cannot hold)"""
    if g is None or not g.mir.get("blocks"):
        return False
    du = mirg.DefUse(g)
    work, seen, found = [0], set(), False
    while work:
        l = work.pop()
        if l in seen:
            continue
        seen.add(l)
        for _b, k_, p_ in du.defs.get(l, []):
            if k_ != "assign":
                return False
            rv = p_[2]
            if rv[0] == "bin" and rv[1] in ("Shl", "ShlUnchecked") and (mirg.op_int(rv[2]) or 0) >= 1:
                found = True
            elif rv[0] in ("use", "cast", "copy", "move"):
                for o_ in mirg.rvalue_operands(rv):
                    if op_local(o_) is None:
                        return False
                    work.append(op_local(o_))
            else:
                return False
    return found



def _small_multiple_of_a_quotient(ft, f, op, cg):
    """the operand is (x / d or x.div_ceil(d)) * k (+ k') with d the value of a function returning a shifted constant >= 512
    (MpqHeader::sector_size) or a constant >= 512, and the constants multiplied in amount to <= 64: it is below 2^62 whatever x is"""
    if ft.cfg is None:
        ft.cfg = mirg.Cfg(f)
        ft.du = mirg.DefUse(f)
    l = op_local(op)
    if l is None:
        return True
    anc, calls, _ints = ft.du.slice_back(l, depth=8, through_index=False)
    anc = set(anc) | {l}
    divided = False
    for c in calls:
        cn = ncallee(c) or ""
        if cn.endswith("::div_ceil") and len(c.get("a", [])) == 2:
            d = c["a"][1]
            dl = op_local(d)
            if (mirg.op_int(d) or 0) >= 512:
                divided = True
            elif dl is not None:
                _a2, calls2, _i2 = ft.du.slice_back(dl, depth=6, through_index=False)
                if any(_returns_shifted_constant(cg.fns.get(ncallee(c2) or "") or cg.fns.get(mirg.callee(c2) or "")) for c2 in calls2):
                    divided = True
    prod = 1
    for a in anc:
        for _b, k_, p_ in ft.du.defs.get(a, []):
            if k_ != "assign" or p_[2][0] != "bin":
                continue
            opn = p_[2][1]
            if opn in ("Div",):
                d = p_[2][3]
                if (mirg.op_int(d) or 0) >= 512:
                    divided = True
            if opn in ("Mul", "MulWithOverflow", "MulUnchecked"):
                ks = [mirg.op_int(o_) for o_ in (p_[2][2], p_[2][3])]
                kc = next((k for k in ks if k is not None), None)
                if kc is None:
                    return False
                prod *= max(kc, 1)
            if opn in ("Shl", "ShlUnchecked"):
                return False
    return divided and prod <= 64


def _nonzero_evidence(ft, f, op, bb, world=None, cg=None, depth=0):
    """why an input-derived operand cannot be 0 at block bb: a dominating branch establishes >= 1, or its derivation passes through
    max(.., k>=1) / clamp / NonZero / `| odd constant` / `+ positive constant`"""
    if ft.cfg is None:
        ft.cfg = mirg.Cfg(f)
        ft.du = mirg.DefUse(f)
    l0 = op_local(op)
    if l0 is not None and cg is not None:
        anc0, calls0, _ = ft.du.slice_back(l0, depth=6, through_index=False)
        for c in calls0:
            g = cg.fns.get(ncallee(c) or "") or cg.fns.get(mirg.callee(c) or "")
            if g is not None and _returns_shifted_constant(g):
                return "value of %s, a shifted positive constant" % g.path.split("::")[-1]
        # a parameter never reassigned: the evidence is owed by every caller (one level)
        nargs = len(f.d.get("inputs") or [])
        for _ in range(4):       # plain copies of a parameter
            ds_ = ft.du.defs.get(l0, [])
            if len(ds_) == 1 and ds_[0][1] == "assign" and ds_[0][2][2][0] in ("use", "copy", "move") and op_local(ds_[0][2][2][1]) is not None and not pproj(ds_[0][2][2][1][1]):
                l0 = op_local(ds_[0][2][2][1])
            else:
                break
        if depth < 1 and world is not None and 1 <= l0 <= nargs and not [d for d in ft.du.defs.get(l0, []) if d[1] == "assign"]:
            sites = [(cp, b_, t_) for cp in cg.callers.get(f.path, ()) for (b_, t_, cal) in cg.sites.get(cp, []) if cal == f.path]
            if sites:
                whys = []
                for cp, b_, t_ in sites:
                    cf = cg.fns.get(cp)
                    cft = world.results.get(cp)
                    if cf is None or cft is None or len(t_["a"]) < l0:
                        whys = None
                        break
                    a_ = t_["a"][l0 - 1]
                    if mirg.op_int(a_) is not None and mirg.op_int(a_) >= 1:
                        whys.append("constant")
                        continue
                    w_ = _nonzero_evidence(cft, cf, a_, b_, world, cg, depth + 1) if cft.operand_tainted(a_) else "not input-derived in the caller"
                    if not w_:
                        whys = None
                        break
                    whys.append(w_)
                if whys:
                    return "every caller passes a non-zero value (%s)" % "; ".join(sorted(set(whys)))[:120]
    lb = ft.lower_bound_at(op, bb)
    if lb is not None and lb >= 1:
        return "dominating lower bound %d" % lb
    if ft.cfg is None:
        ft.cfg = mirg.Cfg(f)
        ft.du = mirg.DefUse(f)
    l = op_local(op)
    if l is None:
        return "constant"
    anc, calls, _ = ft.du.slice_back(l, depth=6, through_index=False)
    for c in calls:
        cn = ncallee(c) or ""
        if re.search(r"NonZero|::next_power_of_two$", cn):
            return "derivation passes " + cn.split("::")[-1]
        # max(x, K) / clamp(x, K, _) with a constant K >= 1 (the maximum of two input values can still be 0)
        if re.search(r"::max$|::clamp$", cn) and any((mirg.op_int(a_) or 0) >= 1 for a_ in c.get("a", [])[1:2]):
            return "derivation passes %s with a positive constant" % cn.split("::")[-1]
    for a in anc | {l}:
        for _b, k_, p_ in ft.du.defs.get(a, []):
            if k_ == "assign" and p_[2][0] == "bin" and p_[2][1] in ("BitOr", "Add", "AddWithOverflow", "Shl"):
                ks = [mirg.op_int(o) for o in (p_[2][2], p_[2][3])]
                if p_[2][1] == "BitOr" and any(k is not None and k & 1 for k in ks):
                    return "or-ed with an odd constant"
                if p_[2][1] in ("Add", "AddWithOverflow") and any(k is not None and k >= 1 for k in ks):
                    return "a positive constant is added"
                if p_[2][1] == "Shl" and mirg.op_int(p_[2][2]) is not None and mirg.op_int(p_[2][2]) >= 1:
                    return "a shifted positive constant"
    # the same value tested by a dominating `== 0` / `!= 0` / `> 0` on a copy reached through a field place
    s_ = ft.sanitised(op, bb, zero_test=True, lower_ok=True)
    if s_ and s_.startswith("dominating zero test"):
        return s_
    return None


def probe_wrap_exit_rule(ctx, prog, pid):
    """cyclic probe loops over a table taken from an opened archive terminate when the table has no free slot (shared by C05: a
    hostile/full table must not hang a lookup, and C06: every mutation operation terminates)"""
    from .. import hirq, symx
    R_probe = ctx.rule("%s.%scyclic-probe-loops-wrap-exit" % (pid, "G-" if pid == "C05" else ""), "every `loop` stepping `i = (i + 1) & mask` over an archive's table exits when i returns to its starting value (a full table cannot hang the lookup)", floor=3)
    mpq_c = prog.crate("wow_mpq")
    consts_ = {k: v.get("v") for k, v in mpq_c.consts().items()}
    for f in mpq_c.fn_list:
        if f.kind == "Closure" or not f.hir or "::tests::" in f.path or "::debug::" in f.path or "::test_utils" in f.path:
            continue
        blk = hirq.strip(f.hir["body"])
        if blk.get("k") != "block":
            continue
        s_ = symx.Sym(consts_)
        for p_ in f.hir["params"]:
            for b_ in hirq.pat_binds(p_):
                s_.env[b_] = symx.var(b_)
        for st in blk.get("stmts", []) + ([blk["e"]] if blk.get("e") else []):
            lp = st if st.get("k") == "loop" else None
            if lp is None:
                try:
                    s_.stmt(st)
                except Exception:
                    pass
                continue
            idx = None
            for x in hirq.walk(lp["body"]):
                if x.get("k") == "assign" and hirq.strip(x["l"]).get("k") == "path":
                    nm = hirq.strip(x["l"])["res"].get("local")
                    if nm and re.search(r"\(\(%s \+ 1\) &" % re.escape(nm), hirq.render(x["r"])):
                        idx = nm
            if idx is None:
                continue
            ctx.saw_fn(f)
            key = "G|%s" % norm(f.path)
            if norm(f.path).startswith("wow_mpq::builder::"):
                ctx.ok(R_probe, {"fn": norm(f.path), "scope": "writer-side insertion into a table the builder sized itself; not an input-handling path"})
                continue
            start = s_.env.get(idx)
            exits = []
            for n in hirq.find(lp["body"], "if"):
                c = hirq.strip(n["c"])
                if c.get("k") == "bin" and c["op"] == "==" and any(hirq.strip(c[sd]).get("k") == "path" and hirq.strip(c[sd])["res"].get("local") == idx for sd in ("l", "r")) \
                        and any(y.get("k") in ("ret", "break") for y in hirq.walk(n["then"])):
                    other = c["r"] if hirq.strip(c["l"]).get("k") == "path" and hirq.strip(c["l"])["res"].get("local") == idx else c["l"]
                    try:
                        exits.append((symx.render(s_.ev(other)), n["ln"]))
                    except Exception as e_:
                        exits.append(("?%s" % e_, n["ln"]))
            rs = symx.render(start) if start is not None else None
            if rs is not None and any(e_[0] == rs for e_ in exits):
                ctx.ok(R_probe, {"fn": norm(f.path), "start": rs[:80], "wrap_exit_line": next(e_[1] for e_ in exits if e_[0] == rs)})
            elif any(y.get("k") == "for" for y in hirq.walk(lp["body"])) and False:
                pass
            else:
                ctx.bad(R_probe, key, "%s:%d" % (f.file, lp["ln"]), "probe loop over `%s` starts at `%s`; exits comparing the index: %s" % (idx, (rs or "?")[:70], [e_[0][:60] for e_ in exits] or "none"),
                        "with no never-used slot in the table (every slot occupied or a tombstone — an attacker-chosen or simply full table) a lookup of an absent name never returns")


def run(ctx):
    prog = ctx.prog
    crates = [prog.crate(c) for c in CRATES]
    exempt = load_exempt()
    exempt_used = {}
    _bad = ctx.bad

    def bad(rid, key, where, found, why, extra=None):
        e = exempt.get(key)
        if e is not None and exempt_used.get(key, 0) < e.get("max", 99):
            exempt_used[key] = exempt_used.get(key, 0) + 1
            ctx.ok(rid, {"key": key, "where": where, "exempt": e["reason"]})
            return
        _bad(rid, key, where, found, why, extra)
    ctx.bad = bad
    R_entry = ctx.rule("C05.entry-points-found", "the public parse/open/read entry points exist and are the roots of the analysed call graph", floor=25)
    R_alloc = ctx.rule("C05.A-no-input-sized-allocation", "no allocation size derives from input without a dominating bound check / min / checked op", floor=100)
    R_arith = ctx.rule("C05.C-no-unchecked-input-arithmetic", "no overflow-checked subtraction/addition/multiplication on input-derived operands without a dominating ordering check", floor=40)
    R_narrow = ctx.rule("C05.C2-no-overflow-at-read-width", "no overflow-checked add/multiply of two input fields at the width they were read at without a bound on either", floor=30)
    R_index = ctx.rule("C05.D-no-constant-index-on-unchecked-buffer", "no `buf[k]` (constant k) on a buffer whose length is input-controlled and was not checked", floor=5)
    R_fixed = ctx.rule("C05.F-input-index-into-fixed-array-bounded", "every input-derived component of an index into a fixed-size array is clamped or compared on its own path", floor=20)
    R_zero = ctx.rule("C05.N-zero-sensitive-operation-on-input-is-guarded", "every operation that panics on 0 — `/`, `%`, ilog2/ilog10/ilog, div_ceil, next_multiple_of, rem_euclid, div_euclid, chunks*/windows/step_by — whose critical operand derives from input is dominated by a branch that establishes operand >= 1 (or the operand passed through max / NonZero / `| 1`)", floor=20)
    R_rec = ctx.rule("C05.E-no-unbounded-recursion", "no call-graph cycle reachable from an entry point lacks a depth bound", floor=1)

    cg = mirg.CallGraph(crates)
    roots = []
    by_norm = {}
    for pth in cg.fns:
        by_norm.setdefault(norm(pth), pth)
    for e in ENTRY:
        if e in by_norm:
            roots.append(by_norm[e])
            ctx.ok(R_entry, e)
        else:
            ctx.note_unarmed(R_entry, e, "entry point not found under this path")
    # "every public open/parse/list/read entry point": besides the named ones, every `pub fn` of the ten crates whose name says it
    # consumes a file (parse*/open*/read*/load*/list*/from_bytes/from_reader/decompress*) is a root of its own
    R_pub = ctx.rule("C05.public-readers-are-roots", "every pub fn named parse*/open*/read*/load*/list*/from_bytes/from_reader/decompress*/discover* is a root of the analysed call graph", floor=300)
    for pth, f_ in cg.fns.items():
        if f_.d.get("vis") == "pub" and re.match(r"(parse|open|read|load|list|from_bytes|from_reader|decompress|get_record|record_iterator|iter_records|discover)", pth.split("::")[-1]) and "::tests::" not in pth and pth not in roots:
            roots.append(pth)
            ctx.ok(R_pub, pth) if len(ctx.samples) < 320 else ctx.rules[R_pub].__setitem__("obligations", ctx.rules[R_pub]["obligations"] + 1) or ctx.rules[R_pub].__setitem__("discharged", ctx.rules[R_pub]["discharged"] + 1)
    reach = cg.local_reachable(roots)
    world = taint.World(crates)
    taint.solve(world)
    ctx.world_stats = {"field_taint": len(world.field_taint), "ret_taint": len(world.ret_taint), "param_taint": sum(len(v) for v in world.param_taint.values())}

    seen_keys = {}
    for path in sorted(reach):
        f = cg.fns[path]
        if "::tests::" in path or "::test_utils" in path or "::debug::" in path:
            continue
        ft = world.results.get(path)
        if ft is None:
            continue
        ctx.saw_fn(f)
        blocks = f.mir["blocks"]
        for bb, b in enumerate(blocks):
            if b.get("cl"):
                continue
            t = b["t"]
            if t["k"] == "call":
                c = ncallee(t) or ""
                if re.search(r"core::ops::index::Index(Mut)?<.*>>::index(_mut)?$", mirg.callee(t) or "") and len(t["a"]) == 2 and not t.get("x"):
                    k = mirg.op_int(t["a"][1])
                    if k is not None and 0 <= k < 16:
                        ctx.call_sites += 1
                        lw = ft.operand_tainted(t["a"][0])
                        inst = {"fn": path, "index": k, "line": t["ln"]}
                        if not lw:
                            ctx.ok(R_index, inst)
                        else:
                            san = ft.sanitised(t["a"][0], bb)
                            if san:
                                inst["sanitised_by"] = san
                                ctx.ok(R_index, inst)
                            else:
                                ctx.bad(R_index, "D|%s|[%d]" % (path, k), "%s:%d" % (f.file, t["ln"]), "constant index [%d] into a buffer whose length is input-controlled (%s) and unchecked" % (k, lw),
                                        "an empty/short buffer panics with index out of bounds")
                zm = ZERO_CALL.search(c)
                if zm and not t.get("x") and len(t["a"]) > (0 if zm.group(1).startswith("ilog") else 1):
                    crit = t["a"][0 if zm.group(1).startswith("ilog") else 1]
                    whyz = ft.operand_tainted(crit)
                    ctx.call_sites += 1
                    instz = {"fn": path, "op": zm.group(1), "line": t["ln"]}
                    if not whyz or mirg.op_int(crit) is not None:
                        ctx.ok(R_zero, instz) if len(ctx.samples) < 360 else (ctx.rules[R_zero].__setitem__("obligations", ctx.rules[R_zero]["obligations"] + 1), ctx.rules[R_zero].__setitem__("discharged", ctx.rules[R_zero]["discharged"] + 1))
                    else:
                        okz = _nonzero_evidence(ft, f, crit, bb, world, cg)
                        if okz:
                            instz["nonzero_by"] = okz
                            ctx.ok(R_zero, instz)
                        else:
                            ctx.bad(R_zero, "N|%s|%s" % (path, zm.group(1)), "%s:%d" % (f.file, t["ln"]), "`%s` on an input-derived value (%s) that no dominating branch shows to be non-zero" % (zm.group(1), whyz),
                                    "a zero in that field panics the parser (`%s` of zero / by zero)" % zm.group(1))
                if c in ALLOC and len(t["a"]) > ALLOC[c]:
                    ctx.call_sites += 1
                    a = t["a"][ALLOC[c]]
                    why = ft.operand_tainted(a)
                    inst = {"fn": path, "sink": c.split("::")[-1], "line": t["ln"]}
                    if not why:
                        ctx.ok(R_alloc, inst)
                        continue
                    san = ft.sanitised(a, bb, lower_ok=False)
                    if not san and NARROW.search(why) and "→" not in why.split("read")[-1][:0]:
                        # a count read as u8/u16 bounds the allocation to 64 Ki elements
                        if re.search(r"read read_[ui](8|16)", why):
                            san = "value read as an 8/16-bit integer"
                    if san:
                        inst["sanitised_by"] = san
                        ctx.ok(R_alloc, inst)
                        continue
                    key = "A|%s|%s" % (path, c.split("::")[-1])
                    n = seen_keys.get(key, 0)
                    seen_keys[key] = n + 1
                    ctx.bad(R_alloc, key, "%s:%d" % (f.file, t["ln"]), "%s sized by an input-derived value (%s) with no bound check on the path" % (c.split("::")[-1], why),
                            "a few hostile bytes request memory out of all proportion to the input (abort on allocation failure)")
            elif t["k"] == "assert" and t["ak"].startswith("overflow:") and not t.get("x"):
                opk = t["ak"].split(":")[1]
                if opk != "Sub":
                    # Add/Mul on input values mostly matter through their consequence (an allocation size or an index), which rules A/D/F
                    # report at the sink.  The exception decided here (C2): the operation is performed at the *width the operands were
                    # read at* (u8 + u8 as u8, u32 + u32 as u32, two u64 reads added as u64), so ordinary hostile field values overflow it.
                    if opk in ("Add", "Mul"):
                        whys2 = [ft.operand_tainted(o) for o in t["ops"]]
                        if all(whys2):
                            def src_bits(w):
                                m_ = re.match(r"(?:field|read read_)[ ]?[ui](\d+)", w.replace("field ", "field"))
                                return int(m_.group(1)) if m_ else None
                            sb = [src_bits(w) for w in whys2]
                            # an operand that reached this function as a parameter / slice element / return value carries no record of
                            # the read that produced it: its own integer type is the width it can fill
                            for i_, o_ in enumerate(t["ops"]):
                                if sb[i_] is None and re.match(r"(param|ret )", whys2[i_] or ""):
                                    lo_ = op_local(o_)
                                    tn_ = (f.crate.ty(f.mir["locals"][lo_][0]) or "") if lo_ is not None else ""
                                    # (only up to 32 bits: a 64-bit parameter is as a rule a widened narrower value, and the sum of two
                                    # such values cannot leave 64 bits; direct u64 reads keep their own record)
                                    if re.fullmatch(r"[ui](8|16|32)", tn_):
                                        sb[i_] = int(tn_[1:])
                                    # ... except where the value is known to be a full 64-bit field of the input: a BET entry's bit-packed
                                    # file position (BetTable::get_file_info) fills whatever width the table header declares, up to 64
                                    elif tn_ == "u64" and re.match(r"ret get_file_info", whys2[i_] or ""):
                                        sb[i_] = 64
                            l0 = op_local(t["ops"][0])
                            tn = (f.crate.ty(f.mir["locals"][l0][0]) or "") if l0 is not None else ""
                            ob = {"usize": 64, "isize": 64}.get(tn) or (int(re.sub(r"\D", "", tn)) if re.fullmatch(r"[ui]\d+", tn) else None)
                            narrow = None not in sb and ob is not None and ((opk == "Add" and ob <= max(sb)) or (opk == "Mul" and ob < sum(sb)))
                            if not narrow:
                                ctx.ok(R_narrow, {"fn": path, "op": opk, "line": t["ln"], "type": tn, "source_bits": sb, "note": "carried out wider than the operands were read, or operand widths unknown (params / returns)"})
                            if narrow:
                                # both operands fill the width: a bound on one of them leaves the other free to overflow the sum / product
                                if all(ft.sanitised(o, bb, strict=True) for o in t["ops"]):
                                    ctx.ok(R_narrow, {"fn": path, "op": opk, "line": t["ln"], "sanitised": True})
                                elif opk == "Add" and ob == 64 and all(_small_multiple_of_a_quotient(ft, f, o, cg) for o in t["ops"]):
                                    # both operands are (a quotient by the sector size) x (a small constant): at most 2^55 x 64 each
                                    ctx.ok(R_narrow, {"fn": path, "op": opk, "line": t["ln"], "bounded": "each operand is a quotient by the sector size times a constant <= 64"})
                                else:
                                    ctx.bad(R_narrow, "C2|%s|%s|%s" % (path, opk, "+".join(w.split("→")[0] for w in whys2)), "%s:%d" % (f.file, t["ln"]),
                                            "%s of two input fields (%s) carried out in %s, the width they were read at, with no bound on either" % (opk, ", ".join(w.split("→")[0] for w in whys2), tn),
                                            "ordinary hostile values overflow: panic `attempt to %s with overflow` in builds with overflow checks, a wrapped (small) value elsewhere" % ("add" if opk == "Add" else "multiply"))
                        elif opk == "Add" and any(whys2) and not all(whys2) and (mirg.op_int(t["ops"][1] if whys2[0] else t["ops"][0]) or 0) >= 1:
                            # C4: an input field plus a constant, carried out at the width the field was read at (`header_size + 2` in
                            # u32): the field's maximum value overflows it.  (Widened first — `x as usize + 2` — it cannot.)
                            tainted_op = t["ops"][0] if whys2[0] else t["ops"][1]
                            w_ = whys2[0] or whys2[1]
                            m_ = re.match(r"(?:field|read read_)[ ]?[ui](\d+)", w_.replace("field ", "field"))
                            l0 = op_local(tainted_op)
                            tn = (f.crate.ty(f.mir["locals"][l0][0]) or "") if l0 is not None else ""
                            ob = int(re.sub(r"\D", "", tn)) if re.fullmatch(r"[ui](8|16|32)", tn) else None
                            # only a value used exactly as read (no arithmetic / call between the read and this addition)
                            direct = all(st_ in ("branch", "unwrap", "expect", "into", "from", "clone", "deref", "map_err", "ok_or", "ok_or_else", "copied", "cloned") for st_ in w_.split("→")[1:])
                            if m_ and ob is not None and int(m_.group(1)) == ob and direct:
                                if ft.upper_bounded_at(tainted_op, bb):
                                    ctx.ok(R_narrow, {"fn": path, "op": opk, "line": t["ln"], "sanitised": True, "form": "field + constant"})
                                else:
                                    ctx.bad(R_narrow, "C4|%s|Add|%s" % (path, w_.split("→")[0]), "%s:%d" % (f.file, t["ln"]),
                                            "an input field (%s) has a constant added in %s, the width it was read at, with no upper bound on it" % (w_, tn),
                                            "the field's largest values overflow the sum: panic `attempt to add with overflow` in builds with overflow checks, a wrapped (tiny) length elsewhere")
                        elif opk == "Mul" and any(whys2) and not all(whys2):
                            # C3: an input-derived count multiplied by an element size *in 32 bits* (or less): the product of a hostile
                            # count and any size >= 2 wraps.  (In 64 bits the same product of 32-bit sources cannot.)
                            l0 = op_local(t["ops"][0]) if op_local(t["ops"][0]) is not None else op_local(t["ops"][1])
                            tn = (f.crate.ty(f.mir["locals"][l0][0]) or "") if l0 is not None else ""
                            other = t["ops"][1] if whys2[0] else t["ops"][0]
                            kc = mirg.op_int(other)
                            if tn in ("u8", "u16", "u32", "i8", "i16", "i32") and not (kc is not None and kc in (0, 1)):
                                tainted_op = t["ops"][0] if whys2[0] else t["ops"][1]
                                if ft.sanitised(tainted_op, bb, strict=True, lower_ok=False):
                                    ctx.ok(R_narrow, {"fn": path, "op": opk, "line": t["ln"], "sanitised": True, "form": "count x size"})
                                else:
                                    ctx.bad(R_narrow, "C3|%s|Mul|%s" % (path, (whys2[0] or whys2[1]).split("→")[0]), "%s:%d" % (f.file, t["ln"]),
                                            "an input-derived value (%s) is multiplied by %s in %s with no bound on it" % ((whys2[0] or whys2[1]), "the constant %d" % kc if kc is not None else "an element size", tn),
                                            "a hostile count wraps the product: panic `attempt to multiply with overflow` in builds with overflow checks; elsewhere the wrapped (small) product passes the size check it was computed for and the unwrapped count sizes the allocation")
                    continue
                ops = t["ops"]
                whys = [ft.operand_tainted(o) for o in ops]
                def _calls_of(o_):
                    if ft.cfg is None:
                        ft.cfg = mirg.Cfg(f)
                        ft.du = mirg.DefUse(f)
                    l_ = op_local(o_)
                    return [(ncallee(c_) or "") for c_ in (ft.du.slice_back(l_, depth=6, through_index=False)[1] if l_ is not None else [])]
                if opk == "Sub" and any(whys) and any(re.search(r"Iterator::max$|::max$", c_) for c_ in _calls_of(ops[0])) and any(re.search(r"Iterator::min$|::min$", c_) for c_ in _calls_of(ops[1])) \
                        and any(c_.endswith("::iter") or "IntoIterator" in c_ for c_ in _calls_of(ops[0])):
                    # the maximum of a collection minus the minimum of the same collection cannot underflow
                    ctx.ok(R_arith, {"fn": path, "op": opk, "line": t["ln"], "note": "max(X) - min(X) of one collection"})
                    continue
                if any(whys) and opk == "Sub" and _widened_signed(f, ft, ops):
                    ctx.ok(R_arith, {"fn": path, "op": opk, "line": t["ln"], "note": "signed subtraction carried out wider than both operands were read (iN::from / as iN of narrower integers): cannot overflow"})
                    continue
                if not any(whys):
                    ctx.ok(R_arith, {"fn": path, "op": opk, "line": t["ln"], "tainted": False}) if len(ctx.samples) < 300 else ctx.rules[R_arith].__setitem__("obligations", ctx.rules[R_arith]["obligations"] + 1) or ctx.rules[R_arith].__setitem__("discharged", ctx.rules[R_arith]["discharged"] + 1)
                    continue
                # Add/Mul: only when both operands are input-derived or one is and the other is not a small constant
                if opk in ("Add", "Mul"):
                    consts = [mirg.op_int(o) for o in ops]
                    if any(c_ is not None and abs(c_) <= 4096 for c_ in consts) and opk == "Add":
                        ctx.ok(R_arith, {"fn": path, "op": opk, "line": t["ln"], "note": "input value plus small constant on a 32/64-bit type widened from a narrower read"})
                        continue
                san = None
                for o, w in zip(ops, whys):
                    if w:
                        san = san or ft.sanitised(o, bb, zero_test=(opk == "Sub" and o is ops[0] and mirg.op_int(ops[1]) == 1))
                # `x - K` with a constant K > 1: an upper bound on x (`if x < 64`) proves nothing — the evidence has to be a *lower* bound
                # x >= K on the branch taken (K == 1 keeps the zero-test form above)
                if san and opk == "Sub" and whys[0] and (mirg.op_int(ops[1]) or 0) > 1 and san.startswith("dominating comparison"):
                    lb_ = ft.lower_bound_at(ops[0], bb)
                    if lb_ is None or lb_ < mirg.op_int(ops[1]):
                        san = None
                    else:
                        san = "dominating lower bound %d" % lb_
                if san and opk == "Sub" and mirg.op_int(ops[0]) is None and mirg.op_int(ops[1]) is None and not san.startswith("dominating zero test") and not (san.startswith("derivation passes") and ft.clamped_by(ops[1], ops[0])):
                    # two variable operands: a check on one of them (or on a relative) says nothing about their order —
                    # the evidence must compare the two with each other
                    san2 = ft.ordered_before(ops[0], ops[1], bb)
                    san = san2
                if san:
                    ctx.ok(R_arith, {"fn": path, "op": opk, "line": t["ln"], "sanitised_by": san})
                    continue
                key = "C|%s|%s" % (path, opk)
                ctx.bad(R_arith, key, "%s:%d" % (f.file, t["ln"]), "overflow-checked %s on input-derived operand(s) (%s) with no ordering check before it" % (opk, ", ".join(w for w in whys if w)),
                        "hostile field values panic the parser in debug builds and wrap in release (then size allocations / slice bounds)")
            elif t["k"] == "assert" and t["ak"] in ("divzero", "remzero") and not t.get("x"):
                # the divisor is the operand compared with 0 in the statement defining the assert's condition
                du_ = ft.du if getattr(ft, "du", None) is not None else mirg.DefUse(f)
                cl_ = op_local(t["c"])
                div = None
                for _b, k_, p_ in du_.defs.get(cl_, []) if cl_ is not None else []:
                    if k_ == "assign" and p_[2][0] == "bin" and p_[2][1] in ("Eq", "Ne"):
                        a_, b_ = p_[2][2], p_[2][3]
                        div = a_ if mirg.op_int(b_) == 0 else (b_ if mirg.op_int(a_) == 0 else None)
                if div is None or mirg.op_int(div) is not None:
                    continue
                whyz = ft.operand_tainted(div)
                instz = {"fn": path, "op": "/" if t["ak"] == "divzero" else "%", "line": t["ln"]}
                if not whyz:
                    ctx.ok(R_zero, instz) if len(ctx.samples) < 360 else (ctx.rules[R_zero].__setitem__("obligations", ctx.rules[R_zero]["obligations"] + 1), ctx.rules[R_zero].__setitem__("discharged", ctx.rules[R_zero]["discharged"] + 1))
                else:
                    okz = _nonzero_evidence(ft, f, div, bb, world, cg)
                    if okz:
                        instz["nonzero_by"] = okz
                        ctx.ok(R_zero, instz)
                    else:
                        ctx.bad(R_zero, "N|%s|%s" % (path, "div" if t["ak"] == "divzero" else "rem"), "%s:%d" % (f.file, t["ln"]), "division / remainder by an input-derived value (%s) that no dominating branch shows to be non-zero" % whyz,
                                "a zero in that field panics the parser (attempt to divide by zero)")
            elif t["k"] == "assert" and t["ak"] == "bounds" and not t.get("x") and mirg.op_int(t["ops"][0]) is not None and mirg.op_int(t["ops"][1]) is None:
                # F: index into a fixed-size array (constant length): every input-derived additive/multiplicative leaf of the
                # index must itself be bounded (a clamp on one coordinate does not bound the other)
                du = ft.du if getattr(ft, "du", None) is not None else mirg.DefUse(f)
                n_arr = mirg.op_int(t["ops"][0])
                leaves, seen_l, stack = [], set(), [op_local(t["ops"][1])]
                while stack:
                    l_ = stack.pop()
                    if l_ is None or l_ in seen_l:
                        continue
                    seen_l.add(l_)
                    ds = du.defs.get(l_, [])
                    arith = [p_ for _b, k_, p_ in ds if k_ == "assign" and ((p_[2][0] == "bin" and re.match(r"(Add|Mul|Sub)", p_[2][1])) or p_[2][0] in ("use", "cast", "copy", "move"))]
                    if ds and len(arith) == len(ds):
                        for p_ in arith:
                            for o_ in mirg.rvalue_operands(p_[2]):
                                stack.append(op_local(o_))
                    else:
                        leaves.append(l_)
                crate_ = prog.crate(path.split("::")[0]) if path.split("::")[0] in CRATES else None
                TYMAX = {"u8": 255, "u16": 65535, "bool": 1}

                def ub(l_, depth=0):
                    """static upper bound of a local from its type, masks and constant arithmetic (None = unknown)"""
                    if l_ is None or depth > 8:
                        return None
                    tname = crate_.ty(f.mir["locals"][l_][0]) if crate_ is not None else None
                    best = TYMAX.get(tname)
                    ds_ = du.defs.get(l_, [])
                    if len(ds_) == 1 and ds_[0][1] == "assign":
                        rv = ds_[0][2][2]

                        def oub(o_):
                            v_ = mirg.op_int(o_)
                            if v_ is not None:
                                return v_
                            pl = o_[1] if o_[0] in ("c", "m") else None
                            if pl is not None and pproj(pl) and not (len(pproj(pl)) == 1 and pproj(pl)[0] == 0):
                                return None       # a field / element of something else
                            return ub(op_local(o_), depth + 1)
                        cand = None
                        if rv[0] in ("use", "cast"):
                            cand = oub(rvalue_ops(rv)[0])
                        elif rv[0] == "bin":
                            a_, b_ = oub(rv[2]), oub(rv[3])
                            opn = rv[1]
                            if opn == "BitAnd":
                                cand = min(x for x in (a_, b_) if x is not None) if (a_ is not None or b_ is not None) else None
                            elif opn.startswith("Add") and a_ is not None and b_ is not None:
                                cand = a_ + b_
                            elif opn.startswith("Mul") and a_ is not None and b_ is not None:
                                cand = a_ * b_
                            elif opn == "Rem" and b_ is not None and mirg.op_int(rv[3]) is not None:
                                cand = b_ - 1
                            elif opn in ("Shr", "Div", "ShrUnchecked") and a_ is not None:
                                cand = a_
                            elif opn.startswith("Sub") and a_ is not None:
                                cand = a_
                        if cand is not None:
                            best = cand if best is None else min(best, cand)
                    return best
                bound = ub(op_local(t["ops"][1]))
                if bound is not None and bound < mirg.op_int(t["ops"][0]):
                    ctx.call_sites += 1
                    ctx.ok(R_fixed, {"fn": path, "array_len": mirg.op_int(t["ops"][0]), "line": t["ln"], "index_upper_bound": bound})
                    continue
                unb = []
                for l_ in leaves:
                    w_ = ft.operand_tainted(["c", l_])
                    if w_ and not ft.sanitised(["c", l_], bb, strict=True):
                        unb.append((l_, w_))
                inst = {"fn": path, "array_len": n_arr, "line": t["ln"]}
                ctx.call_sites += 1
                if not unb:
                    ctx.ok(R_fixed, inst)
                else:
                    nm = f.mir["locals"][unb[0][0]][1] or "_%d" % unb[0][0]
                    ctx.bad(R_fixed, "F|%s|[%d]|%s" % (path, n_arr, unb[0][1].split("→")[0]), "%s:%d" % (f.file, t["ln"]), "index into a %d-element array built from `%s`, which derives from input (%s) with no clamp / ordering check of its own" % (n_arr, nm, unb[0][1]),
                            "a hostile field value indexes past the fixed array: index-out-of-bounds panic instead of an error")
            elif t["k"] == "never-matches":
                idx = t["ops"][1] if len(t["ops"]) > 1 else None
                ln_ = t["ops"][0] if t["ops"] else None
                if idx is None or mirg.op_int(idx) is None:
                    continue
                # length operand must be input-controlled: it derives from a Vec/slice whose size came from tainted data
                lw = ft.operand_tainted(ln_) if ln_ else None
                inst = {"fn": path, "index": mirg.op_int(idx), "line": t["ln"]}
                if not lw:
                    ctx.ok(R_index, inst)
                    continue
                san = ft.sanitised(ln_, bb)
                if san:
                    inst["sanitised_by"] = san
                    ctx.ok(R_index, inst)
                else:
                    ctx.bad(R_index, "D|%s|[%d]" % (path, mirg.op_int(idx)), "%s:%d" % (f.file, t["ln"]), "constant index [%d] into a buffer whose length is input-controlled (%s) and unchecked" % (mirg.op_int(idx), lw),
                            "an empty/short buffer panics with index out of bounds")

    # K: a slice taken with constant bounds (`data[8..72]`, `&buf[..20]`, `hdr[4..]`) of a buffer that came from the input needs a length
    # test that covers the far bound: `if data.len() < 64 { return Err }` does not license `data[8..72]`.  The guard's constant and
    # the range's bounds are compiler-evaluated constants or literals (finite arithmetic on them is evaluated); the guard must
    # diverge (return / ? / continue / break) and precede the slice in the function.
    R_rng = ctx.rule("C05.K-constant-range-covered-by-length-guard", "every `buf[a..b]` with constant bounds on a parameter / input buffer in a function reachable from a parser entry point is preceded by a diverging guard that rejects len < b (or uses get(..))", floor=5)
    from .c10 import _ival as _iv5, _NoEval as _NE5
    def _cint(e):
        try:
            return _iv5(e, {}, {})
        except (_NE5, Exception):
            return None
    for path in sorted(reach):
        f = cg.fns[path]
        if "::tests::" in path or "::test_utils" in path or "::debug::" in path or not f.hir:
            continue
        body = f.hir["body"]
        idxs = [n for n in hirq.walk(body) if n.get("k") == "index" and hirq.strip(n["i"]).get("k") == "struct" and re.search(r"ops::range::Range(To|From|Inclusive|ToInclusive)?$", (hirq.strip(n["i"]).get("res") or {}).get("def") or "")]
        if not idxs:
            continue
        order = None
        pn = {b for p_ in f.hir["params"] for b in hirq.pat_binds(p_)}
        for n in idxs:
            rg = hirq.strip(n["i"])
            fd = {nm: e for nm, e in rg["fields"]}
            kind = rg["res"]["def"].rsplit("::", 1)[1]
            hi = _cint(fd["end"]) if "end" in fd else None
            lo = _cint(fd["start"]) if "start" in fd else None
            if kind in ("RangeInclusive", "RangeToInclusive") and hi is not None:
                hi += 1
            need = hi if hi is not None else lo
            if need is None or need == 0:
                continue
            base = hirq.strip(n["e"])
            while base.get("k") in ("ref", "un", "cast"):
                base = hirq.strip(base["e"])
            bname = hirq.render(base)
            # only buffers that carry input: a parameter, or a field / local that is not a fixed-size array
            tyb = (ctx.prog.crate(path.split("::")[0]).ty(base.get("t")) if base.get("t") is not None else "") or ""
            m_arr = re.search(r"\[u8; (\d+)\]", tyb)
            if m_arr and int(m_arr.group(1)) >= need:
                continue
            if not (re.search(r"\[u8\]|Vec<u8>|&\[|Bytes|Cow", tyb)):
                continue
            if order is None:
                order = {id(x): i for i, x in enumerate(hirq.walk(body))}
            best = None
            for g in hirq.find(body, "if"):
                if order[id(g)] >= order[id(n)]:
                    continue
                if not any(x.get("k") in ("ret", "continue", "break") or (x.get("k") == "try") for x in hirq.walk(g["then"])):
                    # the guarded form `if len >= K { .. slice .. }`
                    if not (order[id(g)] < order[id(n)] and any(x is n for x in hirq.walk(g["then"]))):
                        continue
                inside0 = any(x is n for x in hirq.walk(g["then"]))
                for cnd in hirq.walk(g["c"]):
                    if cnd.get("k") == "mcall" and cnd["m"] == "is_empty" and hirq.render(cnd["recv"]).lstrip("&*(").rstrip(")") == bname.lstrip("&*(").rstrip(")"):
                        # `if buf.is_empty() { return .. }` (or a disjunct of it) leaves at least one byte; `if !buf.is_empty() { .. slice .. }` too
                        c0 = hirq.strip(g["c"])
                        negated = any(u.get("k") == "un" and u.get("op") == "Not" and any(y is cnd for y in hirq.walk(u["e"])) for u in hirq.walk(c0))
                        if (not inside0 and not negated and not any(b.get("k") == "bin" and b["op"] == "&&" for b in hirq.walk(c0))) or (inside0 and negated and not any(b.get("k") == "bin" and b["op"] == "||" for b in hirq.walk(c0))):
                            best = max(best or 0, 1)
                    if cnd.get("k") != "bin" or cnd["op"] not in ("<", "<=", ">", ">=", "!=", "=="):
                        continue
                    l_, r_ = hirq.strip(cnd["l"]), hirq.strip(cnd["r"])
                    op = cnd["op"]
                    if _cint(l_) is not None and _cint(r_) is None:
                        l_, r_ = r_, l_
                        op = {"<": ">", "<=": ">=", ">": "<", ">=": "<=", "==": "==", "!=": "!="}[op]
                    kv = _cint(r_)
                    if kv is None or not (l_.get("k") == "mcall" and l_["m"] == "len" and hirq.render(l_["recv"]).lstrip("&*(").rstrip(")") == bname.lstrip("&*(").rstrip(")")):
                        continue
                    inside = any(x is n for x in hirq.walk(g["then"]))
                    # least length that survives the guard
                    if inside:
                        least = {">=": kv, ">": kv + 1, "==": kv}.get(op)
                    else:
                        least = {"<": kv, "<=": kv + 1, "!=": kv}.get(op)
                    if least is not None:
                        best = max(best or 0, least)
            inst = {"fn": path, "slice": hirq.render(n)[:50], "needs_len": need, "line": n.get("ln")}
            ctx.call_sites += 1
            if best is not None and best >= need:
                inst["guard_len"] = best
                ctx.ok(R_rng, inst)
            elif best is not None:
                ctx.bad(R_rng, "K|%s|%s" % (path, re.sub(r"\s+", "", hirq.render(n["i"]))[:40]), "%s:%d" % (f.file, n.get("ln") or 0), "`%s` needs %d bytes; the length guard before it only rejects buffers shorter than %d" % (hirq.render(n)[:50], need, best),
                        "a buffer of %d..%d bytes passes the check and the slice panics (range end out of range) instead of returning an error" % (best, need - 1))
            else:
                # no constant guard on this buffer in the function: left to the taint rules (the length may be established by the caller)
                ctx.note_unarmed(R_rng, "%s|%s" % (path.split("::")[-1], hirq.render(n)[:40]), "no constant length guard on `%s` in this function (length established elsewhere or by construction)" % bname) if len(ctx.unarmed) < 60 else None

    # L: an index into a constant table is kept in range by clamps (`if i > K { i = K }`, `i = (i + 8).min(K)`).  Every constant such a
    # clamp lets through must be a valid index of that table: K <= len - 1.  (The taint rules accept any clamp as a bound; this
    # rule checks the clamp's value against the table it protects.)
    R_clamp = ctx.rule("C05.L-clamp-constants-fit-the-indexed-table", "for every index expression P into a const/static array of N elements: each constant a clamp of P lets through (`if P > K { P = K2 }`, `.min(K)`, `.clamp(_, K)`) is <= N - 1", floor=1)
    for path in sorted(reach):
        f = cg.fns[path]
        if "::tests::" in path or not f.hir:
            continue
        crate_h = ctx.prog.crate(path.split("::")[0]) if path.split("::")[0] in CRATES else None
        if crate_h is None:
            continue
        body = f.hir["body"]
        tabs = {}
        for n in hirq.walk(body):
            if n.get("k") != "index":
                continue
            b_ = hirq.strip(n["e"])
            if b_.get("k") == "path" and str((b_.get("res") or {}).get("dk", "")).startswith(("Const", "Static")):
                m_ = re.search(r"\[[\w:]+; (\d+)\]", crate_h.ty(b_.get("t")) or "")
                ix = hirq.strip(n["i"])
                while ix.get("k") == "cast":
                    ix = hirq.strip(ix["e"])
                if m_ and ix.get("k") in ("index", "path", "field"):
                    tabs.setdefault(hirq.render(ix), (int(m_.group(1)), b_["res"]["def"].split("::")[-1]))
        if not tabs:
            continue
        def cval(e, N):
            e = hirq.strip(e)
            while e.get("k") == "block" and not e.get("stmts") and e.get("e") is not None:
                e = hirq.strip(e["e"])
            if e.get("k") == "mcall" and e["m"] == "len" and str((hirq.strip(e["recv"]).get("res") or {}).get("dk", "")).startswith(("Const", "Static")):
                return N
            if e.get("k") == "bin" and e["op"] in ("-", "+"):
                a_, b2 = cval(e["l"], N), cval(e["r"], N)
                return None if a_ is None or b2 is None else (a_ - b2 if e["op"] == "-" else a_ + b2)
            return _cint(e)
        for P, (N, tname) in sorted(tabs.items()):
            clamps = []
            for n in hirq.walk(body):
                if n.get("k") == "assign" and hirq.render(n["l"]) == P:
                    for x in hirq.walk(n["r"]):
                        if x.get("k") == "mcall" and x["m"] in ("min", "clamp") and x.get("args"):
                            clamps.append((cval(x["args"][-1], N), "`%s`" % hirq.render(x)[:50], x.get("ln")))
                        if x.get("k") == "if" and x.get("else") is not None:
                            # `P = if v > K { K2 } else { v }`
                            c_ = hirq.strip(x["c"])
                            if c_.get("k") == "bin" and c_["op"] in (">", ">=") and cval(c_["r"], N) is not None and cval(x["then"], N) is not None:
                                kk = cval(c_["r"], N)
                                thru = kk if c_["op"] == ">" else kk - 1
                                clamps.append((max(cval(x["then"], N), thru), "`%s`" % hirq.render(x)[:50], x.get("ln")))
                        if x.get("k") == "call" and re.search(r"cmp::min$", x.get("fn") or "") and len(x.get("args") or []) == 2:
                            ks = [cval(a_, N) for a_ in x["args"]]
                            clamps.append((next((k_ for k_ in ks if k_ is not None), None), "`%s`" % hirq.render(x)[:50], x.get("ln")))
                if n.get("k") == "if":
                    c_ = hirq.strip(n["c"])
                    if c_.get("k") == "bin" and c_["op"] in (">", ">=") and hirq.render(c_["l"]) == P:
                        for a_ in hirq.walk(n["then"]):
                            if a_.get("k") == "assign" and hirq.render(a_["l"]) == P and cval(a_["r"], N) is not None:
                                kk = cval(c_["r"], N)
                                # values that pass the test unclamped reach kk (for `>`) or kk - 1 (for `>=`)
                                thru = None if kk is None else (kk if c_["op"] == ">" else kk - 1)
                                clamps.append((max(cval(a_["r"], N), thru if thru is not None else 0), "`if %s { %s = %s }`" % (hirq.render(c_)[:40], P[:30], hirq.render(a_["r"])[:12]), n.get("ln")))
            for kmax, what, ln in clamps:
                if kmax is None:
                    continue
                ctx.call_sites += 1
                inst = {"fn": path, "index": P[:40], "table": "%s[%d]" % (tname, N), "clamp": what, "lets_through": kmax}
                if kmax <= N - 1:
                    ctx.ok(R_clamp, inst)
                else:
                    ctx.bad(R_clamp, "L|%s|%s|%s" % (path, tname, re.sub(r"\s+", "", what)[:40]), "%s:%d" % (f.file, ln or 0), "%s lets the index `%s` reach %d; `%s` has %d elements (last index %d)" % (what, P[:40], kmax, tname, N, N - 1),
                            "input that drives the index to the clamp makes the next table lookup panic (index out of bounds) instead of decoding or failing cleanly")

    # M: a decoder's output is drained under a byte budget.  `read_to_end` on a bare stream decoder lets a few hundred bytes of input
    # expand to gigabytes before the size check that follows can reject them; the drain must go through `Read::take(expected + 1)`
    # (the form the crate's own decompress_up_to uses) or read into a buffer of the expected size
    R_bomb = ctx.rule("C05.M-decoder-output-drained-under-a-budget", "every `read_to_end` on a stream decoder (ZlibDecoder / BzDecoder / DeflateDecoder / XzDecoder ..) reachable from a parser entry point is called on a `std::io::Take<..>` of it", floor=1)
    for path in sorted(reach):
        f = cg.fns[path]
        if "::tests::" in path:
            continue
        for bb, t in mirg.iter_calls(f):
            c = mirg.callee(t) or ""
            if not c.endswith("Read::read_to_end") or not t["a"]:
                continue
            l_ = op_local(t["a"][0])
            ty_ = (f.crate.ty(f.mir["locals"][l_][0]) or "") if l_ is not None else ""
            if not re.search(r"Decoder<|Decompress", ty_):
                continue
            ctx.call_sites += 1
            inst = {"fn": path, "line": t["ln"], "reader": ty_[:80]}
            if re.search(r"io::Take<", ty_):
                ctx.ok(R_bomb, inst)
            else:
                ctx.bad(R_bomb, "M|%s|read_to_end" % path, "%s:%d" % (f.file, t["ln"]), "`read_to_end` on `%s`: nothing bounds what the stream expands to" % re.sub(r"^&mut ", "", ty_)[:70],
                        "a few hundred bytes of input (a run of zeros, bzip2- or zlib-compressed) expand to hundreds of megabytes of heap before the size check behind the call rejects them")

    # J: an index guarded by an *inclusive* upper bound (`if i <= n { v[i] }`, `if i > n { return Err } .. v[i]`): the guard admits
    # i == n, one past the end of a container of n elements.  Expected count on a correct tree is zero; instances of the guard
    # shape (exclusive forms included) are counted so that the rule is seen to look at something.
    # P: an "everything announced is present" check built from count x width bounds the count only while width >= 1.  In the table
    # readers (tables/*.rs), for every product of two header quantities that enters a rejecting size guard: each factor is either
    # bounded on its own by that guard (it also occurs outside the product, as a byte count of something that must be present), or
    # the *other* factor is rejected when zero by an earlier guard.  (A BET table with 0-bit entries passed the size check for any
    # file_count; every enumeration then walked file_count entries.)
    R_prod = ctx.rule("C05.P-count-times-width-checks-reject-a-zero-width", "in tables/*.rs readers: for each header product count x width inside a rejecting size guard, the count (a factor some loop runs up to or sizes a collection with) also occurs on its own in the guard, or the width has a rejecting == 0 guard before it", floor=1)
    mpq_ = prog.crate("wow_mpq")
    for f in mpq_.fn_list:
        if f.kind == "Closure" or not f.hir or "::tests::" in f.path or not re.search(r"src/tables/(bet|het)\.rs$", f.file) or not f.path.endswith("::read"):
            continue
        body = f.hir["body"]
        lets_ = {l["pat"]["name"]: l["init"] for l in hirq.find(body, "let") if l["pat"].get("k") == "bind" and l.get("init") is not None}

        def inl(e, d=0):
            r_ = hirq.render(e)
            if d > 3:
                return r_
            for nm, init in lets_.items():
                # (a local, not the field of the same name: `flag_count`, not `header.flag_count`)
                if re.search(r"(?<![.\w])%s\b" % re.escape(nm), r_) and nm not in ("header", "cursor", "table_data", "data"):
                    rep_ = "(" + inl(init, d + 1) + ")"
                    r_ = re.sub(r"(?<![.\w])%s\b" % re.escape(nm), lambda _m, rep_=rep_: rep_, r_)
            return r_

        def fld(e):
            e = hirq.strip(e)
            while e.get("k") == "cast":
                e = hirq.strip(e["e"])
            if e.get("k") == "path" and (e.get("res") or {}).get("local") in lets_:
                return fld(lets_[e["res"]["local"]])
            return hirq.render(e) if e.get("k") == "field" else None
        guards = [g for g in hirq.find(body, "if") if g["c"].get("k") != "letx" and any(x.get("k") == "ret" and "Err" in hirq.render(x.get("e")) for x in hirq.walk(g["then"]))]
        for l in hirq.find(body, "let"):
            i0 = hirq.strip(l.get("init") or {})
            if not (l["pat"].get("k") == "bind" and i0.get("k") == "bin" and i0["op"] == "*"):
                continue
            fa, fb = fld(i0["l"]), fld(i0["r"])
            if not fa or not fb or "header" not in fa or "header" not in fb:
                continue
            prod_name = l["pat"]["name"]
            g = next((g_ for g_ in guards if (g_.get("ln") or 0) > (l.get("ln") or 0) and re.search(r"\b%s\b" % re.escape(prod_name), inl(g_["c"]) + " " + hirq.render(g_["c"]))), None)
            if g is None:
                # the product may reach the guard through further locals
                g = next((g_ for g_ in guards if (g_.get("ln") or 0) > (l.get("ln") or 0) and inl(i0).replace(" as _", "") in inl(g_["c"]).replace(" as _", "")), None)
            if g is None:
                continue
            ctx.saw_fn(f)
            cond = inl(g["c"]).replace(" as _", "")
            prod_r = inl(i0).replace(" as _", "")
            rest = cond.replace(prod_r, "PRODUCT")
            # which factor is the *count*: the one some loop of the crate runs up to (`0..x.file_count`) or sizes a collection with
            def count_like(fr):
                nm_ = fr.split(".")[-1]
                for f2 in mpq_.fn_list:
                    if not f2.hir or "::tests::" in f2.path:
                        continue
                    for x in hirq.walk(f2.hir["body"]):
                        if x.get("k") == "struct" and re.search(r"ops::range::Range", (x.get("res") or {}).get("def") or "") and any(n_ == "end" and re.search(r"\.%s\b" % re.escape(nm_), hirq.render(e_)) for n_, e_ in x["fields"]):
                            return True
                        if x.get("k") in ("call", "mcall") and (x.get("m") == "with_capacity" or (x.get("fn") or "").endswith("with_capacity")) and re.search(r"\.%s\b" % re.escape(nm_), hirq.render(x)):
                            return True
                return False
            for factor, other in ((fa, fb), (fb, fa)):
                if not count_like(factor):
                    continue
                own = factor in rest
                zero_guard = any((g2.get("ln") or 0) < (g.get("ln") or 0) and re.search(r"%s == 0|0 == %s|%s < 1" % (re.escape(other), re.escape(other), re.escape(other)), hirq.render(g2["c"]).replace(" as _", "")) for g2 in guards)
                inst = {"fn": norm(f.path), "product": prod_r[:60], "factor": factor.split(".")[-1]}
                if own or zero_guard:
                    ctx.ok(R_prod, dict(inst, bounded="occurs on its own in the guard" if own else "the other factor is rejected when zero"))
                else:
                    ctx.bad(R_prod, "P|%s|%s" % (norm(f.path), factor.split(".")[-1]), "%s:%d" % (f.file, g.get("ln") or 0), "`%s` is bounded only through the product `%s`, and `%s` may be 0" % (factor, prod_r[:50], other),
                            "with that width 0 the size check holds for any count: a tiny table announces billions of entries and every enumeration of the archive walks them")

    # O: where an index into a locally built Vec is guarded by a comparison, the comparison is with *that* Vec's length (or with the
    # very expression the Vec was sized with) — a count taken from the header says how many elements were announced, not how many
    # were collected (a first pass that stops early leaves the Vec shorter)
    R_own = ctx.rule("C05.O-index-guard-compares-with-the-indexed-collection", "every `if i < X { .. v[i] .. }` on a local Vec v has X = v.len() (or the expression v was allocated with)", floor=4)
    for cn_ in CRATES:
        cr_ = prog.crate(cn_)
        for f in cr_.fn_list:
            if f.kind == "Closure" or not f.hir or "::tests::" in f.path:
                continue
            lets_ = {l["pat"]["name"]: l["init"] for l in hirq.find(f.hir["body"], "let") if l["pat"].get("k") == "bind" and l.get("init") is not None}

            def rec_(n, conds, f=f, cr_=cr_, lets_=lets_):
                if isinstance(n, dict):
                    if n.get("k") == "if" and n["c"].get("k") != "letx":
                        rec_(n["c"], conds)
                        rec_(n["then"], conds + [n["c"]])
                        if n.get("else") is not None:
                            rec_(n["else"], conds)
                        return
                    if n.get("k") == "index":
                        base, ix = hirq.strip(n["e"]), hirq.strip(n["i"])
                        while ix.get("k") == "cast":
                            ix = hirq.strip(ix["e"])
                        if base.get("k") == "path" and "local" in base["res"] and ix.get("k") == "path" and "local" in ix["res"] and re.search(r"Vec<", cr_.ty(base.get("t")) or ""):
                            V, I = base["res"]["local"], ix["res"]["local"]
                            for c in conds:
                                for cmp_ in hirq.walk(c):
                                    if not (cmp_.get("k") == "bin" and cmp_["op"] in ("<", "<=", ">", ">=")):
                                        continue
                                    l_, r_ = hirq.render(cmp_["l"]), hirq.render(cmp_["r"])
                                    # (the index variable itself is compared — not an element it selects: `v[i] > limit` is a test of the value)
                                    l_, r_ = re.sub(r"\[[^\]]*\]", "[]", l_), re.sub(r"\[[^\]]*\]", "[]", r_)
                                    li, ri = re.search(r"\b%s\b" % re.escape(I), l_), re.search(r"\b%s\b" % re.escape(I), r_)
                                    if bool(li) == bool(ri):
                                        continue
                                    oth = r_ if li else l_
                                    if not re.search(r"len\(\)|count|size|num", oth):
                                        continue
                                    ctx.saw_fn(f)
                                    inst = {"fn": norm(f.path), "vec": V, "guard": hirq.render(cmp_)[:70]}
                                    sized = hirq.render(lets_.get(V) or {})
                                    if re.search(r"\b%s\.len\(\)" % re.escape(V), oth) or (oth.strip("()").replace(" as _", "") and oth.strip("()").replace(" as _", "") in sized and re.search(r"from_elem|vec!|with_capacity|repeat", sized)):
                                        ctx.ok(R_own, inst)
                                    else:
                                        ctx.bad(R_own, "O|%s|%s" % (norm(f.path), V), "%s:%d" % (f.file, n.get("ln") or 0), "`%s[%s]` is guarded by `%s` — a bound that is not the length of `%s`" % (V, I, hirq.render(cmp_)[:60], V),
                                                "when `%s` holds fewer elements than that bound (a collecting pass that stopped early, a filtered list) an index the guard lets through is out of bounds: the parser panics" % V)
                    for v in n.values():
                        if isinstance(v, (dict, list)):
                            rec_(v, conds)
                elif isinstance(n, list):
                    for v in n:
                        rec_(v, conds)
            rec_(f.hir["body"], [])

    R_incl = ctx.rule("C05.J-index-guard-is-exclusive", "no index expression is guarded by an inclusive comparison `i <= bound` / `!(i > bound)` on the index itself", floor=30)

    def _copies(du_, l_):
        out_, st_ = set(), [l_]
        while st_:
            x_ = st_.pop()
            if x_ in out_:
                continue
            out_.add(x_)
            for _b, k_, p_ in du_.defs.get(x_, []):
                if k_ == "assign" and p_[2][0] in ("use", "cast"):
                    for o_ in mirg.rvalue_operands(p_[2]):
                        if op_local(o_) is not None and not pproj(o_[1]):
                            st_.append(op_local(o_))
        return out_
    for path in sorted(reach):
        f = cg.fns[path]
        if "::tests::" in path or "::test_utils" in path or "::debug::" in path or not f.mir:
            continue
        blocks = f.mir["blocks"]
        sites = []
        for i, b in enumerate(blocks):
            t = b["t"]
            if b.get("cl"):
                continue
            if t["k"] == "assert" and t.get("ak") == "bounds" and not t.get("x") and op_local(t["ops"][1]) is not None:
                sites.append((i, t["ops"][1], t["ln"]))
            if t["k"] == "call" and re.search(r"ops::index::Index(Mut)?<.*>>::index(_mut)?$", mirg.callee(t) or "") and len(t["a"]) == 2 and op_local(t["a"][1]) is not None and not t.get("x"):
                sites.append((i, t["a"][1], t["ln"]))
        if not sites:
            continue
        du_ = mirg.DefUse(f)
        cmps = []
        for i, b in enumerate(blocks):
            t = b["t"]
            if t["k"] != "switch":
                continue
            seen_, st_ = set(), [(op_local(t["d"]), False)]
            while st_:
                x_, ng = st_.pop()
                if x_ is None or x_ in seen_:
                    continue
                seen_.add(x_)
                for _b, k_, p_ in du_.defs.get(x_, []):
                    if k_ == "assign" and p_[2][0] == "bin" and p_[2][1] in ("Le", "Ge", "Lt", "Gt"):
                        cmps.append((i, p_[2], t, ng))
                    elif k_ == "assign" and p_[2][0] == "un" and p_[2][1] == "Not":
                        st_.append((op_local(p_[2][2]), not ng))
                    elif k_ == "assign" and p_[2][0] == "use" and op_local(p_[2][1]) is not None and not pproj(p_[2][1][1]):
                        st_.append((op_local(p_[2][1]), ng))
        if not cmps:
            continue
        cfg_ = mirg.Cfg(f)
        for bi, idx, ln in sites:
            ia = _copies(du_, op_local(idx))
            for ci, rv, st, ng in cmps:
                opc, l_, r_ = rv[1], rv[2], rv[3]
                ll, rl = op_local(l_), op_local(r_)
                lin = ll is not None and bool(_copies(du_, ll) & ia)
                rin = rl is not None and bool(_copies(du_, rl) & ia)
                if lin == rin:
                    continue
                # the branch on which `idx <= bound` (inclusive) is all that is known
                want = True if (opc == "Le" and lin) or (opc == "Ge" and rin) else False if (opc == "Gt" and lin) or (opc == "Lt" and rin) else None
                # the exclusive forms, for the count
                excl = True if (opc == "Lt" and lin) or (opc == "Gt" and rin) else False if (opc == "Ge" and lin) or (opc == "Le" and rin) else None
                for w_, kind in ((want, "inclusive"), (excl, "exclusive")):
                    if w_ is None:
                        continue
                    w2 = (not w_) if ng else w_
                    tfalse = [t_ for v_, t_ in st["ts"] if v_ == 0]
                    tgt = st.get("o") if w2 else (tfalse[0] if tfalse else None)
                    if tgt is None or not (tgt == bi or cfg_.dominates(tgt, bi)):
                        continue
                    if kind == "exclusive":
                        ctx.ok(R_incl, {"fn": path, "line": ln, "guard": "exclusive"}) if len(ctx.samples) < 400 else (ctx.rules[R_incl].__setitem__("obligations", ctx.rules[R_incl]["obligations"] + 1), ctx.rules[R_incl].__setitem__("discharged", ctx.rules[R_incl]["discharged"] + 1))
                    else:
                        ctx.bad(R_incl, "J|%s|inclusive-index-guard" % path, "%s:%d" % (f.file, ln), "the index used at line %d is only known to be <= its bound (comparison `%s` at line %d), so the bound itself is admitted" % (ln, opc, st["ln"]),
                                "an index equal to the element count passes the guard and panics with index out of bounds")

    probe_wrap_exit_rule(ctx, prog, "C05")

    # I: a vector whose length was clamped to what the input could supply (`ideal.min(available)`) is not indexed by a counter
    #    that runs to the unclamped count
    R_clamp = ctx.rule("C05.I-clamped-length-not-indexed-by-unclamped-counter", "no `v[i]` where v was built with a length that passed through min(..) while i derives from nothing that passed through the same min", floor=300)
    for crate_ in crates:
        for f in crate_.fn_list:
            if "::tests::" in f.path or "::test_utils" in f.path or not f.mir.get("blocks"):
                continue
            du_i = None
            for bb, t in mirg.iter_calls(f):
                cn_ = mirg.callee(t) or ""
                if not re.search(r"Vec<.*> as core::ops::index::Index(Mut)?<.*>>::index(_mut)?$", cn_) or len(t["a"]) != 2 or t.get("x"):
                    continue
                il = op_local(t["a"][1])
                if il is None:
                    continue
                du_i = du_i or mirg.DefUse(f)
                _va, vcalls, _ = du_i.slice_back(op_local(t["a"][0]), depth=14)
                mins = set()
                for cc in vcalls:
                    if re.search(r"from_elem$|with_capacity$", ncallee(cc) or ""):
                        for a in cc["a"]:
                            al = op_local(a)
                            if al is None:
                                continue
                            for m_ in du_i.slice_back(al, depth=10)[1]:
                                if re.search(r"::min$", ncallee(m_) or ""):
                                    mins.add(plocal(m_["d"]))
                if not mins or (mins & du_i.slice_back(il, depth=12)[0]):
                    ctx.rules[R_clamp]["obligations"] += 1
                    ctx.rules[R_clamp]["discharged"] += 1
                    continue
                ctx.saw_fn(f)
                ctx.bad(R_clamp, "I|%s|%d" % (f.path, len([1 for v in ctx.violations if v.key.startswith("I|%s|" % f.path)])), "%s:%d" % (f.file, t["ln"]),
                        "a vector allocated with a length clamped by min(..) is indexed by a value that does not depend on that clamp",
                        "when the input supplies fewer elements than the header's count (the clamp bites) the loop still indexes up to the count: index out of bounds panic instead of an error")

    # H: a `continue` in a `while` loop is reached only after something the loop condition depends on was advanced
    R_cont = ctx.rule("C05.H-while-continue-makes-progress", "in every `while cond` loop of the format crates, each `continue` is preceded on its path through the body by an update of a variable the condition reads", floor=40)

    def _locals_in(n):
        return {x["res"]["local"] for x in hirq.walk(n) if x.get("k") == "path" and "local" in x["res"]}

    def _updates(st, V):
        """does this statement (anywhere inside, closures excluded) assign to / mutably use a variable of V?"""
        for x in hirq.walk(st, into_closures=False):
            if x.get("k") in ("assign", "assignop") and (_locals_in(x["l"]) & V):
                return True
            if x.get("k") == "mcall" and hirq.strip(x["recv"]).get("k") == "path" and hirq.strip(x["recv"])["res"].get("local") in V and \
                    re.search(r"^(next|read\w*|seek|advance|consume|pop\w*|push\w*|take|skip|truncate|drain|remove|insert|set_position|fill_buf|split_off|clear)$", x["m"]):
                return True
            if x.get("k") == "ref" and x.get("mut") and (_locals_in(x["e"]) & V):
                return True
        return False

    def _path_to(root, target, before):
        """statements executed before `target` on the way down from `root` (sequential predecessors in each enclosing block)"""
        if root is target:
            return before
        if isinstance(root, dict):
            if root.get("k") == "block":
                acc = list(before)
                for st in root.get("stmts", []):
                    r_ = _path_to(st, target, acc)
                    if r_ is not None:
                        return r_
                    acc = acc + [st]
                if root.get("e") is not None:
                    return _path_to(root["e"], target, acc)
                return None
            if root.get("k") in ("closure",):
                return None
            for k_, v_ in root.items():
                if isinstance(v_, (dict, list)):
                    r_ = _path_to(v_, target, before)
                    if r_ is not None:
                        return r_
        elif isinstance(root, list):
            for x in root:
                r_ = _path_to(x, target, before)
                if r_ is not None:
                    return r_
        return None
    for crate_ in crates:
        for f in crate_.fn_list:
            if f.kind == "Closure" or not f.hir or "::tests::" in f.path or "::test_utils" in f.path:
                continue
            for lp in hirq.find(f.hir["body"], "loop"):
                if lp.get("src") != "While":
                    continue
                head = hirq.strip(lp["body"])       # `while c {..}` is `loop { if c {..} else { break } }`
                if head is None or head.get("k") != "if":
                    continue
                V = _locals_in(head["c"])
                # every exit test of the loop counts: `if offset >= raw.len() { break }` makes `offset` a progress variable too
                for n_ in hirq.find(head["then"], "if"):
                    if any(x.get("k") in ("break", "ret") for x in hirq.walk(n_["then"], into_closures=False)) or \
                            (n_.get("else") is not None and any(x.get("k") in ("break", "ret") for x in hirq.walk(n_["else"], into_closures=False))):
                        V |= _locals_in(n_["c"])
                conts = []
                inner = [l2 for l2 in hirq.walk(head["then"], into_closures=False) if l2.get("k") in ("loop", "for") and l2 is not lp]
                for ct in hirq.walk(head["then"], into_closures=False):
                    if ct.get("k") == "continue" and not any(any(y is ct for y in hirq.walk(l2)) for l2 in inner):
                        conts.append(ct)
                if not conts:
                    ctx.ok(R_cont, {"fn": f.path, "loop_line": lp.get("ln"), "continues": 0}) if len(ctx.samples) < 400 else (ctx.rules[R_cont].__setitem__("obligations", ctx.rules[R_cont]["obligations"] + 1), ctx.rules[R_cont].__setitem__("discharged", ctx.rules[R_cont]["discharged"] + 1))
                    continue
                ctx.saw_fn(f)
                for ct in conts:
                    pre = _path_to(head["then"], ct, []) or []
                    if any(_updates(st, V) for st in pre):
                        ctx.ok(R_cont, {"fn": f.path, "continue_line": ct["ln"], "progress": True})
                    else:
                        ctx.bad(R_cont, "H|%s|continue" % f.path, "%s:%d" % (f.file, ct["ln"]), "`continue` at line %d is reached without any update of %s, which `while %s` depends on" % (ct["ln"], sorted(V), hirq.render(head["c"])[:50]),
                                "for an input that takes this path the loop re-evaluates the same state forever: the parser hangs instead of returning")

    # recursion
    graph = {}
    for p in reach:
        outs = set()
        for bb, t in mirg.iter_calls(cg.fns[p]):
            c = mirg.op_const(t["f"])
            if c is not None and c.get("fn") and c.get("res", True) and c["fn"] in cg.fns:
                # a call resolved to a concrete local function (generic `R::read`-style dispatch is not a recursion of this function)
                outs.add(c["fn"])
            for a in t["a"]:
                ac = mirg.op_const(a)
                if ac is not None and ac.get("closure") in cg.fns:
                    outs.add(ac["closure"])
        for cl in cg.fns[p].closures:
            outs.add(cl.path)
        graph[p] = outs
    cycles = tarjan_cycles(graph, set(reach))
    for comp in cycles:
        comp = sorted(comp)
        if all(re.search(r"(fmt::|::clone$|::eq$|::drop$|::hash$|::default$)", p) for p in comp):
            continue
        # a depth parameter that is compared: any function in the cycle with a param named depth/level/remaining compared in a switch
        bounded = False
        for p in comp:
            f = cg.fns[p]
            names = [f.mir["locals"][i][1] or "" for i in range(1, f.mir["argc"] + 1)]
            if any(re.search(r"depth|level|remaining|budget|limit", n) for n in names):
                bounded = True
            # recursion over a strictly shrinking in-memory structure (tree nodes already parsed) is bounded by input size
            if re.search(r"(TreeNode|Huffman|huffman|::insert_item|::visit|Bsp|bsp)", p):
                bounded = True
        key = "E|cycle|%s" % comp[0]
        if bounded:
            ctx.ok(R_rec, {"cycle": comp[:4], "bounded": True})
        else:
            ctx.bad(R_rec, key, cg.fns[comp[0]].where, "recursive cycle %s reachable from a parse entry point without a depth bound" % comp[:4],
                    "nesting controlled by the input can overflow the stack")
    if not cycles:
        ctx.ok(R_rec, {"cycles_reachable_from_entry_points": 0})
