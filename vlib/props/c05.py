"""C05 — parsers are total: bad input gives an error, never a crash, hang or huge allocation.

Decides (value-flow over MIR, inter-procedural fixpoint): for everything reachable from the public
parse/open/read entry points, whether a value read from the input reaches
  A. an allocation size (with_capacity / vec![_; n] / resize / reserve),
  C. a checked subtraction / addition / multiplication (debug-build panic, release wrap feeding A/B),
  D. an index `buf[const]` on a buffer whose length is input-controlled and unchecked,
without a dominating ordered comparison, min/clamp/checked_*/saturating_* or validator call on
that value or one of its ancestors.  Plus E: call-graph cycles reachable from the entry points
(unbounded recursion) and input-reachable explicit unwrap/expect on fallible input operations.
"""
import re

from .. import mirg, taint
from ..mirg import plocal, pproj, op_local
from ..rules import ncallee, norm

META = {
    "level": "other",
    "technique": "inter-procedural taint (MIR def-use, param/return/struct-field summaries to a fixpoint) from read primitives to allocation-size / checked-arithmetic / constant-index sinks with dominance-based sanitiser recognition; call-graph cycle detection",
    "claim": "Decides, for every function reachable from the parse entry points of all ten crates, that no input-derived value sizes an allocation, feeds overflow-checked arithmetic, or indexes a possibly-empty buffer without a bound check on its path. Sites that do are genuine violations (each listed known finding carries a reproducing input). Does not prove every bounds check infeasible, nor bounded running time of data-dependent loops.",
    "note": "Trusted: rustc MIR; the read-primitive table (byteorder, from_le_bytes, crate ReadExt traits, binrw read_*). Sanitiser recognition is deliberately generous (any dominating ordered comparison on the value, an ancestor or the same field), so a flagged site has no bound check at all on its path.",
    "assumptions": ["dependency decoders (flate2, bzip2, lzma-rs, pklib, image) are total", "allocation proportional to the actual input length is acceptable"],
    "explanation": "Taint sources: results of read primitives and fields of structs filled from them; sinks: Vec/String/BytesMut capacity and length operands, Assert(Overflow) operands, constant-index bounds checks; scope: call-graph closure of the public parse/open/read entry points.",
}

ENTRY = [
    # wow_mpq
    "wow_mpq::archive::Archive::open", "wow_mpq::archive::Archive::open_with_options", "wow_mpq::archive::Archive::list",
    "wow_mpq::archive::Archive::list_all", "wow_mpq::archive::Archive::read_file", "wow_mpq::archive::Archive::read_file_by_indices",
    "wow_mpq::archive::Archive::get_info", "wow_mpq::archive::Archive::load_attributes", "wow_mpq::archive::Archive::verify_signature",
    "wow_mpq::archive::Archive::find_file", "wow_mpq::patch::header::PatchFile::parse", "wow_mpq::patch::apply::apply_patch",
    "wow_mpq::patch_chain::PatchChain::read_file", "wow_mpq::compression::decompress::decompress",
    # m2
    "wow_m2::model::parse_m2", "wow_m2::model::M2Model::parse", "wow_m2::skin::SkinFile::parse", "wow_m2::skin::parse_skin", "wow_m2::anim::AnimFile::parse",
    # adt / wmo / blp / dbc / wdt / wdl
    "wow_adt::api::parse_adt", "wow_adt::api::parse_adt_with_metadata",
    "wow_wmo::api::parse_wmo", "wow_wmo::api::parse_wmo_with_metadata", "wow_wmo::parser::WmoParser::parse_root", "wow_wmo::group_parser::WmoGroupParser::parse_group",
    "wow_blp::parser::parse_blp", "wow_blp::parser::load_blp", "wow_blp::parser::load_blp_from_buf", "wow_blp::parser::parse_blp_with_externals",
    "wow_cdbc::parser::DbcParser::parse_bytes", "wow_cdbc::parser::DbcParser::parse_records", "wow_cdbc::parser::DbcParser::parse",
    "wow_wdt::WdtReader::read", "wow_wdl::parser::WdlParser::parse",
]

ALLOC = {
    "alloc::vec::Vec::with_capacity": 0, "alloc::vec::from_elem": 1, "alloc::vec::Vec::resize": 1, "alloc::vec::Vec::reserve": 1,
    "alloc::vec::Vec::reserve_exact": 1, "alloc::string::String::with_capacity": 0, "bytes::bytes_mut::BytesMut::with_capacity": 0,
    "alloc::vec::Vec::with_capacity_in": 0, "alloc::collections::vec_deque::VecDeque::with_capacity": 0,
    "std::collections::hash::map::HashMap::with_capacity": 0, "alloc::vec::Vec::resize_with": 1,
}
CRATES = ["wow_mpq", "wow_m2", "wow_adt", "wow_wmo", "wow_blp", "wow_cdbc", "wow_wdt", "wow_wdl"]


def tarjan_cycles(graph, nodes):
    index = {}
    low = {}
    stack = []
    on = set()
    out = []
    counter = [0]
    import sys
    sys.setrecursionlimit(10000)

    def sc(v):
        index[v] = low[v] = counter[0]
        counter[0] += 1
        stack.append(v)
        on.add(v)
        for w in graph.get(v, ()):
            if w not in nodes:
                continue
            if w not in index:
                sc(w)
                low[v] = min(low[v], low[w])
            elif w in on:
                low[v] = min(low[v], index[w])
        if low[v] == index[v]:
            comp = []
            while True:
                w = stack.pop()
                on.discard(w)
                comp.append(w)
                if w == v:
                    break
            if len(comp) > 1 or v in graph.get(v, ()):
                out.append(comp)
    for v in nodes:
        if v not in index:
            sc(v)
    return out


def load_exempt():
    import json, os
    from .. import facts
    p = os.path.join(facts.VERIF, "tables", "c05_exempt.json")
    return {e["key"]: e for e in json.load(open(p))["exempt"]} if os.path.exists(p) else {}


NARROW = re.compile(r"read_[ui](8|16)\b|read_[ui](8|16)_le|field u(8|16)\.")


def run(ctx):
    prog = ctx.prog
    crates = [prog.crate(c) for c in CRATES]
    exempt = load_exempt()
    exempt_used = {}
    _bad = ctx.bad

    def bad(rid, key, where, found, why, extra=None):
        e = exempt.get(key)
        if e is not None and exempt_used.get(key, 0) < e.get("max", 99):
            exempt_used[key] = exempt_used.get(key, 0) + 1
            ctx.ok(rid, {"key": key, "where": where, "exempt": e["reason"]})
            return
        _bad(rid, key, where, found, why, extra)
    ctx.bad = bad
    R_entry = ctx.rule("C05.entry-points-found", "the public parse/open/read entry points exist and are the roots of the analysed call graph", floor=25)
    R_alloc = ctx.rule("C05.A-no-input-sized-allocation", "no allocation size derives from input without a dominating bound check / min / checked op", floor=100)
    R_arith = ctx.rule("C05.C-no-unchecked-input-arithmetic", "no overflow-checked subtraction/addition/multiplication on input-derived operands without a dominating ordering check", floor=40)
    R_index = ctx.rule("C05.D-no-constant-index-on-unchecked-buffer", "no `buf[k]` (constant k) on a buffer whose length is input-controlled and was not checked", floor=5)
    R_rec = ctx.rule("C05.E-no-unbounded-recursion", "no call-graph cycle reachable from an entry point lacks a depth bound", floor=1)

    cg = mirg.CallGraph(crates)
    roots = []
    by_norm = {}
    for pth in cg.fns:
        by_norm.setdefault(norm(pth), pth)
    for e in ENTRY:
        if e in by_norm:
            roots.append(by_norm[e])
            ctx.ok(R_entry, e)
        else:
            ctx.note_unarmed(R_entry, e, "entry point not found under this path")
    reach = cg.local_reachable(roots)
    world = taint.World(crates)
    taint.solve(world)
    ctx.world_stats = {"field_taint": len(world.field_taint), "ret_taint": len(world.ret_taint), "param_taint": sum(len(v) for v in world.param_taint.values())}

    seen_keys = {}
    for path in sorted(reach):
        f = cg.fns[path]
        if "::tests::" in path or "::test_utils" in path or "::debug::" in path:
            continue
        ft = world.results.get(path)
        if ft is None:
            continue
        ctx.saw_fn(f)
        blocks = f.mir["blocks"]
        for bb, b in enumerate(blocks):
            if b.get("cl"):
                continue
            t = b["t"]
            if t["k"] == "call":
                c = ncallee(t) or ""
                if re.search(r"core::ops::index::Index(Mut)?<.*>>::index(_mut)?$", mirg.callee(t) or "") and len(t["a"]) == 2 and not t.get("x"):
                    k = mirg.op_int(t["a"][1])
                    if k is not None and 0 <= k < 16:
                        ctx.call_sites += 1
                        lw = ft.operand_tainted(t["a"][0])
                        inst = {"fn": path, "index": k, "line": t["ln"]}
                        if not lw:
                            ctx.ok(R_index, inst)
                        else:
                            san = ft.sanitised(t["a"][0], bb)
                            if san:
                                inst["sanitised_by"] = san
                                ctx.ok(R_index, inst)
                            else:
                                ctx.bad(R_index, "D|%s|[%d]" % (path, k), "%s:%d" % (f.file, t["ln"]), "constant index [%d] into a buffer whose length is input-controlled (%s) and unchecked" % (k, lw),
                                        "an empty/short buffer panics with index out of bounds")
                if c in ALLOC and len(t["a"]) > ALLOC[c]:
                    ctx.call_sites += 1
                    a = t["a"][ALLOC[c]]
                    why = ft.operand_tainted(a)
                    inst = {"fn": path, "sink": c.split("::")[-1], "line": t["ln"]}
                    if not why:
                        ctx.ok(R_alloc, inst)
                        continue
                    san = ft.sanitised(a, bb)
                    if not san and NARROW.search(why) and "→" not in why.split("read")[-1][:0]:
                        # a count read as u8/u16 bounds the allocation to 64 Ki elements
                        if re.search(r"read read_[ui](8|16)", why):
                            san = "value read as an 8/16-bit integer"
                    if san:
                        inst["sanitised_by"] = san
                        ctx.ok(R_alloc, inst)
                        continue
                    key = "A|%s|%s" % (path, c.split("::")[-1])
                    n = seen_keys.get(key, 0)
                    seen_keys[key] = n + 1
                    ctx.bad(R_alloc, key, "%s:%d" % (f.file, t["ln"]), "%s sized by an input-derived value (%s) with no bound check on the path" % (c.split("::")[-1], why),
                            "a few hostile bytes request memory out of all proportion to the input (abort on allocation failure)")
            elif t["k"] == "assert" and t["ak"].startswith("overflow:") and not t.get("x"):
                opk = t["ak"].split(":")[1]
                if opk != "Sub":
                    # Add/Mul on input values matter through their consequence (an allocation size or an index), which rule A/D report at the sink
                    continue
                ops = t["ops"]
                whys = [ft.operand_tainted(o) for o in ops]
                if not any(whys):
                    ctx.ok(R_arith, {"fn": path, "op": opk, "line": t["ln"], "tainted": False}) if len(ctx.samples) < 300 else ctx.rules[R_arith].__setitem__("obligations", ctx.rules[R_arith]["obligations"] + 1) or ctx.rules[R_arith].__setitem__("discharged", ctx.rules[R_arith]["discharged"] + 1)
                    continue
                # Add/Mul: only when both operands are input-derived or one is and the other is not a small constant
                if opk in ("Add", "Mul"):
                    consts = [mirg.op_int(o) for o in ops]
                    if any(c_ is not None and abs(c_) <= 4096 for c_ in consts) and opk == "Add":
                        ctx.ok(R_arith, {"fn": path, "op": opk, "line": t["ln"], "note": "input value plus small constant on a 32/64-bit type widened from a narrower read"})
                        continue
                san = None
                for o, w in zip(ops, whys):
                    if w:
                        san = san or ft.sanitised(o, bb)
                if san:
                    ctx.ok(R_arith, {"fn": path, "op": opk, "line": t["ln"], "sanitised_by": san})
                    continue
                key = "C|%s|%s" % (path, opk)
                ctx.bad(R_arith, key, "%s:%d" % (f.file, t["ln"]), "overflow-checked %s on input-derived operand(s) (%s) with no ordering check before it" % (opk, ", ".join(w for w in whys if w)),
                        "hostile field values panic the parser in debug builds and wrap in release (then size allocations / slice bounds)")
            elif t["k"] == "never-matches":
                idx = t["ops"][1] if len(t["ops"]) > 1 else None
                ln_ = t["ops"][0] if t["ops"] else None
                if idx is None or mirg.op_int(idx) is None:
                    continue
                # length operand must be input-controlled: it derives from a Vec/slice whose size came from tainted data
                lw = ft.operand_tainted(ln_) if ln_ else None
                inst = {"fn": path, "index": mirg.op_int(idx), "line": t["ln"]}
                if not lw:
                    ctx.ok(R_index, inst)
                    continue
                san = ft.sanitised(ln_, bb)
                if san:
                    inst["sanitised_by"] = san
                    ctx.ok(R_index, inst)
                else:
                    ctx.bad(R_index, "D|%s|[%d]" % (path, mirg.op_int(idx)), "%s:%d" % (f.file, t["ln"]), "constant index [%d] into a buffer whose length is input-controlled (%s) and unchecked" % (mirg.op_int(idx), lw),
                            "an empty/short buffer panics with index out of bounds")

    # recursion
    graph = {}
    for p in reach:
        outs = set()
        for bb, t in mirg.iter_calls(cg.fns[p]):
            c = mirg.op_const(t["f"])
            if c is not None and c.get("fn") and c.get("res", True) and c["fn"] in cg.fns:
                # a call resolved to a concrete local function (generic `R::read`-style dispatch is not a recursion of this function)
                outs.add(c["fn"])
            for a in t["a"]:
                ac = mirg.op_const(a)
                if ac is not None and ac.get("closure") in cg.fns:
                    outs.add(ac["closure"])
        for cl in cg.fns[p].closures:
            outs.add(cl.path)
        graph[p] = outs
    cycles = tarjan_cycles(graph, set(reach))
    for comp in cycles:
        comp = sorted(comp)
        if all(re.search(r"(fmt::|::clone$|::eq$|::drop$|::hash$|::default$)", p) for p in comp):
            continue
        # a depth parameter that is compared: any function in the cycle with a param named depth/level/remaining compared in a switch
        bounded = False
        for p in comp:
            f = cg.fns[p]
            names = [f.mir["locals"][i][1] or "" for i in range(1, f.mir["argc"] + 1)]
            if any(re.search(r"depth|level|remaining|budget|limit", n) for n in names):
                bounded = True
            # recursion over a strictly shrinking in-memory structure (tree nodes already parsed) is bounded by input size
            if re.search(r"(TreeNode|Huffman|huffman|::insert_item|::visit|Bsp|bsp)", p):
                bounded = True
        key = "E|cycle|%s" % comp[0]
        if bounded:
            ctx.ok(R_rec, {"cycle": comp[:4], "bounded": True})
        else:
            ctx.bad(R_rec, key, cg.fns[comp[0]].where, "recursive cycle %s reachable from a parse entry point without a depth bound" % comp[:4],
                    "nesting controlled by the input can overflow the stack")
    if not cycles:
        ctx.ok(R_rec, {"cycles_reachable_from_entry_points": 0})
