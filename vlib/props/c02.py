"""C02 — archives interoperate with an independent implementation of the MPQ format.

Decides that the library's compile-time constants and on-disk layouts equal the published
format's, against a reference written independently of the repo (reference/kernels.py): magic
numbers, flag values, method bytes, hash-type offsets; the header field sequence (width, order,
named field) written by `write_header` and read by `MpqHeader::read_with_limits` for V1–V4; hash and
block entry layouts; the literal names the table keys are hashed from; the FIX_KEY formula; the rule
that only whole 32-bit words are encrypted; and that file keys are derived from the plain file name.
(The crypt table, fold tables and cipher/hash kernels are decided under C04 against the same reference.)
"""
import os
import re
import sys

from .. import facts, hirq, mirg, wire
from ..rules import norm

sys.path.insert(0, os.path.join(facts.VERIF, "reference"))
import kernels as ref  # noqa: E402

META = {
    "level": "other",
    "technique": "compiler-evaluated constants and wire signatures (typed HIR) compared with an independent reference of the published format; literal/shape rules on key derivation and tail handling",
    "claim": "Decides equality with the published MPQ format for ~50 constants, the V1–V4 header layouts on both the write and the read side (width, order, field identity), the 16-byte hash/block entry layouts, the table key names, the position-adjusted key formula, whole-word-only encryption and plain-name key derivation. Does not run a second implementation or compare zlib/bzip2 payloads. Also: every loop serialising hash/block entry fields uses the format order and widths; the key position is seek position − archive offset; lookups stop only at never-used entries (truth table over the three entry kinds); name hashes iterate over bytes. Wave 5: every difference of two different header table positions sits under a comparison of the two (table order is not assumed); in zlib::decompress no path reaches a raw-deflate decoder without the zlib decoder having been tried unless its guard rejects all 128 legal RFC 1950 headers. Wave 6: readers decide \"sector is compressed\" against that sector's own decompression target; the file key is derived after the last write to the flags it reads. Wave 7: never-expands and the cipher-block-extent rule are armed here as well (shared with C03 / C01). Wave 8: every extent guard of the read paths accepts an extent that ends exactly at the end of its container (12 guards, truth table); no value is taken from a buffer after it was enciphered in place.",
    "note": "Reference = reference/kernels.py, written from the public format description (zezula.net / StormLib headers), not from the repo.",
    "assumptions": ["the published format subset: V1/V2 headers, classic tables, none/zlib/bzip2, plain and encrypted files"],
    "explanation": "wow_mpq constants (magics, FLAG_*, method bytes, hash types, empty markers), builder::write_header, header::MpqHeader::read_with_limits, HashEntry/BlockEntry readers and writers, hash_string(\"(hash table)\"/\"(block table)\", FILE_KEY) sites, calculate_file_key and the three reader derivations, the byte-level encrypt/decrypt wrappers.",
}

M = "wow_mpq::"
VERS = ["V1", "V2", "V3", "V4"]


def pick_version(toks, ver, have_v4=True):
    out = []
    vi = VERS.index(ver)
    for t in toks:
        if t.k == "ALT":
            c = t.cond
            arm = None
            if c[0] == "ver" and isinstance(c[2], str) and c[2] in VERS:
                k = VERS.index(c[2])
                truth = {">=": vi >= k, "<": vi < k, ">": vi > k, "<=": vi <= k, "==": vi == k, "!=": vi != k}.get(c[1])
                arm = t.arms[0] if truth else (t.arms[1] if len(t.arms) > 1 else [])
            elif c[0] == "match" and isinstance(t.name, list) and ver in t.name:
                arm = t.arms[t.name.index(ver)]
            elif c[0] == "opaque":
                txt = c[1]
                if re.search(r"remaining_header <", txt):
                    arm = t.arms[1] if len(t.arms) > 1 else []
                elif re.search(r"header_size >= 208", txt):
                    arm = t.arms[0] if ver == "V4" else (t.arms[1] if len(t.arms) > 1 else [])
                elif re.search(r"let Some\(v4_data\)", txt):
                    arm = t.arms[0] if ver == "V4" else (t.arms[1] if len(t.arms) > 1 else [])
            if arm is None:
                rend = {wire.strip_names(wire.flat(pick_version(a, ver))) for a in t.arms}
                if len(rend) == 1:
                    arm = t.arms[0]
                else:
                    # error/guard alternatives carrying no bytes are dropped
                    nonempty = [a for a in t.arms if pick_version(a, ver)]
                    arm = nonempty[0] if len(nonempty) == 1 else []
            out += pick_version(arm, ver)
        elif t.k == "REP":
            out.append(t)
        else:
            out.append(t)
    return out


def make_entry_state_table(mpq):
    """returns f(cond) -> {"occupied": bool, "deleted": bool, "never-used": bool} (or None if cond is not a pure predicate on
    the entry's state): HashEntry::is_xxx() calls are replaced by their bodies, then the condition is evaluated for the
    three kinds of hash entry (a finite domain: block_index < DELETED, == DELETED, == NEVER_USED)"""
    from .c10 import _bval, _NoEval
    he_methods = {norm(f.path).split("::")[-1]: f for f in mpq.fn_list if f.hir and f.kind != "Closure" and norm(f.path).startswith(M + "tables::hash::HashEntry::")}
    KINDS = {"occupied": 5, "deleted": ref.CONSTANTS["HashEntry::EMPTY_DELETED"], "never-used": ref.CONSTANTS["HashEntry::EMPTY_NEVER_USED"]}

    def expand(n, depth=0):
        if isinstance(n, list):
            return [expand(x, depth) for x in n]
        if not isinstance(n, dict):
            return n
        if n.get("k") == "mcall" and n["m"] in he_methods and not n.get("args") and depth < 3 and (n.get("fn") or "").endswith("HashEntry::" + n["m"]):
            body = he_methods[n["m"]].hir["body"]
            return expand(hirq.subst(hirq.strip(body), {"self": n["recv"]}), depth + 1)
        return {k_: expand(v_, depth) for k_, v_ in n.items()}

    def table(cond):
        tab = {}
        try:
            for kind, v in KINDS.items():
                env = {"__leaf__": (lambda r_, v=v: v if r_.endswith("block_index") else {"EMPTY_DELETED": KINDS["deleted"], "EMPTY_NEVER_USED": KINDS["never-used"]}.get(r_))}
                tab[kind] = _bval(expand(cond), env, {})
        except _NoEval:
            return None
        return tab
    table.expand = expand
    return table



def extent_guards_rule(ctx, mpq, pid):
    """a conformant archive may end with file data (tables first, data last) and a table may end exactly where its container ends:
    every guard of the read paths that rejects an extent by comparing its *end* (a sum: position + length) with the length of what
    contains it must accept end == length and reject end > length — whichever way round the comparison is spelled"""
    R = ctx.rule("%s.extent-guards-accept-an-extent-that-ends-at-the-end" % pid, "in wow-mpq's read paths every error guard comparing a sum (start + length) with a container length is false for end == length and true for end > length", floor=8)

    def summy(e, lets, d=0):
        e = hirq.strip(e)
        while e.get("k") in ("cast", "try"):
            e = hirq.strip(e["e"])
        if e.get("k") == "bin" and e["op"] == "+":
            return True
        if e.get("k") == "mcall" and e["m"] in ("checked_add", "saturating_add", "wrapping_add"):
            return True
        if e.get("k") == "mcall" and e["m"] in ("ok_or_else", "ok_or", "unwrap_or", "unwrap", "expect"):
            return summy(e["recv"], lets, d)
        if e.get("k") == "path" and e["res"].get("local") in lets and d < 3:
            return summy(lets[e["res"]["local"]], lets, d + 1)
        return False

    def leny(e):
        return bool(re.search(r"\.len\(\)|file_len|_len\b|archive_size|file_size|_size\b|\.size\b|metadata", hirq.render(e)))
    for f in mpq.fn_list:
        if f.kind == "Closure" or not f.hir or "::tests::" in f.path or not re.search(r"src/(archive|tables/|patch/|header|special_files|modification)", f.file):
            continue
        body = f.hir["body"]
        lets = {l["pat"]["name"]: l["init"] for l in hirq.find(body, "let") if l["pat"].get("k") == "bind" and l.get("init") is not None}
        for g in hirq.find(body, "if"):
            if g["c"].get("k") == "letx" or not any(x.get("k") == "ret" for x in hirq.walk(g["then"])) or "Err" not in hirq.render(g["then"]):
                continue
            for c in hirq.walk(g["c"]):
                if not (c.get("k") == "bin" and c["op"] in ("<", "<=", ">", ">=")):
                    continue
                if summy(c["l"], lets) and leny(c["r"]) and not summy(c["r"], lets):
                    end_left = True
                elif summy(c["r"], lets) and leny(c["l"]) and not summy(c["l"], lets):
                    end_left = False
                else:
                    continue
                ctx.saw_fn(f)

                def rej(end, ln, c=c, end_left=end_left):
                    a, b = (end, ln) if end_left else (ln, end)
                    return {"<": a < b, "<=": a <= b, ">": a > b, ">=": a >= b}[c["op"]]
                inst = {"fn": norm(f.path).split("::", 1)[1], "guard": hirq.render(c)[:70]}
                if rej(5, 5):
                    ctx.bad(R, "%s|%s|rejects-exact-fit" % (inst["fn"].split("::")[-1], re.sub(r"[^a-z_]", "", hirq.render(c["l"] if end_left else c["r"]))[:30]), "%s:%d" % (f.file, c.get("ln") or 0),
                            "`%s` is an error also when the extent ends exactly at the end of its container" % inst["guard"],
                            "data that another implementation legitimately places last (a file at the very end of the archive, a table that fills its block) is refused: reading fails on a conformant archive")
                elif not rej(6, 5):
                    ctx.bad(R, "%s|%s|never-rejects" % (inst["fn"].split("::")[-1], re.sub(r"[^a-z_]", "", hirq.render(c["l"] if end_left else c["r"]))[:30]), "%s:%d" % (f.file, c.get("ln") or 0),
                            "`%s` does not fire for an extent that ends beyond its container" % inst["guard"], "the guard no longer protects the slice / read that follows")
                else:
                    ctx.ok(R, inst)



def no_reads_of_enciphered_buffers_rule(ctx, mpq, pid):
    """what the writer stores in the block table and the header is plain: once a local buffer has been handed to a cipher routine
    in place (`encrypt_*(&mut buf, key)`), the writer no longer takes numbers out of it — an element read (`buf[i]`) after the
    call yields ciphertext.  (The enciphered buffer may still be written out whole or element by element.)"""
    R = ctx.rule("%s.no-value-taken-from-a-buffer-after-it-was-enciphered" % pid, "in builder.rs / modification.rs: after `encrypt_*(&mut V, ..)` no `V[i]` is read except as the direct argument of a write/append call", floor=3)
    SINK = re.compile(r"^(write_\w+|write_all|extend_from_slice|push|copy_from_slice|extend)$")
    for f in mpq.fn_list:
        if f.kind == "Closure" or not f.hir or "::tests::" in f.path or not f.file.endswith(("builder.rs", "modification.rs")):
            continue
        body = f.hir["body"]
        enc = []          # (local, line)
        for c in hirq.calls(body):
            nm = c.get("m") or (c.get("fn") or "").split("::")[-1]
            if not re.search(r"^encrypt", nm):
                continue
            for a in c.get("args") or []:
                a0 = a
                if a0.get("k") == "ref" and a0.get("mut"):
                    b = hirq.strip(a0["e"])
                    while b.get("k") in ("index", "mcall", "field") and b.get("k") != "path":
                        b = hirq.strip(b.get("e") or b.get("recv") or {})
                    if b.get("k") == "path" and "local" in (b.get("res") or {}):
                        enc.append((b["res"]["local"], c.get("ln") or 0, nm))
        if not enc:
            continue
        ctx.saw_fn(f)
        # sink arguments (whole nodes) — reads directly inside them are fine
        sink_args = [a for c in hirq.walk(body) if c.get("k") == "mcall" and SINK.search(c["m"]) for a in c.get("args") or []]
        sink_ids = {id(x) for a in sink_args for x in hirq.walk(a)}
        for v, ln, nm in sorted(set(enc)):
            later = [x for x in hirq.find(body, "index") if hirq.strip(x["e"]).get("k") == "path" and hirq.strip(x["e"])["res"].get("local") == v
                     and (x.get("ln") or 0) > ln and id(x) not in sink_ids
                     and not (hirq.strip(x["i"]).get("k") == "struct")]        # (a range slice handed on whole is not a number taken out)
            # assignments *into* the buffer are not reads
            stores = {id(hirq.strip(a["l"])) for a in hirq.walk(body) if a.get("k") in ("assign",)}
            later = [x for x in later if id(x) not in stores]
            inst = {"fn": norm(f.path).split("::")[-1], "buffer": v, "enciphered_by": nm}
            if later:
                ctx.bad(R, "%s|%s|read-after-encipher" % (inst["fn"], v), "%s:%d" % (f.file, later[0].get("ln") or 0), "`%s` is read at line %d, after `%s(&mut %s, ..)` at line %d" % (hirq.render(later[0])[:40], later[0].get("ln") or 0, nm, v, ln),
                        "the number taken is ciphertext whenever the file is encrypted: sizes / positions derived from it (the block entry's stored size) are garbage to every other reader, while this library's own reader may never consult them")
            else:
                ctx.ok(R, inst)


def run(ctx):
    prog = ctx.prog
    mpq = prog.crate("wow_mpq")
    fns = {norm(f.path): f for f in mpq.fn_list if f.kind != "Closure" and f.hir}
    consts = mpq.consts()
    R_const = ctx.rule("C02.constants-equal-published-format", "magic numbers, block flags, compression method bytes, hash-type offsets and markers equal the published values", floor=40)
    R_hdr = ctx.rule("C02.header-layout-equals-format", "write_header and MpqHeader::read_with_limits lay the V1–V4 header out exactly as the format does (width, order, field)", floor=8)
    R_ent = ctx.rule("C02.table-entry-layouts", "hash entries are 4,4,2,2,4 and block entries 4,4,4,4 bytes in format field order on both the read and the write side", floor=2)
    R_names = ctx.rule("C02.table-key-names", "table keys are hash_string(\"(hash table)\"/\"(block table)\", FILE_KEY) at every table codec site", floor=8)
    R_key = ctx.rule("C02.file-key-from-plain-name-and-fix-key-formula", "file keys are derived from the plain file name (no directory) and adjusted as (key + pos) ^ size", floor=2)
    R_tail = ctx.rule("C02.only-whole-words-encrypted", "byte-level encrypt/decrypt wrappers leave a len % 4 tail untouched, as the format's block cipher does", floor=3)

    # constants
    short = {}
    for path, c in consts.items():
        parts = path.split("::")
        short["::".join(parts[-2:])] = c
        short.setdefault(parts[-1], c)
    for name, want in sorted(ref.CONSTANTS.items()):
        c = short.get(name)
        if c is None:
            ctx.note_unarmed(R_const, name, "constant not present in the crate")
            continue
        got = c.get("v")
        if got == want:
            ctx.ok(R_const, {"const": name, "value": hex(want)})
        else:
            ctx.bad(R_const, "const|%s" % name, "%s:%s" % (c.get("file", "?"), c.get("ln", "?")), "%s = %s, the format says %s" % (name, hex(got) if isinstance(got, int) else got, hex(want)),
                    "archives written with this value are not MPQ archives to any other implementation (and foreign archives are misread)")
    # header sizes
    hs = fns.get(M + "header::FormatVersion::header_size")
    if hs is not None:
        tab = {}
        for m_ in hirq.find(hs.hir["body"], "match"):
            for arm in m_["arms"]:
                v = (hirq.pat_ctor(arm["pat"]) or "").split("::")[-1]
                val = hirq.lit_int(hirq.strip(arm["body"]))
                if v in ref.HEADER_SIZES and val is not None:
                    tab[v] = val
        for v, want in ref.HEADER_SIZES.items():
            if tab.get(v) == want:
                ctx.ok(R_const, {"header_size": v, "value": want})
            else:
                ctx.bad(R_const, "header_size|%s" % v, hs.where, "header_size(%s) = %s, the format says %s" % (v, tab.get(v), want), "header of the wrong length")

    # header layouts
    wh = fns.get(M + "builder::ArchiveBuilder::write_header")
    rh = fns.get(M + "header::MpqHeader::read_with_limits")
    for side, f, mode in (("write_header", wh, "w"), ("read_with_limits", rh, "r")):
        if f is None:
            ctx.bad(R_hdr, "%s|missing" % side, "-", "function not found", "anchor gone")
            continue
        ctx.saw_fn(f)
        toks, _ = wire.extract(mpq, f, mode)
        for ver in VERS:
            seq = [t for t in pick_version(toks, ver) if t.k in ("P", "B")]
            want = ref.HEADER[ver]
            got = [(t.name, t.w) for t in seq]
            key = "%s|%s" % (side, ver)
            widths_ok = [w for _, w in got] == [w for _, w in want]
            if not widths_ok:
                ctx.bad(R_hdr, key + "|widths", f.where, "%s %s emits/reads widths %s; the format is %s" % (side, ver, [w for _, w in got], [w for _, w in want]),
                        "header fields land at the wrong offsets for other implementations")
                continue
            mism = []
            for (gn, gw), (wn, ww) in zip(got, want):
                if gn is None:
                    continue
                g = wire.norm_name(re.sub(r"_raw$", "", gn))
                aliases = {wn, wn.replace("format_version", "version"), wn.replace("signature", "MPQ_ARCHIVE"), wn.replace("block_size", "block_size")}
                if g in ("version", "MPQ_ARCHIVE", "min", "archive_size", "header_size") or g in aliases or wn.startswith(g) or g.startswith(wn.split("_")[0]) and g.split("_")[:2] == wn.split("_")[:2]:
                    continue
                mism.append("slot `%s` carries `%s`" % (wn, gn))
            if mism:
                ctx.bad(R_hdr, key + "|fields", f.where, "%s %s: %s" % (side, ver, "; ".join(mism[:3])),
                        "equal-width header fields are swapped relative to the format: another implementation reads one table's position as the other's")
            else:
                ctx.ok(R_hdr, {"side": side, "version": ver, "bytes": sum(w for _, w in got)})

    # entry layouts
    for owner, want, label in ((M + "tables::hash::HashEntry", ref.HASH_ENTRY, "hash entry"), (M + "tables::block::BlockEntry", ref.BLOCK_ENTRY, "block entry")):
        for meth, mode in (("from_bytes", "r"), ("read", "r"), ("write", "w"), ("to_bytes", "w")):
            f = fns.get(owner + "::" + meth)
            if f is None:
                continue
            ctx.saw_fn(f)
            toks, _ = wire.extract(mpq, f, mode)
            seq = [t for t in wire.specialise(toks, {}) if t.k in ("P", "B")]
            if not seq:
                # from_bytes(&[u8]) style: widths from from_le_bytes over fixed slices — compare struct field types instead
                adt = next((a for a in mpq.items["adts"] if a["path"] == owner), None)
                if adt:
                    got = [(fl["name"], wire.ty_width(fl["ty"])) for fl in adt["fields"]]
                    if got == [(n, w) for n, w in want]:
                        ctx.ok(R_ent, {"type": label, "via": "struct field order/types", "fields": got})
                    else:
                        ctx.bad(R_ent, "%s|struct" % label, f.where, "struct is %s, format is %s" % (got, want), "entry layout differs from the format")
                continue
            got = [(t.name, t.w) for t in seq]
            if [w for _, w in got] != [w for _, w in want]:
                ctx.bad(R_ent, "%s|%s|widths" % (label, meth), f.where, "%s::%s uses widths %s; the format is %s" % (label, meth, [w for _, w in got], [w for _, w in want]), "table entries are mis-sized")
            else:
                names = [wire.norm_name(n) for n, _ in got if n]
                wn = [n for n, _ in want]
                order = [n for n in names if n in wn]
                if order and order != [n for n in wn if n in order]:
                    ctx.bad(R_ent, "%s|%s|order" % (label, meth), f.where, "field order %s; the format is %s" % (order, wn), "equal-width entry fields swapped")
                else:
                    ctx.ok(R_ent, {"type": label, "fn": meth, "layout": got})

    # entry layouts, writer side: every loop that serialises entry fields (write_uNN_le(e.f) / extend_from_slice(&e.f.to_le_bytes()))
    R_entw = ctx.rule("C02.table-entry-writers", "every loop serialising hash/block entry fields emits them in format order with format widths", floor=5)
    adt_w = {}
    for a in mpq.items["adts"]:
        if a["path"] in (M + "tables::hash::HashEntry", M + "tables::block::BlockEntry"):
            adt_w[a["path"].split("::")[-1]] = {fl["name"]: wire.ty_width(fl["ty"]) for fl in a["fields"]}
    layouts = {"hash entry": (ref.HASH_ENTRY, adt_w.get("HashEntry", {})), "block entry": (ref.BLOCK_ENTRY, adt_w.get("BlockEntry", {}))}
    for f in mpq.fn_list:
        if f.kind == "Closure" or not f.hir or "::tests::" in f.path or "::debug::" in f.path or "::test_utils::" in f.path:
            continue
        for loop in hirq.find(f.hir["body"], "for"):
            seq = []
            for c in hirq.walk(loop["body"]):
                if c.get("k") != "mcall" or not c.get("args"):
                    continue
                a0 = hirq.strip(c["args"][0])
                while a0 and a0.get("k") == "cast":
                    a0 = hirq.strip(a0["e"])
                mw = re.match(r"write_[ui](8|16|32|64)(_le)?$", c["m"])
                if mw and a0 and a0.get("k") == "field":
                    seq.append((a0["name"], int(mw.group(1)) // 8, c["ln"]))
                elif c["m"] in ("extend_from_slice", "write_all") and a0 and a0.get("k") == "mcall" and a0["m"] == "to_le_bytes" and hirq.strip(a0["recv"]).get("k") == "field":
                    seq.append((hirq.strip(a0["recv"])["name"], None, c["ln"]))
            for label, (want, widths) in layouts.items():
                wn = [n for n, _ in want]
                mine = [(n, w if w is not None else widths.get(n), ln) for n, w, ln in seq if n in wn]
                if len(mine) < 3:
                    continue
                if {n for n, _, _ in mine} != set(wn):
                    # a partial projection of the entry (the simplified BET file table) is not the classic 16-byte entry —
                    # unless the same function derives the classic table's key, in which case a field is missing
                    lits = {hirq.lit_str(hirq.strip(c["args"][0])) for c in hirq.calls(f.hir["body"]) if (c.get("fn") or "").endswith("hash_string") and c.get("args")}
                    if not (lits & set(ref.TABLE_KEY_NAMES.values())):
                        continue
                ctx.saw_fn(f)
                key = "%s|%s" % (norm(f.path).replace(M, ""), label)
                got = [(n, w) for n, w, _ in mine]
                if got == [(n, w) for n, w in want]:
                    ctx.ok(R_entw, {"fn": norm(f.path), "type": label, "line": mine[0][2], "layout": got})
                else:
                    ctx.bad(R_entw, key, "%s:%d" % (f.file, mine[0][2]), "%s serialised as %s; the format is %s" % (label, got, want),
                            "equal-width entry fields are swapped (or mis-sized) relative to the format: another implementation reads one as the other")

    # table key names
    for f in mpq.fn_list:
        if f.kind == "Closure" or not f.hir or "::tests::" in f.path or "::debug::" in f.path or "crypto::hash" in f.path:
            continue
        for c in hirq.calls(f.hir["body"]):
            if (c.get("fn") or "").endswith("crypto::hash::hash_string") and len(c["args"]) == 2:
                lit = hirq.lit_str(hirq.strip(c["args"][0]))
                ht = hirq.render(c["args"][1])
                if lit is None or "FILE_KEY" not in ht:
                    continue
                ctx.call_sites += 1
                ctxt = (f.path + " " + " ".join(hirq.render(x) for x in hirq.walk(f.hir["body"]) if x.get("k") == "let" and x["ln"] in range(c["ln"] - 2, c["ln"] + 8)))[:2000].lower()
                which = "hash" if ("hash" in f.path.lower().split("::")[-2] or "hash_table" in ctxt and "block_table" not in ctxt) else None
                if lit in (ref.TABLE_KEY_NAMES["hash"], ref.TABLE_KEY_NAMES["block"]):
                    ctx.ok(R_names, {"fn": f.path, "name": lit, "line": c["ln"]})
                else:
                    ctx.bad(R_names, "%s|%s" % (f.path, lit), "%s:%d" % (f.file, c["ln"]), "table key hashed from %r" % lit, "hash/block tables encrypted with a key no other implementation derives")

    # key derivation: plain name + fix-key
    sites = []
    for path in ("builder::ArchiveBuilder::calculate_file_key", "archive::Archive::read_file", "archive::Archive::read_file_by_indices",
                 "archive::Archive::read_patch_file_raw", "modification::MutableArchive::prepare_file_data"):
        f = fns.get(M + path)
        if f is None:
            continue
        ctx.saw_fn(f)
        for c in hirq.calls(f.hir["body"]):
            if (c.get("fn") or "").endswith("crypto::hash::hash_string") and len(c["args"]) == 2 and "FILE_KEY" in hirq.render(c["args"][1]) and hirq.lit_str(hirq.strip(c["args"][0])) is None:
                arg = hirq.render(c["args"][0])
                # plain name: derived through rsplit/rfind on a separator / a helper named plain/basename/file_name
                body_txt = " ".join(hirq.render(x) for x in hirq.find(f.hir["body"], "let"))
                plain = bool(re.search(r"plain|basename|rsplit|rfind|file_name\(", arg + " " + " ".join(l for l in body_txt.split("let ") if l.startswith(re.sub(r"\W.*", "", arg.lstrip("&"))))))
                sites.append((path, c["ln"], f, arg, plain))
    for path, ln, f, arg, plain in sites:
        key = "%s|key-from-full-path" % path.split("::")[-1]
        if plain:
            ctx.ok(R_key, {"fn": path, "name_arg": arg})
        else:
            ctx.bad(R_key, key, "%s:%d" % (f.file, ln), "file key = hash_string(%s, FILE_KEY) on the full archive path" % arg,
                    "the format derives the key from the file name without its directory: encrypted files inside directories written by (or for) other implementations cannot be decrypted")

    # position operand of the adjusted key: offset of the file's data relative to the archive start (not the absolute file offset)
    R_pos = ctx.rule("C02.fix-key-position-is-archive-relative", "the position added into an adjusted key is the block's offset from the archive start: `seek position - archive_offset` (or the block entry's own relative field)", floor=3)
    from . import c03 as _c03
    for path in ("archive::Archive::read_file", "archive::Archive::read_file_by_indices", "archive::Archive::read_patch_file_raw"):
        f = fns.get(M + path)
        if f is None:
            ctx.bad(R_pos, "%s|missing" % path, "-", "function not found", "anchor gone")
            continue
        inline = _c03.make_inliner(f.hir["body"])
        seeks = set()
        for c in hirq.calls(f.hir["body"]):
            if (c.get("fn") or "").endswith("SeekFrom::Start") and c.get("args"):
                seeks.add(hirq.render(hirq.strip(c["args"][0])))
        local_fns = {g.path: g for g in mpq.fn_list if g.kind != "Closure" and g.hir}
        # (the sum may be held in a local first: `let shifted = key.wrapping_add(pos); shifted ^ size`)
        sums_ = {l["pat"]["name"]: l["init"] for l in hirq.find(f.hir["body"], "let") if l["pat"].get("k") == "bind" and l.get("init") is not None and hirq.strip(l["init"]).get("k") == "mcall" and hirq.strip(l["init"])["m"] == "wrapping_add"}
        keyx = [dict(hirq.subst(x, sums_) if sums_ else x, ln=ln_ or x.get("ln")) for x, ln_ in hirq.inline_local_calls(f.hir["body"], local_fns, lambda n_: n_.get("k") == "bin" and n_["op"] == "^" and ("wrapping_add" in hirq.render(n_) or any(hirq.strip(o_).get("k") == "path" and (hirq.strip(o_).get("res") or {}).get("local") in sums_ for o_ in (n_["l"], n_["r"]))), depth=1, skip=re.compile(r"::crypto::|::compression::"))]
        if not keyx:
            ctx.bad(R_pos, "%s|no-formula" % path.split("::")[-1], f.where, "no (key + pos) ^ size expression", "FIX_KEY files cannot be decrypted here")
            continue
        for x in keyx:
            wa = next((c for c in hirq.walk(x) if c.get("k") == "mcall" and c["m"] == "wrapping_add"), None)
            pos = inline(wa["args"][0])
            while pos.get("k") == "cast" or (pos.get("k") == "block" and not pos.get("stmts")):
                pos = hirq.strip(pos["e"])
            key = "%s|key-position" % path.split("::")[-1]
            where = "%s:%d" % (f.file, x["ln"])
            if pos.get("k") == "bin" and pos["op"] == "-" and "archive_offset" in hirq.render(pos["r"]) and hirq.render(hirq.strip(pos["l"])) in seeks:
                ctx.ok(R_pos, {"fn": path, "position": hirq.render(pos)})
            elif pos.get("k") == "field" and "BlockEntry" in str(mpq.ty(hirq.strip(pos["e"]).get("t")) if hirq.strip(pos["e"]).get("t") is not None else ""):
                ctx.ok(R_pos, {"fn": path, "position": hirq.render(pos), "relative_field": True})
            else:
                ctx.bad(R_pos, key, where, "adjusted key adds `%s`; data is read at SeekFrom::Start(%s)" % (hirq.render(pos), ", ".join(sorted(seeks))[:80]),
                        "the format adds the block's offset from the start of the archive; with the absolute file offset every FIX_KEY file in an archive that does not start at offset 0 (embedded / user-data-prefixed) decrypts to garbage")

    # lookups: a deleted entry is skipped, only a never-used entry ends the search (decided over the three kinds of entry)
    R_del = ctx.rule("C02.lookup-stops-only-at-never-used", "in the lookup probe loops the not-found exit taken on an entry's state is true for a never-used entry and false for a deleted or occupied one", floor=2)
    from .c10 import _bval, _NoEval
    entry_state_table = make_entry_state_table(mpq)
    for path in ("tables::hash::HashTable::find_file", "modification::MutableArchive::find_file_entry"):
        f = fns.get(M + path)
        if f is None:
            ctx.bad(R_del, "%s|missing" % path, "-", "function not found", "anchor gone")
            continue
        ctx.saw_fn(f)
        n_dec = 0
        for lp in hirq.find(f.hir["body"], "loop"):
            for n in hirq.find(lp["body"], "if"):
                then_ret_none = any(x.get("k") == "ret" and re.search(r"None", hirq.render(x.get("e"))) for x in hirq.walk(n["then"]))
                if not then_ret_none:
                    continue
                if "block_index" not in hirq.render(entry_state_table.expand(n["c"])):
                    continue
                tab = entry_state_table(n["c"])
                if tab is None:
                    continue
                n_dec += 1
                key = "%s|not-found-exit" % path.split("::")[-1]
                if tab == {"occupied": False, "deleted": False, "never-used": True}:
                    ctx.ok(R_del, {"fn": path, "cond": hirq.render(n["c"])[:60], "table": tab})
                else:
                    ctx.bad(R_del, key, "%s:%d" % (f.file, n["ln"]), "`%s` ends the search for %s" % (hirq.render(n["c"])[:60], [k_ for k_, b_ in tab.items() if b_]),
                            "the format skips deleted entries (0xFFFFFFFE) and stops only at never-used ones (0xFFFFFFFF): a file that sits behind a deleted slot in an archive maintained by another implementation is reported missing")
        if n_dec == 0:
            ctx.bad(R_del, "%s|no-state-exit" % path.split("::")[-1], f.where, "no not-found exit on the entry's state recognised", "anchor shape changed")

    # the format does not fix the order of the tables in the file: a difference of two *different* tables' positions is only
    # meaningful under a comparison of the two (other writers put the block table before the hash table)
    R_ord = ctx.rule("C02.table-order-not-assumed", "every difference (`-` or saturating_sub) of two different header table positions sits under an `if` comparing those two positions", floor=1)
    TABLE_POS = re.compile(r"^(get_)?(hash_table_pos|block_table_pos|het_table_pos|bet_table_pos|hi_block_table_pos)$")

    def roots_of(body, e, depth=3):
        out = set()
        for x in hirq.walk(e):
            if x.get("k") in ("field",) and TABLE_POS.match(x.get("name") or ""):
                out.add(TABLE_POS.match(x["name"]).group(2))
            elif x.get("k") == "mcall" and TABLE_POS.match(x.get("m") or ""):
                out.add(TABLE_POS.match(x["m"]).group(2))
            elif x.get("k") == "path" and "local" in x["res"] and depth > 0:
                for v in hirq.local_values(body, x["res"]["local"]):
                    if v is not None:
                        out |= roots_of(body, v, depth - 1)
        return out

    def visit(body, n, guards, f):
        if isinstance(n, list):
            for y in n:
                visit(body, y, guards, f)
            return
        if not isinstance(n, dict):
            return
        k = n.get("k")
        if k == "if":
            visit(body, n["c"], guards, f)
            g = roots_of(body, n["c"]) if any(x.get("k") == "bin" and x["op"] in ("<", "<=", ">", ">=") for x in hirq.walk(n["c"])) else set()
            visit(body, n["then"], guards + [g], f)
            if n.get("else") is not None:
                visit(body, n["else"], guards + [g], f)
            return
        diff = None
        if k == "bin" and n["op"] == "-":
            diff = (n["l"], n["r"], "-")
        elif k == "mcall" and n["m"] in ("saturating_sub", "wrapping_sub", "checked_sub", "abs_diff") and len(n.get("args") or []) == 1:
            diff = (n["recv"], n["args"][0], n["m"])
        if diff is not None:
            ra, rb = roots_of(body, diff[0]), roots_of(body, diff[1])
            if len(ra) == 1 and len(rb) == 1 and ra != rb:
                pair = ra | rb
                inst = {"fn": f.path.split("::")[-1], "line": n.get("ln"), "difference": hirq.render(n)[:70]}
                if diff[2] in ("checked_sub", "abs_diff") or any(pair <= g for g in guards):
                    ctx.ok(R_ord, inst)
                else:
                    ctx.bad(R_ord, "%s|%s" % (f.path.split("::")[-1], "-".join(sorted(pair))), "%s:%d" % (f.file, n.get("ln") or 0),
                            "`%s` subtracts the position of one table from another's without a comparison of the two" % hirq.render(n)[:80],
                            "an archive whose tables are stored in the other order (legal, and what other writers produce) yields 0 or a wrapped value: the table is misjudged as compressed / truncated and the archive's files are not found")
        for v in n.values():
            if isinstance(v, (dict, list)):
                visit(body, v, guards, f)
    for f in mpq.fn_list:
        if not f.hir or f.kind == "Closure" or "::tests::" in f.path or "::debug::" in f.path or not re.search(r"::archive::|::header::|::tables::", f.path):
            continue
        visit(f.hir["body"], f.hir["body"], [], f)

    # method 0x02 is a zlib (RFC 1950) stream: any header with CM = 8, CINFO <= 7 and a valid FCHECK is legal, not only 0x78 xx.
    # A raw-deflate decoder may be a fallback after the zlib decoder failed, never a choice made from the first byte(s) unless the
    # choice is exact (decided by evaluating the guard over every legal two-byte header).
    R_zl = ctx.rule("C02.zlib-streams-decoded-as-zlib", "in zlib::decompress no path reaches a raw-deflate decoder without having tried the zlib decoder, unless its guard rejects every legal RFC 1950 header", floor=1)
    zf = fns.get(M + "compression::algorithms::zlib::decompress")
    if zf is None or not zf.mir:
        ctx.bad(R_zl, "zlib::decompress|missing", "-", "function not found", "anchor gone")
    else:
        ctx.saw_fn(zf)
        zl_new = [bb for bb, t in mirg.iter_calls(zf) if re.search(r"flate2::zlib::(read|bufread|write)::ZlibDecoder(::<.*>)?::new", mirg.callee(t) or "") or re.search(r"flate2::mem::Decompress::new$", mirg.callee(t) or "") and mirg.op_int(t["a"][0]) == 1]
        raw_new = [(bb, t) for bb, t in mirg.iter_calls(zf) if re.search(r"flate2::deflate::(read|bufread|write)::DeflateDecoder(::<.*>)?::new|miniz_oxide::inflate::decompress_to_vec(_with_limit)?$", mirg.callee(t) or "") or
                   (re.search(r"flate2::mem::Decompress::new$", mirg.callee(t) or "") and mirg.op_int(t["a"][0]) == 0)]
        if not zl_new:
            ctx.bad(R_zl, "zlib::decompress|no-zlib-decoder", zf.where, "no zlib decoder is constructed", "zlib-framed sectors cannot be read")
        else:
            zcfg = mirg.Cfg(zf)
            ok_, wit = zcfg.must_pass(set(zl_new), [bb for bb, _ in raw_new])
            if ok_:
                ctx.ok(R_zl, {"zlib_decoder_sites": len(zl_new), "raw_deflate_sites": len(raw_new), "raw_only_after_zlib": True})
            else:
                # exactness of the guard, over every legal header
                exact = None
                try:
                    guards = [n for n in hirq.find(zf.hir["body"], "if") if any("DeflateDecoder" in (c.get("fn") or "") or "decompress_to_vec" in (c.get("fn") or "") for c in hirq.calls(n))]
                    lets_ = {l["pat"]["name"]: l["init"] for l in hirq.find(zf.hir["body"], "let") if l["pat"].get("k") == "bind" and l.get("init") is not None}
                    bad_hdr = None
                    for g in guards:
                        in_then = any("DeflateDecoder" in (c.get("fn") or "") or "decompress_to_vec" in (c.get("fn") or "") for c in hirq.calls(g["then"]))
                        for cinfo in range(8):
                            b0 = (cinfo << 4) | 8
                            for b1 in range(256):
                                if ((b0 << 8) | b1) % 31:
                                    continue
                                leaf = lambda r_, b0=b0, b1=b1: b0 if re.search(r"\[0\]$", r_) else b1 if re.search(r"\[1\]$", r_) else 64 if r_.endswith(".len()") else None
                                env = {"__leaf__": leaf}
                                try:
                                    c = _bval(g["c"], env, lets_)
                                except _NoEval:
                                    # `.is_empty()` and friends
                                    raise
                                if c == in_then and bad_hdr is None:
                                    bad_hdr = (b0, b1)
                    exact = bad_hdr is None and bool(guards)
                except _NoEval:
                    exact = None
                if exact:
                    ctx.ok(R_zl, {"raw_deflate_guard": "rejects every legal RFC 1950 header"})
                else:
                    t_ = next(t for bb, t in raw_new if bb == wit)
                    ctx.bad(R_zl, "zlib::decompress|raw-deflate-chosen-by-header-byte", "%s:%d" % (zf.file, t_["ln"]),
                            "a raw-deflate decoder is reached without the zlib decoder having been tried" + ("" if exact is None else "; its guard sends the legal zlib header %02X %02X to it" % bad_hdr),
                            "zlib streams written with a window smaller than 32 KiB (first byte 0x68/0x58/0x48…, as deflateInit2 emits) are legal method-0x02 data and fail to decompress")

    # reading what another writer stored, writing what another reader decrypts: the raw-vs-compressed decision and the key / flag
    # consistency of the builder are clauses of this property as much as of C01 (rules shared)
    from .c01 import decision_bound_rule, key_from_final_flags_rule, cipher_block_extent_rule
    cipher_block_extent_rule(ctx, mpq, "C02")
    decision_bound_rule(ctx, mpq, "C02")
    key_from_final_flags_rule(ctx, mpq, "C02")
    from .c03 import never_expands_rule
    never_expands_rule(ctx, mpq, "C02")
    extent_guards_rule(ctx, mpq, "C02")
    no_reads_of_enciphered_buffers_rule(ctx, mpq, "C02")

    # names are hashed byte-wise (interoperability of non-ASCII names); the kernels themselves are decided under C04
    from .c04 import name_hash_iterates_bytes
    name_hash_iterates_bytes(ctx, mpq, "C02")

    # tail rule
    # (the byte-level wrappers are discovered: every non-test function that hands bytes to the word cipher after converting them itself —
    # it builds u32 words with from_le_bytes and calls encrypt_block / decrypt_block — wherever a refactoring has put it)
    wrappers_ = sorted(p_[len(M):] for p_, f_ in fns.items() if f_.hir and "::tests::" not in p_ and "::modification::" not in p_ and "::crypto::" not in p_
                       and any(re.search(r"::(encrypt_block|decrypt_block)$", c_.get("fn") or "") for c_ in hirq.calls(f_.hir["body"]))
                       and any(re.search(r"from_le_bytes$", c_.get("fn") or "") for c_ in hirq.calls(f_.hir["body"]))
                       and any(p2_.get("ty", "") for p2_ in [{}]) is not None
                       and re.search(r"(encrypt|decrypt)\w*_data$", p_))
    for path in wrappers_:
        f = fns.get(M + path)
        if f is None:
            ctx.bad(R_tail, "%s|missing" % path, "-", "wrapper not found", "anchor gone")
            continue
        ctx.saw_fn(f)
        calls = [c for c in hirq.calls(f.hir["body"]) if re.search(r"::(encrypt_block|decrypt_block|decrypt_dword|encrypt_dword)$", c.get("fn") or "")]
        tail = [c for c in calls if re.search(r"wrapping_add|\+", hirq.render(c["args"][1]))]
        if tail:
            ctx.bad(R_tail, "%s|tail-encrypted" % path.split("::")[-1], "%s:%d" % (f.file, tail[0]["ln"]), "the trailing len %% 4 bytes are run through the cipher with key `%s`" % hirq.render(tail[0]["args"][1])[:60],
                    "the format's block cipher processes whole 32-bit words only: the last 1–3 bytes of an encrypted block written by another implementation are corrupted on read, and vice versa")
        else:
            ctx.ok(R_tail, {"wrapper": path})
