"""C15 — WMO root files survive write→parse.

Writer↔parser agreement per chunk (E4): the element record each `WmoWriter::write_*` emits has the
same primitive widths, order and named fields as the record `WmoParser::parse_*` consumes; the
chunk size a writer declares equals element count × the computed width of what it writes per
element; no reader-used field is written as a constant placeholder; header counts are lengths.
"""
import os
import re

from .. import facts, hirq, wire
from ..rules import norm

META = {
    "level": "other",
    "technique": "wire-signature comparison of chunk element records (typed HIR) + declared-size vs computed-width rule + constant-placeholder rule",
    "claim": "Decides, for every root chunk that has both a writer and a parser function, agreement of element layout (width/order/named fields), that each declared chunk size equals count × bytes actually written per element, and that offsets/ids the parser uses are not written as literal placeholders. Group files (binrw-derived readers) and converters are not covered. Also: a list's chunk is guarded only by conditions on that list; string-table offsets count bytes; extremum accumulators start at their identity; the group header width agrees with the group parser (known finding). Wave 5: pre-allocation caps bound only the allocation; MOHD counts are list lengths, never cached header fields. Wave 6: the visible-block list ends exactly at the marker the writer emits (all 65536 values); names reach write_all verbatim; MOHD is emitted with the widths of root_parser::Mohd and its declared size. Wave 7: a fixed-size name field is filled with field length - 1 bytes; conversion masks clear the named flags (`&= !(..)`), never keep only them. Wave 8: the payload loop walks what the declared size was summed over; record loops of the parsers keep every record.",
    "note": "Trusted: primitive-name widths; the parser's per-element stride is whatever it reads plus explicit skips. Padding runs on the writer side may pair with a reader-side skip.",
    "assumptions": ["chunk framing is (id, size) + payload on both sides (ChunkHeader)"],
    "explanation": "WmoWriter::write_{materials,group_info,lights,doodad_sets,portals,portal_references,visible_block_lists,header,version,...} against WmoParser::parse_*; all ChunkHeader{size: n*K} literals in writer.rs.",
}

PAIRS = {
    "write_materials": "parse_materials", "write_group_info": "parse_group_info", "write_lights": "parse_lights",
    "write_doodad_sets": "parse_doodad_sets", "write_doodad_definitions": "parse_doodad_defs", "write_header": "parse_header",
    "write_version": "parse_version", "write_portal_references": "parse_portal_references", "write_portals": "parse_portals",
}


def payload(toks):
    """drop framing sub-records; return the list of element bodies (REP bodies) or the flat primitive run"""
    toks = [t for t in toks if not (t.k == "S" and re.search(r"Chunk(Header)?$", (t.sub or "")))]
    reps = [t for t in toks if t.k == "REP"]
    flatp = [t for t in toks if t.k in ("P", "B", "SKIP")]
    return reps, flatp, toks


def trim_tail(rt, wt):
    """reader-side trailing skip / writer-side trailing zero padding do not carry fields: compare the common prefix"""
    r = [t for t in rt]
    w = [t for t in wt]
    while r and r[-1].k == "SKIP" and r[-1].w is None:
        r.pop()
    n = min(len(r), len(w))
    # what remains on the writer side must be padding (unnamed bytes) and on the reader side nothing
    return r[:n], w[:n], r[n:], w[n:]


def width(toks):
    total = 0
    for t in toks:
        if t.k == "P":
            total += t.w
        elif t.k == "B" and t.w is not None:
            total += t.w
        elif t.k == "SKIP" and t.w is not None:
            total += t.w
        else:
            return None
    return total


def prealloc_cap_rule(ctx, crates, pid, floor):
    """`Vec::with_capacity(count.min(K))` bounds only the *pre-allocation* for a count taken from the file; the number of elements
    read stays `count`.  A local holding the capped value that is also used as a loop bound / comparison / length truncates every
    list longer than K on parse — silently.  Instances: every `.min(<constant>)` that reaches a capacity argument."""
    R = ctx.rule("%s.prealloc-cap-bounds-only-the-allocation" % pid, "a value `x.min(K)` that sizes a with_capacity / reserve is used for nothing else (in particular not as a loop bound)", floor=floor)
    for c in crates:
        for f in c.fn_list:
            if not f.hir or f.kind == "Closure" or "::tests::" in f.path or "::test" in f.path:
                continue
            body = f.hir["body"]
            # inline form: the capped value exists only inside the capacity argument
            for x in hirq.walk(body):
                if x.get("k") in ("call", "mcall") and re.search(r"with_capacity|reserve", (x.get("fn") or "") + "::" + (x.get("m") or "")):
                    for a in x.get("args") or []:
                        a2 = hirq.strip(a)
                        if (a2.get("k") == "mcall" and a2["m"] == "min") or (a2.get("k") == "call" and re.search(r"cmp::min$", a2.get("fn") or "")):
                            ctx.ok(R, {"fn": f.path.split("::")[-1], "line": x.get("ln"), "cap": hirq.render(a2)[:50], "form": "inline"}) if len(ctx.samples) < 250 else (ctx.rules[R].__setitem__("obligations", ctx.rules[R]["obligations"] + 1), ctx.rules[R].__setitem__("discharged", ctx.rules[R]["discharged"] + 1))
            caps = {}
            for l in hirq.find(body, "let"):
                if l["pat"].get("k") == "bind" and l.get("init") is not None:
                    i = hirq.strip(l["init"])
                    is_min_call = i.get("k") == "call" and re.search(r"cmp::min$", i.get("fn") or "") and len(i.get("args") or []) == 2
                    if (i.get("k") == "mcall" and i["m"] == "min" and i.get("args")) or is_min_call:
                        k_ = hirq.strip(i["args"][-1])
                        if k_.get("k") == "lit" or (k_.get("k") == "path" and "def" in k_["res"]):
                            caps[l["pat"]["name"]] = l
            for nm, l in caps.items():
                cap_use, other = [], []
                for x in hirq.walk(body):
                    if x is l or x.get("k") == "let" and x is l:
                        continue
                    if x.get("k") in ("call", "mcall") and re.search(r"with_capacity|reserve", (x.get("fn") or "") + "::" + (x.get("m") or "")):
                        if any(hirq.strip(a).get("k") == "path" and hirq.strip(a)["res"].get("local") == nm for a in x.get("args") or []):
                            cap_use.append(x)
                            continue
                    if x.get("k") in ("range", "for", "bin", "index") or (x.get("k") in ("call", "mcall") and not re.search(r"with_capacity|reserve|fmt|log", (x.get("fn") or "") + "::" + (x.get("m") or ""))):
                        direct = [y for key in ("l", "r", "lo", "hi", "iter", "i", "idx") for y in [x.get(key)] if isinstance(y, dict) and hirq.strip(y).get("k") == "path" and hirq.strip(y)["res"].get("local") == nm]
                        direct += [a for a in (x.get("args") or []) if hirq.strip(a).get("k") == "path" and hirq.strip(a)["res"].get("local") == nm]
                        if x.get("k") == "for":
                            direct += [y for y in hirq.walk(x["iter"]) if y.get("k") == "path" and y["res"].get("local") == nm]
                        if direct:
                            other.append(x)
                if not cap_use:
                    continue
                if other:
                    ctx.bad(R, "%s|%s" % (f.path.split("::")[-1], nm), "%s:%d" % (f.file, other[0].get("ln") or l.get("ln") or 0), "`%s = %s` sizes an allocation and is also used in `%s`" % (nm, hirq.render(l["init"])[:50], hirq.render(other[0])[:60]),
                            "lists longer than the cap are cut off at the cap when parsed: the elements beyond it are silently lost and the header count no longer matches the list")
                else:
                    ctx.ok(R, {"fn": f.path.split("::")[-1], "cap_local": nm, "form": "local used only as capacity"})


def run(ctx):
    prog = ctx.prog
    wmo = prog.crate("wow_wmo")
    R_elem = ctx.rule("C15.element-layout-agreement", "for each root chunk the writer's element record equals the parser's in widths, order and named fields (trailing padding/skip aside)", floor=6)
    R_size = ctx.rule("C15.declared-size-equals-written", "every ChunkHeader{size: n*K} in the writer declares exactly the bytes written per element", floor=5)
    R_place = ctx.rule("C15.no-placeholder-for-parsed-field", "a field the parser reads into the model (offsets, ids) is never written as a literal constant", floor=6)
    R_cnt = ctx.rule("C15.header-counts-are-lengths", "every count in MOHD is the len() of a list", floor=5)

    prealloc_cap_rule(ctx, [wmo], "C15", floor=5)

    # fixed-size name fields (MODS set names: 20 bytes, NUL padded): the writer copies as many bytes as leave room for the terminator —
    # field length - 1 — not fewer (a name of exactly that length would come back shorter) and not more (no terminator left)
    R_fix = ctx.rule("C15.fixed-name-field-holds-field-length-minus-one", "for every `[0u8; N]` buffer a WmoWriter function fills from a name and writes out, the copy bound (loop guard `i < K` or `.min(K)` of the copied length) evaluates to N - 1", floor=1)
    from .c10 import _ival as _iv15, _NoEval as _NEv15
    for f in wmo.fn_list:
        if not f.hir or f.kind == "Closure" or "::writer::" not in f.path or "::tests::" in f.path:
            continue
        for l in hirq.find(f.hir["body"], "let"):
            if l["pat"].get("k") != "bind" or l.get("init") is None or hirq.strip(l["init"]).get("k") != "repeat":
                continue
            m_ = re.search(r"\[u8; (\d+)\]", wmo.ty(hirq.strip(l["init"]).get("t")) or "")
            if not m_:
                continue
            N, buf = int(m_.group(1)), l["pat"]["name"]
            written = any(c_.get("k") == "mcall" and c_["m"] == "write_all" and c_.get("args") and re.search(r"\b%s\b" % re.escape(buf), hirq.render(c_["args"][0])) for c_ in hirq.walk(f.hir["body"]))
            named = re.search(r"name", buf) or any(re.search(r"\.name\b|name", hirq.render(a_["r"])) for a_ in hirq.walk(f.hir["body"]) if a_.get("k") == "assign" and re.search(r"^%s\[" % re.escape(buf), hirq.render(a_["l"])))
            if not written or not named or N < 4:
                continue
            ctx.saw_fn(f)
            lets = {x["pat"]["name"]: x["init"] for x in hirq.find(f.hir["body"], "let") if x["pat"].get("k") == "bind" and x.get("init") is not None}
            leaf = lambda r_, buf=buf, N=N: N if re.fullmatch(r"\(?%s\)?\.len\(\)" % re.escape(buf), r_) else None
            bounds = []
            # (a) element-wise copy under `if i < K`
            for n_ in hirq.find(f.hir["body"], "if"):
                c_ = hirq.strip(n_["c"])
                if c_.get("k") == "bin" and c_["op"] in ("<", "<=") and any(a_.get("k") == "assign" and re.search(r"^%s\[" % re.escape(buf), hirq.render(a_["l"])) for a_ in hirq.walk(n_["then"])):
                    try:
                        k_ = _iv15(c_["r"], {"__leaf__": leaf}, lets)
                        bounds.append((k_ if c_["op"] == "<" else k_ + 1, hirq.render(c_)[:40], n_.get("ln")))
                    except _NEv15:
                        bounds.append((None, hirq.render(c_)[:40], n_.get("ln")))
            # (b) slice copy `buf[..len].copy_from_slice(..)` with len = x.min(K)
            for c_ in hirq.walk(f.hir["body"]):
                if c_.get("k") == "mcall" and c_["m"] == "copy_from_slice" and re.search(r"\b%s\b" % re.escape(buf), hirq.render(c_["recv"])):
                    for x in hirq.walk(c_["recv"]):
                        if x.get("k") == "path" and (x.get("res") or {}).get("local") in lets:
                            for y in hirq.walk(lets[x["res"]["local"]]):
                                if y.get("k") == "mcall" and y["m"] == "min" and y.get("args"):
                                    try:
                                        bounds.append((_iv15(y["args"][0], {"__leaf__": leaf}, lets), hirq.render(y)[:50], c_.get("ln")))
                                    except _NEv15:
                                        bounds.append((None, hirq.render(y)[:50], c_.get("ln")))
            if not bounds:
                ctx.bad(R_fix, "%s|%s|copy-bound" % (f.path.split("::")[-1], buf), f.where, "no copy bound recognised for the %d-byte field `%s`" % (N, buf), "shape changed")
            for k_, what, ln in bounds:
                if k_ == N - 1:
                    ctx.ok(R_fix, {"fn": f.path.split("::")[-1], "field": "%s[%d]" % (buf, N), "copies_at_most": k_})
                else:
                    ctx.bad(R_fix, "%s|%s|copies-%s" % (f.path.split("::")[-1], buf, k_), "%s:%d" % (f.file, ln or 0), "`%s` lets %s bytes of the name into the %d-byte field; the field holds %d and a terminator" % (what, k_, N, N - 1),
                            "a name of exactly %d bytes comes back %s after write -> parse" % (N - 1, "one byte shorter" if (k_ or 0) < N - 1 else "without its terminator (run together with what follows)"))

    # version conversions remove flags by clearing the named ones (`flags &= !(A | B)`): an un-negated inline union keeps *only* the named
    # flags and drops every flag both versions share
    R_mask = ctx.rule("C15.conversion-masks-clear-the-named-flags-only", "in converter.rs every `<flags> &= E` has E = !(..) (or a named keep-mask: a constant / function), never an inline un-negated union of flag constants", floor=4)
    for f in wmo.fn_list:
        if not f.hir or f.kind == "Closure" or "::converter::" not in f.path or "::tests::" in f.path:
            continue
        for a_ in hirq.walk(f.hir["body"]):
            if a_.get("k") != "assignop" or a_.get("op") not in ("&=", "BitAnd", "&") or "flags" not in hirq.render(a_["l"]):
                continue
            ctx.saw_fn(f)
            vals = [hirq.strip(a_["r"])] + [hirq.strip(v) for v in hirq.value_leaves(f.hir["body"], a_["r"]) if v is not None]
            def inline_union(e):
                e = hirq.strip(e)
                return (e.get("k") == "bin" and e["op"] == "|") or (e.get("k") == "path" and str((e.get("res") or {}).get("dk", "")).startswith("AssocConst") and len(vals) > 1)
            badv = next((v for v in vals if v.get("k") == "bin" and v["op"] == "|"), None)
            neg = any(v.get("k") == "un" and v.get("op") == "Not" for v in vals) or any(v.get("k") == "mcall" and v["m"] in ("not", "complement") for v in vals)
            inst = {"fn": f.path.split("::")[-1], "mask": hirq.render(a_["r"])[:60]}
            if badv is None:
                ctx.ok(R_mask, inst)
            else:
                ctx.bad(R_mask, "%s|keeps-only|%s" % (f.path.split("::")[-1], re.sub(r"\s+", "", hirq.render(badv))[:50]), "%s:%d" % (f.file, a_.get("ln") or 0), "`%s &= %s` keeps only the flags it names" % (hirq.render(a_["l"]), hirq.render(badv)[:60]),
                        "every flag the two versions share (unlit, two-sided, clamp, ...) is cleared by the conversion and stays lost through write and parse")

    # visible-block lists are u16 values ended by the marker the writer emits: the parser stops at exactly that value (evaluated over
    # all 65536 values, with the width and signedness of the local it compares)
    R_term = ctx.rule("C15.list-terminator-is-the-written-marker", "parse_visible_block_lists ends a list at a value v iff v is the marker write_visible_block_lists emits (all 65536 u16 values evaluated at the parser's operand type)", floor=1)
    from .c10 import _bval as _bv15, _NoEval as _NE15
    pv = next((f for f in wmo.fn_list if f.hir and f.kind != "Closure" and norm(f.path).endswith("parser::WmoParser::parse_visible_block_lists")), None)
    wv = next((f for f in wmo.fn_list if f.hir and f.kind != "Closure" and re.search(r"writer::WmoWriter::write_visible_block_lists$", norm(f.path))), None)
    if pv is None or wv is None:
        ctx.bad(R_term, "visible_block_lists|missing", "-", "parser or writer not found", "anchor gone")
    else:
        ctx.saw_fn(pv)
        ctx.saw_fn(wv)
        # the marker: the integer literal written once per list by the writer (outside the per-element loop over the list)
        marks = sorted({hirq.lit_int(hirq.strip(c_["args"][0])) for c_ in hirq.walk(wv.hir["body"]) if c_.get("k") == "mcall" and re.match(r"write_u16", c_["m"]) and c_.get("args") and hirq.lit_int(hirq.strip(c_["args"][0])) is not None})
        brk = next((n_ for lp in hirq.find(pv.hir["body"], "loop") for n_ in hirq.find(lp["body"], "if") if any(x.get("k") == "break" for x in hirq.walk(n_["then"])) and not re.search(r"\.len\(\)", hirq.render(n_["c"]))), None)
        if len(marks) != 1 or brk is None:
            ctx.bad(R_term, "visible_block_lists|shape", pv.where, "marker literal (%s) or the parser's `if .. { break }` not recognised" % marks, "shape changed")
        else:
            free = sorted({y["res"]["local"] for y in hirq.walk(brk["c"]) if y.get("k") == "path" and "local" in y["res"]})
            wconsts = wmo.consts()
            tyname = None
            for y in hirq.walk(brk["c"]):
                if y.get("k") == "path" and y["res"].get("local") in free:
                    tyname = wmo.ty(y.get("t")) or tyname
            try:
                stop = set()
                for v in range(65536):
                    val = v - 65536 if (tyname or "").startswith("i") and v >= 32768 else v
                    if _bv15(brk["c"], {free[0]: val, "__consts__": wconsts}, {}):
                        stop.add(v)
                if stop == {marks[0]}:
                    ctx.ok(R_term, {"marker": "0x%04X" % marks[0], "operand_type": tyname, "stops_at": ["0x%04X" % x for x in sorted(stop)]})
                else:
                    extra = sorted(stop - {marks[0]})
                    ctx.bad(R_term, "parse_visible_block_lists|terminator", "%s:%d" % (pv.file, brk.get("ln") or 0), "`%s` (operand type %s) ends a list at %d values (e.g. 0x%04X); the writer's marker is 0x%04X only" % (hirq.render(brk["c"])[:40], tyname, len(stop), extra[0] if extra else marks[0], marks[0]),
                            "a list holding such a value is cut there when the file is parsed back: the entries behind it are lost and the second write differs")
            except _NE15 as e:
                ctx.bad(R_term, "parse_visible_block_lists|not-evaluable", "%s:%d" % (pv.file, brk.get("ln") or 0), "terminator test not evaluable: %s" % e, "shape changed")

    # names (textures, groups, doodads, skybox) are written byte for byte as the model holds them: the parser returns what is in the
    # file, so any rewriting on the way out (separator / case normalisation, trimming) is a difference after write -> parse
    R_verb = ctx.rule("C15.names-written-verbatim", "no byte string handed to write_all in WmoWriter derives from a rewriting string call (replace / to_*case / trim* / strip_* / normalize*)", floor=4)
    REWRITE = re.compile(r"::(replace|replacen|replace_range|to_lowercase|to_uppercase|to_ascii_lowercase|to_ascii_uppercase|make_ascii_lowercase|make_ascii_uppercase|trim|trim_start|trim_end|trim_matches|trim_start_matches|trim_end_matches|strip_prefix|strip_suffix|normalize\w*|escape_\w+)$")
    from .. import mirg as _mg15
    from ..rules import ncallee as _nc15
    for f in wmo.fn_list:
        if "writer::WmoWriter::" not in f.path or not f.mir or not f.mir.get("blocks") or "::tests::" in f.path:
            continue
        du15 = None
        for bb, t in _mg15.iter_calls(f):
            if not re.search(r"io::Write::write_all$|io::Write>::write_all$", _mg15.callee(t) or "") and not re.search(r"io::Write::write_all$", _mg15.callee_decl(t) or ""):
                continue
            if len(t["a"]) < 2 or _mg15.op_local(t["a"][1]) is None:
                continue
            du15 = du15 or _mg15.DefUse(f)
            _l, calls_, _i = du15.slice_back(_mg15.op_local(t["a"][1]), depth=8)
            rw = [(_nc15(c_) or "") for c_ in calls_ if REWRITE.search(_nc15(c_) or "")]
            if rw:
                ctx.saw_fn(f)
                ctx.bad(R_verb, "%s|rewritten-%s" % (norm(f.path).split("::")[-1], rw[0].split("::")[-1]), "%s:%d" % (f.file, t["ln"]), "the bytes written here pass through `%s`" % rw[0].split("::", 1)[-1][:50],
                        "a name containing what the call rewrites comes back different after write -> parse (the second write is identical, so only a comparison with the original model shows it)")
            else:
                ctx.ok(R_verb, {"fn": norm(f.path).split("::")[-1], "line": t["ln"]})

    # the root header has two readers — the legacy WmoParser::parse_header and the binrw struct `Mohd` behind parse_wmo.  The writer
    # must lay MOHD out as the struct declares it, field width by field width (the legacy pair agreeing with itself is not enough)
    R_mohd = ctx.rule("C15.mohd-written-as-the-header-struct", "WmoWriter::write_header emits the primitive widths of root_parser::Mohd's fields in order, and declares their sum as the chunk size", floor=1)
    mohd = next((a_ for a_ in wmo.items["adts"] if a_["path"].endswith("root_parser::Mohd")), None)
    whf = next((f for f in wmo.fn_list if f.hir and f.kind != "Closure" and norm(f.path).endswith("writer::WmoWriter::write_header")), None)
    if mohd is None or whf is None:
        ctx.bad(R_mohd, "MOHD|missing", "-", "Mohd struct or write_header not found", "anchor gone")
    else:
        ctx.saw_fn(whf)

        def widths_of(ty):
            m_ = re.fullmatch(r"\[(\w+); (\d+)\]", ty)
            if m_:
                return [int(re.sub(r"\D", "", m_.group(1))) // 8] * int(m_.group(2))
            return [int(re.sub(r"\D", "", ty)) // 8] if re.fullmatch(r"[uif]\d+", ty) else [None]
        want = [w_ for fl_ in mohd["fields"] for w_ in widths_of(fl_["ty"])]
        wt_ = wire.specialise(wire.extract(wmo, whf, "w")[0], {})
        toks = [t_ for t_ in wt_ if t_.k == "P"]
        got = [t_.w for t_ in toks]
        # [u8;4] colour is written as one u32: merge runs of 1-byte fields of the struct into the widths the writer uses
        def merge(ws, pattern):
            out_, i_ = [], 0
            for p_ in pattern:
                acc = 0
                while i_ < len(ws) and acc < p_:
                    acc += ws[i_]
                    i_ += 1
                out_.append(acc)
            return out_ + ws[i_:]
        wantm = merge(want, got) if None not in want else want
        declared = next((hirq.lit_int(hirq.strip(fe)) for x in hirq.walk(whf.hir["body"]) if x.get("k") == "struct" and (x["res"].get("def") or "").endswith("ChunkHeader") for fn_, fe in x["fields"] if fn_ == "size"), None)
        if None in want:
            ctx.bad(R_mohd, "MOHD|struct-not-primitive", whf.where, "Mohd has a field of non-primitive type", "shape changed")
        elif got != wantm or declared != sum(want):
            ctx.bad(R_mohd, "write_header|layout", whf.where, "writer emits widths %s (declared size %s); root_parser::Mohd is %s = %d bytes" % (got, declared, want, sum(want)),
                    "parse_wmo reads the header through the struct: fields after the first difference come back wrong (flags read from the wmoID slot / from the next chunk's header)")
        else:
            ctx.ok(R_mohd, {"bytes": sum(want), "fields": len(mohd["fields"])})

    W = {norm(f.path).split("::")[-1]: f for f in wmo.fn_list if "writer::WmoWriter::write_" in f.path and f.kind != "Closure" and f.hir}

    # group files: the fixed MOGP header the writer emits is as long as the one the group parser consumes
    R_mogp = ctx.rule("C15.group-header-width-agrees", "WmoWriter::write_group emits as many fixed header bytes between the MOGP chunk header and the first sub-chunk as parse_group_file reads (MogpHeader)", floor=1)
    wg = W.get("write_group")
    mogp = next((a for a in wmo.items["adts"] if a["path"].endswith("group_parser::MogpHeader")), None)
    if wg is None or mogp is None:
        ctx.bad(R_mogp, "write_group|missing", "-", "write_group or MogpHeader not found", "anchor gone")
    else:
        ctx.saw_fn(wg)
        toks, _ = wire.extract(wmo, wg, "w")
        flat_ = [t for t in wire.specialise(toks, {})]
        w_bytes = 0
        started = False
        for t in flat_:
            if t.k == "S" and not started:
                # version chunk / MOGP ChunkHeader come first
                if "ChunkHeader" in (t.sub or t.kind or ""):
                    started = True
                continue
            if not started:
                continue
            if t.k in ("P", "B") and t.w:
                w_bytes += t.w
            else:
                break
        # MogpHeader: field widths from the struct (Vec fields carry a #[br(count = n)] read from the source)
        src = open(os.path.join(facts.REPO, mogp["file"])).read().split("\n") if mogp.get("file") else []
        r_bytes = 0
        cnt = None
        ok_struct = True
        for fl in mogp["fields"]:
            wdt = wire.ty_width(fl["ty"])
            if wdt is None:
                m_ = re.search(r"Vec<(\w+)>", fl["ty"])
                ln_ = next((i for i, l_ in enumerate(src) if i >= (mogp.get("ln") or 1) - 1 and re.search(r"\b%s\s*:" % re.escape(fl["name"]), l_)), None)
                c_ = None
                if ln_ is not None:
                    for back in range(1, 4):
                        mm = re.search(r"count\s*=\s*(\d+)", src[ln_ - back]) if ln_ - back >= 0 else None
                        if mm:
                            c_ = int(mm.group(1))
                            break
                ew = wire.ty_width(m_.group(1)) if m_ else None
                if c_ is None or ew is None:
                    ok_struct = False
                    break
                wdt = c_ * ew
            r_bytes += wdt
        if not ok_struct or not w_bytes:
            ctx.note_unarmed(R_mogp, "write_group", "header widths not computable (writer %s, reader %s)" % (w_bytes, r_bytes if ok_struct else "?"))
        elif w_bytes == r_bytes:
            ctx.ok(R_mogp, {"writer_bytes": w_bytes, "reader_bytes": r_bytes})
        else:
            ctx.bad(R_mogp, "write_group|MOGP-header-width", wg.where, "write_group emits a %d-byte group header, parse_group_file reads %d bytes before the sub-chunks" % (w_bytes, r_bytes),
                    "every sub-chunk of a written group is looked for %d bytes too far in: the group parses back with no vertices / indices / batches" % (r_bytes - w_bytes))

    # string tables are addressed by *byte* offset: every running offset / size over names advances by the byte length
    R_bytes = ctx.rule("C15.string-table-offsets-count-bytes", "in the writer every accumulation over a name (`x += name.<len> + 1`) uses the byte length `.len()`, the unit in which the names are emitted", floor=4)
    for f in wmo.fn_list:
        if f.kind == "Closure" or not f.hir or "writer::WmoWriter::" not in f.path:
            continue
        for x in hirq.walk(f.hir["body"]):
            if x.get("k") != "assignop" or not x["op"].startswith("+"):
                continue
            r_ = hirq.render(x["r"])
            # (a length computed by a crate-local helper — `Self::terminated_len(name)` — is read through the helper, with the
            # helper's parameter replaced by the argument)
            for c0 in hirq.calls(x["r"]):
                cal = wmo.fns.get(c0.get("fn") or "")
                if cal is not None and cal.hir and cal.hir["body"] is not f.hir["body"]:
                    names_ = [b for p_ in cal.hir["params"] for b in hirq.pat_binds(p_)]
                    args_ = list(c0.get("args") or [])
                    if c0.get("k") == "mcall":
                        args_ = [c0["recv"]] + args_
                    if len(names_) == len(args_):
                        r_ += " " + hirq.render(hirq.subst(cal.hir["body"], dict(zip(names_, args_))))
            if not re.search(r"name|filename|path|string|texture", r_) or not re.search(r"len\(\)|count\(\)|chars\(\)|width", r_):
                continue
            ctx.saw_fn(f)
            if re.search(r"chars\(\)|char_indices\(\)|graphemes|encode_utf16", r_):
                ctx.bad(R_bytes, "%s|char-count" % norm(f.path).split("::")[-1], "%s:%d" % (f.file, x["ln"]), "`%s` advances by a character count" % hirq.render(x)[:70],
                        "the names are written as UTF-8 bytes: after the first non-ASCII name every later offset points too early and the names parse back as fragments of their neighbours")
            else:
                ctx.ok(R_bytes, {"fn": norm(f.path), "advance": hirq.render(x)[:70]})

    # extremum accumulators start at the identity of their fold (running max at the lowest value, running min at the highest)
    R_ext = ctx.rule("C15.extremum-accumulators-start-at-identity", "a local folded with `.max(..)` starts at f32::MIN / NEG_INFINITY, one folded with `.min(..)` at f32::MAX / INFINITY (or at an element)", floor=6)
    for f in wmo.fn_list:
        if f.kind == "Closure" or not f.hir or "::tests::" in f.path:
            continue
        lets = {l["pat"]["name"]: l for l in hirq.find(f.hir["body"], "let") if l["pat"].get("k") == "bind" and l.get("init") is not None}
        for a in hirq.find(f.hir["body"], "assign"):
            l = hirq.strip(a["l"])
            r_ = hirq.strip(a["r"])
            if l.get("k") != "path" or "local" not in l["res"] or r_.get("k") != "mcall" or r_["m"] not in ("max", "min"):
                continue
            nm = l["res"]["local"]
            if hirq.render(hirq.strip(r_["recv"])) != nm or nm not in lets:
                continue
            ty = wmo.ty(lets[nm]["init"].get("t")) or ""
            if ty not in ("f32", "f64"):
                continue
            init = hirq.render(lets[nm]["init"])
            ctx.saw_fn(f)
            want = r"(MIN|NEG_INFINITY|-.*MAX|-.*INFINITY)$" if r_["m"] == "max" else r"(MAX|INFINITY)$"
            elem = not re.search(r"MIN|MAX|INFINITY|EPSILON|^-?\d", init)
            if (re.search(want, init) and not re.search(r"MIN_POSITIVE|EPSILON", init)) or elem:
                ctx.ok(R_ext, {"fn": norm(f.path), "acc": nm, "fold": r_["m"], "init": init})
            else:
                ctx.bad(R_ext, "%s|%s|init" % (norm(f.path).split("::")[-1], nm), "%s:%d" % (f.file, lets[nm]["ln"]), "`%s` is folded with .%s() but starts at `%s`" % (nm, r_["m"], init),
                        "values on the wrong side of the start value can never win: e.g. a bounding box whose groups all lie below the origin gets a maximum of ~0 instead of its real (negative) extent, and the header written from it differs from the source")

    # a list's chunk is written unconditionally, or under a condition on that same list / the target version — never
    # under a condition on a *different* list (header counts are lengths of every list, so a skipped chunk breaks them)
    R_guard = ctx.rule("C15.chunk-guard-mentions-only-own-list", "in write_root / write_group each `self.write_X(.., &obj.F, ..)` is guarded at most by conditions on obj.F itself or on the version", floor=10)
    from .c07 import enclosing_if_conditions
    for top in ("write_root", "write_group"):
        tf = W.get(top)
        if tf is None:
            ctx.bad(R_guard, "%s|missing" % top, "-", "function not found", "anchor gone")
            continue
        ctx.saw_fn(tf)
        params = {b_ for p_ in tf.hir["params"] for b_ in hirq.pat_binds(p_)}

        def obj_fields(n):
            out = set()
            for x in hirq.walk(n):
                if x.get("k") == "field":
                    base = hirq.strip(x["e"])
                    if base.get("k") == "path" and base["res"].get("local") in params:
                        out.add(x["name"])
            return out
        for c in hirq.walk(tf.hir["body"]):
            if c.get("k") != "mcall" or not c["m"].startswith("write_") or hirq.render(hirq.strip(c["recv"])) != "self":
                continue
            own = set()
            for a in c["args"]:
                own |= obj_fields(a)
            if not own:
                continue
            foreign = []
            for side, cd in enclosing_if_conditions(tf.hir["body"], c):
                extra = obj_fields(cd) - own
                if extra:
                    foreign.append((hirq.render(cd)[:70], sorted(extra)))
            if foreign:
                ctx.bad(R_guard, "%s|%s|guard" % (top, c["m"]), "%s:%d" % (tf.file, c["ln"]), "%s(%s) is only called when `%s` — a condition on %s" % (c["m"], ", ".join(sorted(own)), foreign[0][0], foreign[0][1]),
                        "when that other list is empty this list's chunk is not written although the header still counts its entries: the parsed root has fewer entries than were written and a second write differs")
            else:
                ctx.ok(R_guard, {"fn": top, "call": c["m"], "list": sorted(own)})
    R = {norm(f.path).split("::")[-1]: f for f in wmo.fn_list if "parser::WmoParser::parse_" in f.path and f.kind != "Closure" and f.hir}

    for wn, rn in sorted(PAIRS.items()):
        wf, rf = W.get(wn), R.get(rn)
        if wf is None or rf is None:
            ctx.note_unarmed(R_elem, wn, "writer or parser function not found (%s / %s)" % (wn, rn))
            continue
        ctx.saw_fn(wf)
        ctx.saw_fn(rf)
        rt, _ = wire.extract(wmo, rf, "r")
        wt, _ = wire.extract(wmo, wf, "w")
        rt, wt = wire.specialise(rt, {}), wire.specialise(wt, {})
        rreps, rflat, _ = payload(rt)
        wreps, wflat, _ = payload(wt)
        if rreps and wreps:
            # pair element records in order; a writer may emit an extra leading chunk (e.g. MOPV before MOPT)
            if len(wreps) > len(rreps):
                wreps = wreps[len(wreps) - len(rreps):]
            for i, (a, b) in enumerate(zip(rreps, wreps)):
                ra, wa, rrest, wrest = trim_tail(wire.specialise(a.arms[0], {}), wire.specialise(b.arms[0], {}))
                diffs = wire.compare(ra, wa, fields=None)
                named = [(x.name, y.name) for x, y in zip(ra, wa) if x.k == "P" and y.k == "P" and x.name and y.name]
                swapped = [(x, y) for x, y in named if wire.norm_name(x) != wire.norm_name(y) and any(wire.norm_name(x) == wire.norm_name(y2) for _, y2 in named) and any(wire.norm_name(y) == wire.norm_name(x2) for x2, _ in named)]
                key = "%s|element#%d" % (wn, i)
                if diffs:
                    ctx.bad(R_elem, key, "%s:%d / %s:%d" % (rf.file, rf.lo, wf.file, wf.lo), "%s: %s" % diffs[0], "the parser reads different bytes than the writer produced for this chunk")
                elif swapped:
                    ctx.bad(R_elem, key + "|order", "%s:%d" % (wf.file, wf.lo), "fields written in a different order than parsed: %s" % swapped[:2], "equal-width fields swap on round-trip")
                elif rrest:
                    ctx.bad(R_elem, key + "|short-writer", "%s:%d" % (wf.file, wf.lo), "parser reads %s after what the writer emits" % wire.flat(rrest)[:80], "element is shorter on disk than the parser expects")
                elif any(t.k != "P" or t.name for t in wrest if not (t.k == "P" and not t.name)):
                    ctx.bad(R_elem, key + "|extra-fields", "%s:%d" % (wf.file, wf.lo), "writer emits named data `%s` the parser does not read" % wire.flat(wrest)[:80], "content is lost on round-trip")
                else:
                    ctx.ok(R_elem, {"chunk": wn, "element": i, "layout": wire.strip_names(wire.flat(wa))[:120], "writer_padding": width(wrest)})
        elif rflat and wflat:
            rr_ = list(rflat)
            while rr_ and rr_[-1].k == "SKIP" and rr_[-1].w is None:
                rr_.pop()
            wa = wflat
            diffs = [d for d in wire.compare(rr_, wflat, fields=None) if "[tail]" not in d[0] or "reader continues with ``" not in d[1]]
            if diffs:
                ctx.bad(R_elem, "%s|flat" % wn, "%s:%d" % (wf.file, wf.lo), "%s: %s" % diffs[0], "header bytes are read differently than written")
            else:
                ctx.ok(R_elem, {"chunk": wn, "flat_layout": wire.strip_names(wire.flat(wa))[:120]})
        else:
            ctx.note_unarmed(R_elem, wn, "no comparable element record (string table / offset list)")

    # declared size
    for wn, wf in sorted(W.items()):
        body = wf.hir["body"]
        lits = [s for s in hirq.find(body, "struct") if s["res"].get("def", "").endswith("chunk::ChunkHeader")]
        if not lits:
            continue
        wt = wire.specialise(wire.extract(wmo, wf, "w")[0], {})
        reps, _, _ = payload(wt)
        lets = {l["pat"]["name"]: l.get("init") for l in hirq.find(body, "let") if l["pat"].get("k") == "bind"}
        for i, lit in enumerate(lits):
            size = hirq.strip(dict((k, v) for k, v in lit["fields"]).get("size"))
            # (n * K) as u32
            e = size
            while e is not None and e.get("k") == "cast":
                e = hirq.strip(e["e"])
            K = None
            if e is not None and e.get("k") == "bin" and e["op"] == "*":
                for side in (e["l"], e["r"]):
                    sd = hirq.strip(side)
                    v = hirq.lit_int(sd)
                    if v is None and sd.get("k") == "path" and "local" in sd["res"] and lets.get(sd["res"]["local"]) is not None:
                        v = hirq.lit_int(hirq.strip(lets[sd["res"]["local"]]))
                        if v is None:
                            from .c13 import eval_version_expr
                            v = "versioned"
                    if v is not None:
                        K = v
            if K is None:
                continue
            rep = reps[i] if i < len(reps) else None
            wd = width(wire.specialise(rep.arms[0], {})) if rep is not None else None
            key = "%s|size#%d" % (wn, i)
            if K == "versioned":
                ctx.bad(R_size, key, "%s:%d" % (wf.file, lit["ln"]), "declared element size depends on the version while the bytes written per element do not (%s)" % wd,
                        "for some version the declared chunk size differs from the bytes written: every later chunk is mis-framed on re-parse")
            elif wd is None:
                ctx.note_unarmed(R_size, key, "per-element width not computable")
            elif wd != K:
                ctx.bad(R_size, key, "%s:%d" % (wf.file, lit["ln"]), "chunk declares %d bytes per element but %d are written" % (K, wd),
                        "the chunk size on disk disagrees with its payload: the parser loses or mis-reads the following chunks")
            else:
                ctx.ok(R_size, {"chunk": wn, "declared": K, "written": wd})

    # placeholders: writer primitives with a literal argument aligned (by wire position) with a parser field stored in the model
    for wn, rn in sorted(PAIRS.items()):
        wf, rf = W.get(wn), R.get(rn)
        if wf is None or rf is None:
            continue
        rt = wire.specialise(wire.extract(wmo, rf, "r")[0], {})
        wt = wire.specialise(wire.extract(wmo, wf, "w")[0], {})
        rreps, _, _ = payload(rt)
        wreps, _, _ = payload(wt)
        if not rreps or not wreps:
            continue
        if len(wreps) > len(rreps):
            wreps = wreps[len(wreps) - len(rreps):]
        for a, b in zip(rreps, wreps):
            ra, wa = wire.specialise(a.arms[0], {}), wire.specialise(b.arms[0], {})
            for x, y in zip(ra, wa):
                if y.k != "P" or y.lit is None:
                    if y.k == "P":
                        ctx.ok(R_place, {"chunk": wn, "field": x.name or y.name})
                    continue
                rname = x.name
                if x.k not in ("P", "B") or not rname or rname.startswith("_") or re.search(r"pad|unknown|unused|reserved", rname) or (x.w or 0) < 2:
                    ctx.ok(R_place, {"chunk": wn, "literal": y.lit, "reader": x.show(), "note": "padding / unused on the parser side"})
                    continue
                # the parsed value is "used" if it (or a local computed from it) ends up in the returned model
                derived = {rname}
                for _ in range(3):
                    for l in hirq.find(rf.hir["body"], "let"):
                        if l.get("init") is not None and any(re.search(r"\b%s\b" % re.escape(d_), hirq.render(l["init"])) for d_ in derived):
                            derived |= set(hirq.pat_binds(l["pat"]))
                used = any(z.get("k") == "struct" and any(fn_ in derived or any(re.search(r"\b%s\b" % re.escape(d_), hirq.render(fe)) for d_ in derived) for fn_, fe in z["fields"]) for z in hirq.walk(rf.hir["body"]))
                if used:
                    ctx.bad(R_place, "%s|placeholder|%s" % (wn, rname), "%s:%d" % (wf.file, y.ln), "writes the literal %s where the parser reads `%s` into the model" % (y.lit, rname),
                            "the field does not survive write→parse (every element gets the placeholder value)")
                else:
                    ctx.ok(R_place, {"chunk": wn, "literal": y.lit, "reader": rname, "note": "parsed value not stored"})

    # header counts
    wh = W.get("write_header")
    if wh is not None:
        for c in hirq.walk(wh.hir["body"]):
            if c.get("k") == "mcall" and c["m"] == "write_u32_le" and c["args"]:
                a = hirq.render(c["args"][0])
                if ".len()" in a:
                    ctx.ok(R_cnt, {"count": a[:60]})
                elif re.search(r"\bn_[a-z_]+\b", a):
                    ctx.bad(R_cnt, "write_header|cached-count|%s" % re.search(r"\bn_[a-z_]+\b", a).group(0), "%s:%d" % (wh.file, c["ln"]), "count written from the cached header field `%s` instead of the list's length" % a[:50],
                            "after an in-memory edit (a portal / light / group added or removed) the written count no longer matches the list that is written next to it: the parser reads too few or too many elements")
                elif re.search(r"^\(?\d+", a) and "n_" in a:
                    ctx.bad(R_cnt, "write_header|literal-count", "%s:%d" % (wh.file, c["ln"]), "count written as `%s`" % a, "header count does not equal the list length")


def run_extra(ctx):
    """rules armed after run(): they need nothing from run()'s locals"""
    wmo = ctx.prog.crate("wow_wmo")
    # (1) the payload loop walks what the declared size was computed over: after `<header>.write(writer)` the loop that emits the
    # chunk's elements iterates the collection whose len() / iter().sum() went into that header's `size`
    R_walk = ctx.rule("C15.payload-loop-walks-what-the-size-was-summed-over", "in WmoWriter: for every ChunkHeader whose size derives from <X>.len() / <X>.iter()..sum(), the first loop after header.write() iterates X", floor=8)

    def root_name(e):
        e = hirq.strip(e)
        while e.get("k") in ("mcall", "field", "index", "cast", "un", "try") and e.get("k") != "path":
            if e.get("k") == "field" and hirq.strip(e["e"]).get("k") == "path" and hirq.strip(e["e"])["res"].get("local") == "self":
                return "self." + e["name"]
            e = hirq.strip(e.get("recv") or e.get("e") or {})
        if e.get("k") == "field":
            return hirq.render(e)
        if e.get("k") == "path" and "local" in (e.get("res") or {}):
            return e["res"]["local"]
        return None
    for f in wmo.fn_list:
        if f.kind == "Closure" or not f.hir or "::tests::" in f.path or not f.file.endswith("wow-wmo/src/writer.rs"):
            continue
        body = f.hir["body"]
        lets = {l["pat"]["name"]: l["init"] for l in hirq.find(body, "let") if l["pat"].get("k") == "bind" and l.get("init") is not None}
        for blk in [b for b in hirq.walk(body) if b.get("k") == "block" and b.get("stmts")]:
            stmts = blk["stmts"] + ([blk["e"]] if blk.get("e") is not None else [])
            for i, st in enumerate(stmts):
                w = next((c for c in hirq.walk(st, into_closures=False) if c.get("k") == "mcall" and c["m"] == "write" and hirq.strip(c["recv"]).get("k") == "path"
                          and hirq.strip(c["recv"])["res"].get("local") in lets and hirq.strip(lets[hirq.strip(c["recv"])["res"]["local"]]).get("k") == "struct"
                          and re.search(r"ChunkHeader$", (hirq.strip(lets[hirq.strip(c["recv"])["res"]["local"]]).get("res") or {}).get("def") or "")), None) if st.get("k") not in ("for", "while", "loop", "if") else None
                if w is None:
                    continue
                hdr = hirq.strip(lets[hirq.strip(w["recv"])["res"]["local"]])
                size_e = dict((nm, e) for nm, e in hdr["fields"]).get("size")
                if size_e is None:
                    continue
                roots = set()
                for v in [size_e] + [x for x in hirq.value_leaves(body, size_e) if x is not None]:
                    for x in hirq.walk(v):
                        if x.get("k") == "mcall" and x["m"] in ("len", "iter", "into_iter"):
                            r0 = root_name(x["recv"])
                            if r0:
                                roots.add(r0)
                        if x.get("k") == "path" and (x.get("res") or {}).get("local") in lets:
                            for y in hirq.walk(lets[x["res"]["local"]]):
                                if y.get("k") == "mcall" and y["m"] in ("len", "iter", "into_iter"):
                                    r1 = root_name(y["recv"])
                                    if r1:
                                        roots.add(r1)
                # a size accumulated element by element (`for name in names { size += name.len() + 1 }`) is computed over `names`
                for lp0 in hirq.find(body, "for"):
                    if (lp0.get("ln") or 0) < (w.get("ln") or 0) and set(hirq.pat_binds(lp0["pat"])) & roots and root_name(lp0["iter"]):
                        roots.add(root_name(lp0["iter"]))
                # ... and a size accumulated from values that are themselves collected (`size += name.len() + 1; names.push(name)`)
                # is computed over that collection
                for c0 in hirq.walk(body):
                    if c0.get("k") == "mcall" and c0["m"] == "push" and (c0.get("ln") or 0) < (w.get("ln") or 0) and c0.get("args"):
                        a0 = hirq.strip(c0["args"][0])
                        if a0.get("k") == "path" and (a0.get("res") or {}).get("local") in roots and root_name(c0["recv"]):
                            roots.add(root_name(c0["recv"]))
                nxt = next((s2 for s2 in stmts[i + 1:] if s2.get("k") in ("for",)), None)
                if not roots or nxt is None:
                    continue
                lr = root_name(nxt["iter"])
                ctx.saw_fn(f)
                inst = {"fn": norm(f.path).split("::")[-1], "header": hirq.strip(w["recv"])["res"]["local"], "size_from": sorted(roots), "loop_over": lr}
                if lr is None or lr in roots:
                    ctx.ok(R_walk, inst)
                else:
                    ctx.bad(R_walk, "%s|%s|loop-over-other-collection" % (inst["fn"], inst["header"]), "%s:%d" % (f.file, nxt.get("ln") or 0),
                            "the size of `%s` is computed from %s, the loop that follows its write() emits the elements of `%s`" % (inst["header"], ", ".join(sorted(roots)), lr),
                            "whenever the two collections differ in what they hold (de-duplicated runs, a filtered copy) the chunk declares more or fewer bytes than follow: the chunk walk resumes mid-chunk and every later chunk is lost, or the file ends early")
    # (2) every record the writer emits is a record the parser returns: the per-record loops of the root / group parsers never skip
    # an iteration (`continue`) — a record judged implausible is still data the file holds
    R_keep = ctx.rule("C15.record-loops-keep-every-record", "in wow-wmo's parsers no loop that pushes parsed records contains a `continue` of its own", floor=40)
    for f in wmo.fn_list:
        if f.kind == "Closure" or not f.hir or "::tests::" in f.path or not f.file.endswith(("wow-wmo/src/parser.rs", "group_parser.rs", "root_parser.rs")):
            continue
        for lp in list(hirq.find(f.hir["body"], "for")) + list(hirq.find(f.hir["body"], "while")) + list(hirq.find(f.hir["body"], "loop")):
            pushes = [c for c in hirq.walk(lp["body"], into_closures=False) if c.get("k") == "mcall" and c["m"] == "push"]
            if not pushes:
                continue
            inner = [id(x) for l2 in list(hirq.find(lp["body"], "for")) + list(hirq.find(lp["body"], "while")) + list(hirq.find(lp["body"], "loop")) for x in hirq.walk(l2["body"])]
            conts = [x for x in hirq.walk(lp["body"], into_closures=False) if x.get("k") == "continue" and id(x) not in inner]
            ctx.saw_fn(f)
            inst = {"fn": norm(f.path).split("::")[-1], "loop_line": lp.get("ln")}
            if conts:
                ctx.bad(R_keep, "%s|record-skipped" % inst["fn"], "%s:%d" % (f.file, conts[0].get("ln") or lp.get("ln") or 0), "the record loop of %s leaves an iteration with `continue` before its record is pushed" % inst["fn"],
                        "a record the writer emitted is dropped on read (the parsed list is shorter than the written one; a second write is shorter than the first)")
            else:
                ctx.ok(R_keep, inst) if len(ctx.samples) < 380 else (ctx.rules[R_keep].__setitem__("obligations", ctx.rules[R_keep]["obligations"] + 1), ctx.rules[R_keep].__setitem__("discharged", ctx.rules[R_keep]["discharged"] + 1))
