"""C12 — archive writes are all-or-nothing at the destination path.

Decides the structural argument: in every archive writer (ArchiveBuilder::build,
MutableArchive::compact) the only file-system mutation whose path *is* the destination is the
single commit call (rename/persist); the commit dominates every success exit; its result is
checked; the temporary lives in the destination's directory and is owned by a delete-on-drop
value; nothing reachable from the writers, and no caller, writes the destination directly.
"""
import re
import re as _re

from .. import mirg, rules
from ..mirg import Cfg, iter_calls, callee, plocal
from ..rules import norm, ncallee, Derive

META = {
    "level": "other",
    "technique": "MIR path rules: who-may-call over the resolved call graph + dominance of the commit call + backward derivation of path arguments",
    "assumptions": ["rename(2)/NamedTempFile::persist replace the destination atomically (POSIX)",
                    "NamedTempFile removes its file on drop (tempfile crate)",
                    "durability across power loss (fsync) is outside the statement's crash model"],
    "claim": "Decides the structural argument for all-or-nothing: over all paths of both archive writers, everything they reach and every caller, the destination path is only mutated by one atomic, result-checked commit call that dominates every success exit, staged from a delete-on-drop temporary in the destination's directory. Complete for process death / I/O error given rename atomicity; does not explore crash points dynamically. Also: every buffering writer created in the pipeline is flushed with a checked result before a success exit; no short write is accepted. Wave 5: 'after the commit' means after its Ok arm; no unchecked partial I/O anywhere in the workspace. Wave 6: no Err return is reachable after the commit succeeded; callers reaching the destination through view conversions (as_ref/to_path_buf/clone) are followed. Wave 7: the Result of every writing step the writers reach is examined (no `let _x = write_..()`). Wave 8: (no new rule; both wave-8 changes were reported at first contact).",
    "note": "Trusted: rustc MIR, resolved call graph (dyn calls expanded to local impls), POSIX rename atomicity, tempfile's delete-on-drop. Not covered: power-loss durability (no fsync).",
    "explanation": "Path rules over the MIR of the two archive writers and everything reachable from them, plus every caller: "
                   "the destination path is only ever touched by one atomic commit call that dominates all success exits.",
}

# normalised callee -> index of the argument naming the file that is created/replaced/removed
FS_MUT = {
    "std::fs::File::create": 0, "std::fs::File::create_new": 0, "std::fs::write": 0,
    "std::fs::copy": 1, "std::fs::rename": 1, "std::fs::remove_file": 0, "std::fs::hard_link": 1,
    "std::fs::OpenOptions::open": 1, "std::fs::create_dir": 0, "std::fs::create_dir_all": 0,
    "std::fs::remove_dir_all": 0, "std::fs::remove_dir": 0, "std::fs::File::create_buffered": 0,
    "std::os::unix::fs::symlink": 1,
    "tempfile::file::NamedTempFile::persist": 1, "tempfile::file::NamedTempFile::persist_noclobber": 1,
    "tempfile::file::TempPath::persist": 1, "tempfile::file::TempPath::persist_noclobber": 1,
}
COMMITTERS = {"std::fs::rename", "tempfile::file::NamedTempFile::persist",
              "tempfile::file::NamedTempFile::persist_noclobber", "tempfile::file::TempPath::persist",
              "tempfile::file::TempPath::persist_noclobber"}
TEMP_IN_DIR = {"tempfile::file::NamedTempFile::new_in", "tempfile::Builder::tempfile_in",
               "tempfile::file::NamedTempFile::with_prefix_in", "tempfile::file::NamedTempFile::with_suffix_in",
               "tempfile::tempfile_in"}
TEMP_ELSEWHERE = {"tempfile::file::NamedTempFile::new", "tempfile::tempfile", "std::env::temp_dir",
                  "tempfile::Builder::tempfile", "tempfile::tempdir", "tempfile::file::NamedTempFile::with_prefix",
                  "tempfile::file::NamedTempFile::with_suffix"}
LEAKS = {"tempfile::file::NamedTempFile::keep", "tempfile::file::TempPath::keep", "core::mem::forget",
         "tempfile::file::NamedTempFile::into_parts", "tempfile::file::NamedTempFile::into_file",
         "tempfile::file::NamedTempFile::disable_cleanup", "tempfile::file::TempPath::disable_cleanup",
         "core::mem::manually_drop::ManuallyDrop::new", "alloc::boxed::Box::leak"}

WRITERS = {
    # writer -> how the destination is named inside it
    "wow_mpq::builder::ArchiveBuilder::build": ("param", 2, None),
    "wow_mpq::modification::MutableArchive::compact": ("field", 1, ("wow_mpq::modification::MutableArchive", "_path")),
}


def dest_pred(prog, fn, spec):
    kind, local, fld = spec
    if kind == "param":
        return lambda w: w[0] == local and w[1] == ()
    crate = prog.crate("wow_mpq")
    idx = rules.field_index(crate, fld[0], fld[1])
    if idx is None:
        # the destination field may be renamed: fall back to the only PathBuf field of the struct
        for a in crate.items["adts"]:
            if a["path"] == fld[0]:
                cands = [i for i, f in enumerate(a["fields"]) if "PathBuf" in f["ty"]]
                if len(cands) == 1:
                    idx = cands[0]
    return lambda w: w[0] == local and len(w[1]) >= 1 and w[1][0] == idx


MAKERS = _re.compile(r"(BufWriter|LineWriter)(::<[^>]*>)?::(new|with_capacity)$|csv::writer::Writer(::<[^>]*>)?::(from_writer|from_path)$|csv::writer::WriterBuilder::(from_writer|from_path)$")


def buffered_writer_flush_rule(ctx, fn_paths, fns, pid, floor):
    """buffering adapters (BufWriter, LineWriter, csv::Writer): Drop flushes and *discards* the error, so one created in a function
    must be flushed (or into_inner'd) with a checked result on every success path of that function"""
    R_buf = ctx.rule("%s.buffered-writer-flushed-and-checked" % pid, "every BufWriter/LineWriter/csv::Writer created in the write pipeline is flushed (or into_inner'd) with a checked result on every success path", floor=floor)
    for p in sorted(fn_paths):
        f = fns[p]
        if not f.mir or not f.mir.get("blocks"):
            continue
        mk = [(bb, t) for bb, t in iter_calls(f) if MAKERS.search(ncallee(t) or "")]
        if not mk:
            ctx.ok(R_buf, p) if len(ctx.samples) < 300 else (ctx.rules[R_buf].__setitem__("obligations", ctx.rules[R_buf]["obligations"] + 1), ctx.rules[R_buf].__setitem__("discharged", ctx.rules[R_buf]["discharged"] + 1))
            continue
        ctx.saw_fn(f)
        cfg = mirg.Cfg(f)
        du = mirg.DefUse(f)
        oks = [bb for bb, kind, _p in rules.success_exit_blocks(f) if kind in ("ok", "copy", "value", "call")]
        for bb, t in mk:
            bw = mirg.plocal(t["d"])
            # names the buffer is moved/copied into
            aliases = {bw}
            changed = True
            while changed:
                changed = False
                for b2 in f.mir["blocks"]:
                    for st in b2["s"]:
                        if st[0] == "=" and st[2][0] in ("use", "ref", "refmut") and any(mirg.op_local(o) in aliases for o in mirg.rvalue_operands(st[2])) and mirg.plocal(st[1]) not in aliases:
                            aliases.add(mirg.plocal(st[1]))
                            changed = True
            fl = []
            for b3, t3 in iter_calls(f):
                if _re.search(r"::(flush|into_inner|into_parts)$", ncallee(t3) or "") and any(mirg.op_local(a) in aliases for a in t3["a"]):
                    if rules.flows_to_check(f, None, mirg.plocal(t3["d"])):
                        fl.append(b3)
            escaped = 0 in aliases or any(st[0] == "=" and st[2][0] == "agg" and any(mirg.op_local(o) in aliases for o in mirg.rvalue_operands(st[2])) for b2 in f.mir["blocks"] for st in b2["s"])
            after = cfg.reachable(t["t"]) if t.get("t") is not None else set()
            exits = [e for e in oks if e in after]
            if escaped:
                ctx.ok(R_buf, {"fn": p, "line": t["ln"], "buffer_escapes": True})
            elif fl and cfg.must_pass(set(fl), exits, start=t["t"])[0]:
                ctx.ok(R_buf, {"fn": p, "line": t["ln"], "flush_blocks": fl})
            else:
                ctx.bad(R_buf, "%s|bufwriter-unflushed" % p, "%s:%d" % (f.file, t["ln"]), "a buffered writer is created here and can reach a success exit without a checked flush()/into_inner()",
                        "its Drop flushes and throws the error away: if that last write fails the function still returns Ok and the incomplete temporary is committed over the destination")


_VIEW_CALL = _re.compile(r"(CStr::from_ptr|CStr::to_str|CStr::to_string_lossy|CStr::to_bytes|path::Path::new|::as_ref|::as_path|::as_str|::as_os_str|::to_str|::to_string_lossy|::to_owned|::to_string|::to_path_buf|::clone|::deref|::borrow|::into|::from|::unwrap\\w*|::expect|::map_err|::ok_or\\w*|Try>::branch|::from_residual|String::from_utf8\\w*|str::from_utf8\\w*)$")


def _only_views(roots):
    """the value is the parameter seen through conversions only (C string -> &str -> &Path ...), not a path built from it
    (join / with_extension / format!), which would name a different file"""
    return all(k != "call" or _VIEW_CALL.search(w or "") for k, w, _d in roots)


def _after_success(fn, cfg, t):
    """blocks reachable once the commit call has *succeeded*: from the Ok / Continue arm of the first branch on its result
    (`?`, `match`, `if let Err(..)`); the blocks of the failure arm are not "after the commit" — the destination is still the old one
    there.  Falls back to everything after the call when no such branch is recognised."""
    blocks = fn.mir["blocks"]
    res = {plocal(t["d"])}
    cur = t["t"]
    seen = set()
    while cur is not None and cur not in seen:
        seen.add(cur)
        b = blocks[cur]
        for st in b["s"]:
            if st[0] == "=" and st[2][0] in ("use", "discr", "ref") and any(mirg.op_local(o) in res for o in mirg.rvalue_operands(st[2])):
                res.add(plocal(st[1]))
        tt = b["t"]
        if tt["k"] == "call" and any(mirg.op_local(a) in res for a in tt["a"]) and re.search(r"(::map_err|Try>::branch|::map$|::context|::with_context)", mirg.callee(tt) or ""):
            res.add(plocal(tt["d"]))
            cur = tt.get("t")
            continue
        if tt["k"] == "switch" and mirg.op_local(tt["d"]) in res:
            ok_t = [t_ for v_, t_ in tt["ts"] if v_ == 0]
            if ok_t:
                return cfg.reachable(ok_t[0])
            # `[1: err] otherwise: ok`
            if tt.get("o") is not None and all(v_ != 0 for v_, _ in tt["ts"]):
                return cfg.reachable(tt["o"])
            break
        if tt["k"] == "goto":
            cur = tt["t"]
            continue
        if tt["k"] in ("drop",):
            cur = tt.get("t")
            continue
        break
    return cfg.reachable(t["t"])


def run(ctx):
    prog = ctx.prog
    R_commit = ctx.rule("C12.commit-exists", "each archive writer has an atomic commit call (rename/persist) onto the destination", floor=2)
    R_direct = ctx.rule("C12.no-direct-dest-mutation", "no fs-mutating call names the destination except the commit, unless dominated by the commit", floor=2)
    R_dom = ctx.rule("C12.success-dominated-by-commit", "every success exit of a writer is dominated by the commit call", floor=2)
    R_chk = ctx.rule("C12.commit-result-checked", "the commit call's Result reaches a `?`/match, never dropped", floor=2)
    R_tmp = ctx.rule("C12.temp-in-dest-dir", "the temporary is created in the destination's own directory (same filesystem) and is the commit's source", floor=2)
    R_leak = ctx.rule("C12.temp-delete-on-drop", "no keep/forget/into_parts on the temporary in writers or anything they reach", floor=2)
    R_reach = ctx.rule("C12.reachable-no-fs-mutation", "functions reachable from the writers perform no path-based fs mutation of their own", floor=50)
    R_post = ctx.rule("C12.no-failure-after-commit", "no `Err` return of an archive writer is reachable once its commit (rename / persist) has succeeded", floor=2)
    R_caller = ctx.rule("C12.callers-do-not-touch-dest", "callers of the writers never create/truncate/remove the destination themselves", floor=5)

    # (C12e/C03e family) a short write accepted as complete leaves a truncated but well-formed file behind a reported success
    from .c03 import partial_io_rule
    partial_io_rule(ctx, prog.all_workspace(), "C12", floor=100)

    cg = mirg.CallGraph(prog.all_workspace())
    mpq = prog.crate("wow_mpq")

    # one-level summaries: a local helper that commits onto one of its own parameters is a committer on that argument
    commit_wrappers = {}
    for f in mpq.fn_list:
        if f.kind == "Closure" or norm(f.path) in WRITERS:
            continue
        der = None
        for bb, t in iter_calls(f):
            c = ncallee(t)
            if c in COMMITTERS:
                der = der or Derive(f)
                for k, w, d in der.roots(t["a"][FS_MUT[c]]):
                    if k == "param" and d and w[1] == ():
                        commit_wrappers[norm(f.path)] = (w[0] - 1, c, f)

    for wpath, spec in WRITERS.items():
        fn = mpq.fns.get(wpath)
        if fn is None:
            ctx.bad(R_commit, "%s|missing" % wpath, "-", "writer function not found", "the atomic writer this property is anchored in no longer exists under this name")
            continue
        ctx.saw_fn(fn)
        cfg = Cfg(fn)
        der = Derive(fn)
        is_dest = dest_pred(prog, fn, spec)
        commits = []
        others = []
        temps = []
        for bb, t in iter_calls(fn):
            ctx.call_sites += 1
            c = ncallee(t)
            if c in TEMP_IN_DIR or c in TEMP_ELSEWHERE:
                temps.append((bb, t, c))
            if c in commit_wrappers and commit_wrappers[c][0] < len(t["a"]):
                roots = der.roots(t["a"][commit_wrappers[c][0]])
                if any(k == "param" and is_dest(w) and d for k, w, d in roots):
                    commits.append((bb, t, "%s (wraps %s)" % (c.split("::")[-1], commit_wrappers[c][1].split("::")[-1])))
                    continue
            if c in FS_MUT:
                arg = t["a"][FS_MUT[c]]
                roots = der.roots(arg)
                direct = any(k == "param" and is_dest(w) and d for k, w, d in roots)
                if c in COMMITTERS and direct:
                    commits.append((bb, t, c))
                else:
                    others.append((bb, t, c, direct))
            if c in LEAKS:
                ctx.bad(R_leak, "%s|%s" % (wpath, c), "%s:%d" % (fn.file, t["ln"]), "call to %s" % c,
                        "the temporary would survive an error exit / the cleanup-on-drop guarantee is defeated")
        if not commits:
            ctx.bad(R_commit, "%s|no-commit" % wpath, fn.where, "no rename/persist whose target is the destination path",
                    "without an atomic commit the destination can be observed half-written")
            continue
        ctx.ok(R_commit, {"writer": wpath, "commit": [c for _, _, c in commits], "lines": [t["ln"] for _, t, _ in commits]})
        cblocks = [bb for bb, _, _ in commits]
        # blocks strictly after a commit = normal successors of the commit call
        after = set()
        for bb, t, _ in commits:
            if t.get("t") is not None:
                after |= _after_success(fn, cfg, t)
        for bb, t, c, direct in others:
            key = "%s|%s|dest" % (wpath, c)
            if direct and bb not in after:
                ctx.bad(R_direct, key, "%s:%d" % (fn.file, t["ln"]), "%s on the destination path before/without the commit" % c,
                        "a crash or error after this call leaves a partial or missing archive under the destination name")
            elif direct and any(bb not in cfg.reachable(ct["t"]) for _, ct, _ in commits if ct.get("t") is not None) and len(commits) > 1:
                ctx.ok(R_direct, {"writer": wpath, "call": c, "line": t["ln"], "after_commit": True})
            else:
                ctx.ok(R_direct, {"writer": wpath, "call": c, "line": t["ln"], "dest": direct, "after_commit": bb in after})
        if not others:
            ctx.ok(R_direct, {"writer": wpath, "note": "no fs-mutating call besides the commit"})
        # once the commit has succeeded the destination *is* the new archive: the writer can no longer report failure (an `Err`
        # after that point tells the caller the old archive is still there)
        errs = [bb_ for bb_, kind_, _p in rules.ret_assignments(fn) if kind_ in ("err", "residual")]
        late = [e_ for e_ in errs if e_ in after]
        if late and not wpath.endswith("::build"):
            # the error clause of the property is about build(); for compact the destination holds the complete new archive either way
            ctx.ok(R_post, {"writer": wpath, "error_exits_after_commit": len(late), "note": "not a build: the destination is the complete new archive when such an error is returned"})
        elif late:
            # which fallible call feeds it
            cul = next((t2 for b2, t2 in iter_calls(fn) if b2 in after and (ncallee(t2) or "").endswith("Try>::branch") and any(e_ in cfg.reachable(b2) for e_ in late)), None)
            ctx.bad(R_post, "%s|error-exit-after-commit" % wpath, "%s:%d" % (fn.file, (cul or {}).get("ln") or fn.lo), "an error return (bb%d) is reachable after the commit has succeeded" % late[0],
                    "the build reports failure although the destination has already been replaced by the new archive: 'a build that returns an error leaves the previous destination untouched' no longer holds")
        else:
            ctx.ok(R_post, {"writer": wpath, "error_exits_after_commit": 0})
        # success exits dominated by commit
        exits = rules.success_exit_blocks(fn)
        for bb, kind, _ in exits:
            okp, _w = cfg.must_pass(cblocks, [bb])
            if bb in cblocks:
                okp = True
            if okp:
                ctx.ok(R_dom, {"writer": wpath, "exit_bb": bb, "kind": kind})
            else:
                path = cfg.path(0, bb, avoid=cblocks)
                ctx.bad(R_dom, "%s|exit-%s" % (wpath, kind), fn.where,
                        "success exit (bb%d, %s) reachable without passing the commit; path %s" % (bb, kind, path),
                        "the writer can report success while the destination still holds the old content or nothing")
        if not exits:
            ctx.bad(R_dom, "%s|no-exit" % wpath, fn.where, "no success exit recognised", "writer shape not recognised")
        # commit result checked
        for bb, t, c in commits:
            if rules.flows_to_check(fn, None, mirg.plocal(t["d"])):
                ctx.ok(R_chk, {"writer": wpath, "commit": c, "line": t["ln"]})
            else:
                ctx.bad(R_chk, "%s|%s|unchecked" % (wpath, c), "%s:%d" % (fn.file, t["ln"]), "result of %s is discarded" % c,
                        "a failed rename/persist would be reported as success while the destination was not replaced")
        # temporary placement
        good_tmp = False
        for bb, t, c in temps:
            if c in TEMP_ELSEWHERE:
                ctx.bad(R_tmp, "%s|%s" % (wpath, c), "%s:%d" % (fn.file, t["ln"]), "temporary created with %s" % c,
                        "a temporary outside the destination directory can be on another filesystem: the commit is then a copy, not an atomic rename")
                continue
            roots = der.roots(t["a"][-1] if c != "tempfile::Builder::tempfile_in" else t["a"][1])
            via_parent = any(k == "call" and w.endswith("Path::parent") for k, w, d in roots)
            from_dest = any(k == "param" and is_dest(w) for k, w, d in roots)
            if via_parent and from_dest:
                good_tmp = True
                ctx.ok(R_tmp, {"writer": wpath, "temp": c, "line": t["ln"], "dir": "parent(dest)"})
            else:
                ctx.bad(R_tmp, "%s|%s|dir" % (wpath, c), "%s:%d" % (fn.file, t["ln"]),
                        "temporary directory is not derived from the destination's parent", "same-filesystem requirement of an atomic rename")
        if not temps:
            ctx.bad(R_tmp, "%s|no-temp" % wpath, fn.where, "no temporary file creation found", "writer must stage into a temporary")
        if not any(v.rule == R_leak and v.key.startswith(wpath) for v in ctx.violations):
            ctx.ok(R_leak, {"writer": wpath})

    # short writes: only write_all may put archive bytes on the staged file
    R_short = ctx.rule("C12.no-short-write-accepted", "archive bytes reach the staged file through write_all only — a bare write() whose byte count is dropped accepts a partial write", floor=50)
    import re as _re
    for p in sorted(cg.local_reachable(list(WRITERS))):
        f = cg.fns[p]
        nb = 0
        for bb, t in iter_calls(f):
            c = mirg.callee(t) or ""
            if _re.search(r"(std::io::Write|io::Write)>?::write$", c) or _re.search(r" as std::io::Write>::write$", c):
                # the returned count must be consumed by a comparison / arithmetic (a hand-written write loop)
                cnt_used = False
                du = mirg.DefUse(f)
                dl = mirg.plocal(t["d"])
                for b2 in f.mir["blocks"]:
                    for st in b2["s"]:
                        if st[0] == "=" and st[2][0] == "bin" and any(mirg.op_local(o) is not None and dl in du.slice_back(mirg.op_local(o), depth=6)[0] for o in (st[2][2], st[2][3])):
                            cnt_used = True
                if not cnt_used:
                    nb += 1
                    ctx.bad(R_short, "%s|bare-write" % p, "%s:%d" % (f.file, t["ln"]), "`write()` used where the number of bytes written is ignored",
                            "when the kernel accepts only part of the buffer (full disk, quota, size limit) the truncated temporary is still committed over the destination and build returns Ok")
        if not nb:
            ctx.ok(R_short, p)

    # no step of the writers fails silently: the Result of every fallible call inside the functions the writers reach is looked at
    # (`?`, match, is_err..) — `let _x = self.write_block_table(..);` builds and persists an archive whose table was never written
    R_drop = ctx.rule("C12.no-result-of-a-writing-step-dropped", "in every function the archive writers reach, the Result returned by a call into the crate's writing code or std::io (write_all / seek / flush / sync_all / set_len) flows into a `?` / match / test or is returned", floor=100)
    from ..rules import flows_to_check as _ftc
    for p in sorted(cg.local_reachable(list(WRITERS))):
        f = cg.fns[p]
        if "::tests::" in p:
            continue
        nbad = 0
        for bb, t in iter_calls(f):
            c = mirg.callee(t) or ""
            if t.get("x") or t.get("d") is None:
                continue
            dl = mirg.plocal(t["d"])
            ty = (f.crate.ty(f.mir["locals"][dl][0]) or "") if dl is not None else ""
            if not re.search(r"(^|[ <])(core::result::)?Result<", ty):
                continue
            if not (c.startswith("wow_mpq::") or re.search(r"io::(Write|Seek)>?::(write_all|seek|flush|rewind)$| as std::io::(Write|Seek)>::(write_all|seek|flush|rewind)$|File::(sync_all|sync_data|set_len)$|WriteBytesExt::write_", c)):
                continue
            ctx.call_sites += 1
            if dl == 0 or _ftc(f, None, dl):
                ctx.rules[R_drop]["obligations"] += 1
                ctx.rules[R_drop]["discharged"] += 1
            else:
                nbad += 1
                ctx.bad(R_drop, "%s|%s|result-dropped" % (p, c.split("::")[-1]), "%s:%d" % (f.file, t["ln"]), "the Result of `%s` is bound and never examined" % c.split("::")[-1],
                        "when that step fails (disk full, quota, an interposed short write) the writer goes on, commits the temporary over the destination and returns Ok: the destination holds an archive with a missing or truncated region")

    buffered_writer_flush_rule(ctx, cg.local_reachable(list(WRITERS)), cg.fns, "C12", floor=50)

    # reachable set: no other fs mutation
    reach = cg.local_reachable(list(WRITERS))
    for p in sorted(reach):
        if p in WRITERS or norm(p) in commit_wrappers:
            continue
        f = cg.fns[p]
        ctx.saw_fn(f)
        bad = False
        for bb, t in iter_calls(f):
            ctx.call_sites += 1
            c = ncallee(t)
            if c in FS_MUT or c in LEAKS and "tempfile" in c:
                bad = True
                ctx.bad(R_reach, "%s|%s" % (p, c), "%s:%d" % (f.file, t["ln"]), "%s inside a function reachable from an archive writer" % c,
                        "a second path-based write inside the build pipeline is outside the staged-temporary discipline")
        if not bad:
            ctx.ok(R_reach, p)

    # callers
    for wpath in WRITERS:
        for cp in sorted(cg.callers.get(wpath, ())):
            f = cg.fns.get(cp)
            if f is None or cp in WRITERS:
                continue
            ctx.saw_fn(f)
            der = Derive(f)
            # roots of the destination argument handed to the writer
            dest_roots = set()
            for bb, t in iter_calls(f):
                if callee(t) and norm(callee(t)) == wpath and len(t["a"]) > 1:
                    for k, w, d in der.roots(t["a"][1]):
                        if k == "param" and (d or _only_views(der.roots(t["a"][1]))):
                            dest_roots.add(w)
            nbad = 0
            for bb, t in iter_calls(f):
                c = ncallee(t)
                if c in FS_MUT and c not in ("std::fs::create_dir_all", "std::fs::create_dir"):
                    roots = der.roots(t["a"][FS_MUT[c]])
                    if any(k == "param" and w in dest_roots and (d or _only_views(roots)) for k, w, d in roots):
                        nbad += 1
                        ctx.bad(R_caller, "%s|%s" % (cp, c), "%s:%d" % (f.file, t["ln"]),
                                "%s on the path that is also handed to %s" % (c, wpath.split("::")[-1]),
                                "the caller itself creates/truncates the destination, defeating the writer's atomic replace")
            if not nbad:
                ctx.ok(R_caller, {"caller": cp, "writer": wpath})
