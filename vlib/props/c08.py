"""C08 — patch-chain lookup returns the highest-priority version whatever the history.

The mechanisms are structural: (1) `archives` is kept in descending priority with ties in
insertion order — every mutator inserts at `position(existing.priority < new)` (truth table
{lt:T,eq:F,gt:F}), sorts are stable and descending, no order-disturbing Vec operation is used;
(2) the name→archive map is rebuilt first-wins over that order after every mutation; (3) the same
key function is used on build and lookup; (4) patches are verified before and after application and
a winning patch is never silently dropped.
"""
import re

from .. import cmpeval, hirq, mirg, rules
from ..rules import norm, ncallee

META = {
    "level": "other",
    "technique": "comparator truth tables over the 3 orderings (typed HIR) + must-pass-through on MIR + sibling key-function comparison",
    "claim": "Decides the ordering invariant and its use for every mutator and every path: insertion predicates are strict, sorts stable+descending, no reordering Vec op, map rebuilt first-wins after every mutation, one key function, verify_base/verify_patched dominate apply_patch's success and compare against the right digests, no patch dropped on error. Does not replay histories. Also: a search index into the archive list is used before any other mutation of the list (stale-index ordering). Wave 6: every read lookup of the name map also asks the archives that outrank the listed one for the file itself. Wave 7: no return at all — error exits included — between a mutation of the archive list and the map rebuild. Wave 8: the predicate of the archive search is implied by holding the file (boolean formula over its atoms).",
    "note": "Trusted: Vec::insert/remove/position and slice::sort_by (stable) semantics, HashMap entry().or_insert semantics, MD5 crate. The comparator evaluator understands <,<=,>,>=,==,!=,!,&&,||,cmp/partial_cmp/reverse/is_lt.. and Reverse(); anything else is unarmed and trips the floor.",
    "assumptions": ["Archive::list/list_all enumerate the archive's names (C01)", "priority is compared only through the inspected comparators"],
    "explanation": "All functions of patch_chain.rs that touch the ordered archive list, the map builder, the four key-normalisation sites, apply_patch and the two digest verifiers.",
}

FILE = "patch_chain.rs"
VEC_T = re.compile(r"alloc::vec::Vec<wow_mpq::patch_chain::ChainEntry>")
REORDERING = {"swap_remove", "reverse", "swap", "rotate_left", "rotate_right", "sort_unstable", "sort_unstable_by",
              "sort_unstable_by_key", "sort_unstable_by_cached_key", "select_nth_unstable", "select_nth_unstable_by", "dedup_by_key"}
STABLE_SORTS = {"sort_by", "sort_by_key", "sort", "sort_by_cached_key"}
ORDER_NEUTRAL = {"remove", "clear", "retain", "truncate", "drain", "pop", "retain_mut", "len", "iter", "iter_mut", "get", "get_mut",
                 "is_empty", "first", "last", "as_slice", "deref", "deref_mut", "index", "index_mut", "into_iter", "capacity", "reserve",
                 "par_iter", "binary_search_by", "binary_search_by_key", "partition_point", "contains", "first_mut", "last_mut",
                 "shrink_to_fit", "as_mut_slice", "with_capacity", "clone", "split_off", "windows", "chunks"}


def recv_is_archives(crate, n):
    rt = crate.ty(n.get("rt")) or ""
    r = hirq.strip(n["recv"])
    rty = crate.ty(r.get("t")) if r else ""
    return bool(VEC_T.search(rt) or VEC_T.search(rty or "")) and "Vec<alloc::vec::Vec" not in rt


def find_let_init(body, name, before_line):
    """initialiser of the nearest `let name = ...` at or before a line"""
    best = None
    for n in hirq.find(body, "let"):
        if n["pat"].get("k") == "bind" and n["pat"]["name"] == name and n["ln"] <= before_line and n.get("init"):
            if best is None or n["ln"] >= best["ln"]:
                best = n
    return best["init"] if best else None


def position_closure(expr):
    """from `X.iter().position(CL).unwrap_or(X.len())` return (CL, default_expr) else None"""
    e = hirq.strip(expr)
    default = None
    if e.get("k") == "mcall" and e["m"] in ("unwrap_or", "unwrap_or_else"):
        default = e["args"][0]
        e = hirq.strip(e["recv"])
    if e.get("k") == "mcall" and e["m"] in ("position", "partition_point"):
        cl = hirq.strip(e["args"][0])
        if cl.get("k") == "closure":
            return cl, default, e["m"], e
    return None


def classify_insert_pred(cl):
    """truth table of the predicate over (existing.priority ? new) — existing = the closure parameter"""
    params = [hirq.pat_binds(p) for p in cl["params"]]
    pname = params[0][0] if params and params[0] else None
    body = cmpeval.closure_body(cl)
    ats = cmpeval.atoms(body)
    if len(ats) != 2 or pname is None:
        raise cmpeval.Unknown("predicate does not compare exactly two quantities: %s" % ats)
    ex = [a for a in ats if a.startswith(pname + ".") or a.startswith("(*" + pname) or a == pname]
    nw = [a for a in ats if a not in ex]
    if len(ex) != 1 or len(nw) != 1:
        raise cmpeval.Unknown("cannot tell existing from new in %s" % ats)
    if "priority" not in ex[0]:
        raise cmpeval.Unknown("predicate is not over priority: %s" % ex[0])
    return cmpeval.truth_table(body, ex[0], nw[0]), hirq.render(body)


def classify_sort(n):
    """returns ('desc'|'asc'|'other', rendering) for a sort call node"""
    m = n["m"]
    cl = hirq.strip(n["args"][0]) if n["args"] else None
    if m == "sort_by" and cl and cl.get("k") == "closure":
        ps = [hirq.pat_binds(p) for p in cl["params"]]
        a, b = ps[0][0], ps[1][0]
        body = cmpeval.closure_body(cl)
        ats = cmpeval.atoms(body)
        aa = [x for x in ats if x.startswith(a + ".")]
        bb = [x for x in ats if x.startswith(b + ".")]
        if len(ats) != 2 or len(aa) != 1 or len(bb) != 1 or "priority" not in aa[0]:
            raise cmpeval.Unknown("sort comparator not over the two priorities: %s" % ats)
        tt = cmpeval.truth_table(body, aa[0], bb[0])
        if tt == {"lt": cmpeval.GREATER, "eq": cmpeval.EQUAL, "gt": cmpeval.LESS}:
            return "desc", hirq.render(body)
        if tt == {"lt": cmpeval.LESS, "eq": cmpeval.EQUAL, "gt": cmpeval.GREATER}:
            return "asc", hirq.render(body)
        return "other", hirq.render(body)
    if m in ("sort_by_key", "sort_by_cached_key") and cl and cl.get("k") == "closure":
        body = cmpeval.closure_body(cl)
        r = hirq.render(body)
        if body.get("k") == "call" and (body.get("fn") or "").endswith("cmp::Reverse") and "priority" in r:
            return "desc", r
        if body.get("k") == "un" and body["op"] == "Neg" and "priority" in r:
            return "desc", r
        return "asc", r
    raise cmpeval.Unknown("unrecognised sort form %s" % m)



def _narrowed_by(pred, mpq):
    """the predicate handed to the archive search, read as a boolean formula: with every atom that asks the archive for the file
    (find_file / has_file / contains_file, directly or inside a crate-local helper it calls) set to true, the formula must be true
    under every valuation of its other atoms.  -> None, or (rendered atom, value) of a valuation under which a holder is skipped"""
    import itertools
    pred = hirq.strip(pred)
    body = pred["body"] if pred.get("k") == "closure" else pred
    ASK = ("find_file", "has_file", "contains_file", "find_file_info")

    def asks_(n, depth=0):
        for c in hirq.walk(n):
            if c.get("k") in ("mcall", "call"):
                nm = c.get("m") or (c.get("fn") or "").split("::")[-1]
                # (asking for the *requested* name: the argument is a variable, not a fixed string such as "(listfile)")
                named = [a for a in (c.get("args") or []) if hirq.lit_str(hirq.strip(a)) is None and hirq.strip(a).get("k") in ("path", "mcall", "field", "call")]
                if nm in ASK and named:
                    return True
                cal = mpq.fns.get(c.get("fn") or "")
                if depth < 2 and named and cal is not None and cal.hir and "::patch_chain::" in cal.path and asks_(cal.hir["body"], depth + 1):
                    return True
        return False
    atoms = []

    def build(n):
        n = hirq.strip(n)
        while n.get("k") == "block" and not n.get("stmts") and n.get("e") is not None:
            n = hirq.strip(n["e"])
        if n.get("k") == "bin" and n["op"] in ("&&", "||"):
            return (n["op"], build(n["l"]), build(n["r"]))
        if n.get("k") == "un" and n.get("op") == "Not":
            return ("!", build(n["e"]))
        if n.get("k") == "lit" and "bool" in n.get("v", {}):
            return ("c", bool(n["v"]["bool"]))
        atoms.append(n)
        return ("a", len(atoms) - 1)
    form = build(body)
    ask_ix = {i for i, a in enumerate(atoms) if asks_(a)}
    if not ask_ix:
        return None
    other = [i for i in range(len(atoms)) if i not in ask_ix]
    if len(other) > 6:
        return None

    def ev(fm, val):
        if fm[0] == "a":
            return val[fm[1]]
        if fm[0] == "c":
            return fm[1]
        if fm[0] == "!":
            return not ev(fm[1], val)
        a, b = ev(fm[1], val), ev(fm[2], val)
        return (a and b) if fm[0] == "&&" else (a or b)
    for vals in itertools.product((False, True), repeat=len(other)):
        val = {i: True for i in ask_ix}
        val.update(dict(zip(other, vals)))
        if not ev(form, val):
            # name one atom whose flip makes the formula true again
            for i, v in zip(other, vals):
                val2 = dict(val)
                val2[i] = not v
                if ev(form, val2):
                    return (hirq.render(atoms[i]), "true" if v else "false")
            return (hirq.render(atoms[other[0]]), "true" if vals[0] else "false") if other else (hirq.render(body), "evaluated")
    return None


def run(ctx):
    prog = ctx.prog
    mpq = prog.crate("wow_mpq")
    R_ins = ctx.rule("C08.insert-position-strict", "every insertion index is position(existing.priority < new): truth table {lt:T,eq:F,gt:F}, default = len", floor=3)
    R_sort = ctx.rule("C08.sorts-stable-descending", "every sort of the archive list is a stable sort with a descending-priority comparator", floor=1)
    R_reorder = ctx.rule("C08.no-reordering-ops", "no order-disturbing Vec operation (push without sort, swap_remove, reverse, unstable sort, in-place priority write) on the archive list", floor=4)
    R_rebuild = ctx.rule("C08.map-rebuilt-after-mutation", "every path from a mutation of the archive list to a success return passes rebuild_file_map (or clears the map with the list)", floor=6)
    R_first = ctx.rule("C08.map-first-wins", "rebuild_file_map walks the list front-to-back inserting only absent keys (or back-to-front overwriting)", floor=1)
    R_key = ctx.rule("C08.same-key-function", "map build and every lookup normalise names through the same call chain", floor=2)
    R_apply = ctx.rule("C08.patch-verified-before-and-after", "apply_patch: every success path passes a ?-checked verify_base and a ?-checked verify_patched of the returned bytes", floor=2)
    R_digest = ctx.rule("C08.verifier-compares-right-digest", "verify_base/verify_patched hash their argument and fail on inequality with md5_before/md5_after respectively", floor=2)
    R_drop = ctx.rule("C08.no-patch-dropped", "read_patched_file never discards a patch or base whose read/parse failed on a path that still returns Ok", floor=1)
    R_par = ctx.rule("C08.parallel-load-ordered", "parallel loading collects from an indexed parallel iterator into a Vec (input order kept before the stable sort/insert)", floor=2)

    fns = [f for f in mpq.fn_list if f.kind != "Closure" and f.file.endswith(FILE) and f.hir]

    # an index found by searching the archive list is used on the list as it was searched: no removal / insertion in between
    R_stale = ctx.rule("C08.search-index-not-stale", "an index obtained from position()/binary_search/partition_point on the archive list is used (insert/remove/index) before any other mutation of that list", floor=3)
    MUT = ("remove", "insert", "push", "retain", "sort_by", "sort_by_key", "sort", "swap", "swap_remove", "truncate", "drain", "clear", "extend", "append", "dedup_by_key", "pop")
    for f in fns:
        body = hirq.body_of(f)
        order = {id(n): i for i, n in enumerate(hirq.walk(body))}
        idx_defs = {}      # local -> (order, list render)
        for l in hirq.find(body, "let"):
            if l["pat"].get("k") != "bind" or l.get("init") is None:
                continue
            SRCH = ("position", "rposition", "binary_search_by", "binary_search_by_key", "partition_point")
            srch = [c for c in hirq.walk(l["init"]) if c.get("k") == "mcall" and c["m"] in SRCH]
            base = None
            for c in hirq.walk(l["init"]):
                if c.get("k") == "mcall" and recv_is_archives(mpq, c):
                    base = hirq.render(hirq.strip(c["recv"]))
            if not srch:
                # the search may live in a local helper (`self.insertion_index(priority)`)
                for c in hirq.calls(l["init"]):
                    helper = next((g for g in mpq.fn_list if c.get("fn") and g.path == c["fn"] and g.hir and g.file.endswith(FILE)), None)
                    if helper is not None and any(x.get("k") == "mcall" and x["m"] in SRCH for x in hirq.walk(helper.hir["body"])) and \
                            any(x.get("k") == "mcall" and recv_is_archives(mpq, x) for x in hirq.walk(helper.hir["body"])):
                        srch = [c]
                        base = "self.archives"
            if not srch:
                continue
            if base is None:
                continue
            idx_defs[l["pat"]["name"]] = (max(order.get(id(x), 0) for x in hirq.walk(l["init"])), base, l["ln"])
        if not idx_defs:
            continue
        muts = [(order[id(c)], c) for c in hirq.walk(body) if c.get("k") == "mcall" and c["m"] in MUT and recv_is_archives(mpq, c)]
        for c in hirq.walk(body):
            uses = []
            if c.get("k") == "mcall" and c["m"] in ("insert", "remove", "swap_remove", "get", "get_mut", "split_off") and recv_is_archives(mpq, c) and c.get("args"):
                uses = [x["res"]["local"] for x in hirq.walk(c["args"][0]) if x.get("k") == "path" and x["res"].get("local") in idx_defs]
            elif c.get("k") == "index" and hirq.render(hirq.strip(c["e"])).endswith("archives"):
                uses = [x["res"]["local"] for x in hirq.walk(c["i"]) if x.get("k") == "path" and x["res"].get("local") in idx_defs]
            for nm in uses:
                d_ord, base, d_ln = idx_defs[nm]
                u_ord = order[id(c)]
                between = [m_ for o_, m_ in muts if d_ord < o_ < u_ord and m_ is not c]
                ctx.saw_fn(f)
                if between:
                    ctx.bad(R_stale, "%s|%s|stale-index" % (f.path.split("::")[-1], nm), "%s:%d" % (f.file, c["ln"]), "`%s` was computed at line %d, the list was then changed by `%s` (line %d), and only then is it used in `%s`" % (
                        nm, d_ln, between[0]["m"], between[0]["ln"], hirq.render(c)[:50]),
                            "the index refers to the list before the change: the entry lands one slot off, behind an archive of lower priority (or ahead of a higher one) — shared names then resolve to the wrong archive")
                else:
                    ctx.ok(R_stale, {"fn": f.path, "index": nm, "used_in": c.get("m") or "index", "line": c["ln"]})
    rebuild_path = "wow_mpq::patch_chain::PatchChain::rebuild_file_map"

    mutators = {}
    for f in fns:
        body = hirq.body_of(f)
        ops = []
        for n in hirq.walk(body):
            if n.get("k") == "mcall" and recv_is_archives(mpq, n):
                ops.append(n)
        lits = [n for n in hirq.find(body, "struct") if n["res"].get("def", "").endswith("patch_chain::PatchChain")]
        assigns = [n for n in hirq.walk(body) if n.get("k") in ("assign", "assignop") and hirq.strip(n["l"]).get("k") == "field"
                   and hirq.strip(n["l"])["name"] == "priority"]
        if not ops and not lits and not assigns:
            continue
        ctx.saw_fn(f)
        muts = []
        sorts_lines = []
        for n in ops:
            m = n["m"]
            where = "%s:%d" % (f.file, n["ln"])
            if m in STABLE_SORTS or m in REORDERING and m.startswith("sort"):
                if m in REORDERING:
                    ctx.bad(R_sort, "%s|%s" % (f.path, m), where, "unstable sort `%s` on the archive list" % m,
                            "equal-priority archives may be permuted: the earliest-added archive no longer wins ties")
                    muts.append(n)
                    continue
                try:
                    d, r = classify_sort(n)
                except cmpeval.Unknown as e:
                    ctx.note_unarmed(R_sort, f.path, str(e))
                    continue
                if d == "desc":
                    ctx.ok(R_sort, {"fn": f.path, "sort": m, "cmp": r})
                    sorts_lines.append(n["ln"])
                else:
                    ctx.bad(R_sort, "%s|%s|%s" % (f.path, m, d), where, "comparator `%s` orders %s" % (r, d),
                            "the list must be highest priority first; lookups take the first archive containing the name")
                muts.append(n)
            elif m == "insert":
                muts.append(n)
                idx = hirq.strip(n["args"][0])
                src = idx
                if idx.get("k") == "path" and "local" in idx["res"]:
                    src = find_let_init(body, idx["res"]["local"], n["ln"])
                pc = position_closure(src) if src else None
                if not pc and src is not None:
                    # the index may be computed by a local helper: look at what that helper returns
                    s2 = hirq.strip(src)
                    callee = s2.get("fn") if s2.get("k") in ("call", "mcall") else None
                    helper = next((g for g in mpq.fn_list if callee and g.path == callee and g.hir), None)
                    if helper is not None:
                        hb = hirq.strip(helper.hir["body"])
                        while hb.get("k") == "block" and not hb.get("stmts") and hb.get("e"):
                            hb = hirq.strip(hb["e"])
                        pc = position_closure(hb)
                key = "%s|insert" % f.path
                if not pc:
                    ctx.bad(R_ins, key + "|index-source", where, "insertion index `%s` is not position(pred).unwrap_or(len)" % hirq.render(idx),
                            "the insertion point must be computed from the priority order")
                    continue
                cl, default, how, _ = pc
                try:
                    tt, r = classify_insert_pred(cl)
                except cmpeval.Unknown as e:
                    ctx.note_unarmed(R_ins, f.path, str(e))
                    continue
                want = {"lt": True, "eq": False, "gt": False}
                dr = hirq.render(default) if default else None
                if how == "partition_point":
                    want = {"lt": False, "eq": True, "gt": True}
                if tt != want:
                    ctx.bad(R_ins, key + "|pred", where, "{lt:%s, eq:%s, gt:%s}  (`%s`)" % (tt["lt"], tt["eq"], tt["gt"], r),
                            "equal-priority archives would be re-ordered (or the list mis-sorted): the earliest-added archive no longer wins ties")
                elif how == "position" and (dr is None or not dr.endswith(".len()")):
                    ctx.bad(R_ins, key + "|default", where, "default insertion index is `%s`, not the list length" % dr,
                            "an archive with the lowest priority must go last")
                else:
                    ctx.ok(R_ins, {"fn": f.path, "pred": r, "table": tt, "default": dr})
            elif m == "push":
                muts.append(n)
                if any(l > n["ln"] for l in sorts_lines) or any(x["m"] in STABLE_SORTS and x["ln"] > n["ln"] for x in ops):
                    ctx.ok(R_reorder, {"fn": f.path, "op": "push followed by stable sort"})
                else:
                    ctx.bad(R_reorder, "%s|push" % f.path, where, "push appends regardless of priority and no stable sort follows",
                            "a higher-priority archive added later would be looked up after lower-priority ones")
            elif m in REORDERING:
                muts.append(n)
                ctx.bad(R_reorder, "%s|%s" % (f.path, m), where, "`%s` on the archive list" % m, "disturbs the priority/insertion order lookups rely on")
            elif m in ("remove", "clear", "retain", "truncate", "drain", "pop", "retain_mut", "extend", "append", "split_off"):
                muts.append(n)
                if m in ("extend", "append"):
                    ctx.bad(R_reorder, "%s|%s" % (f.path, m), where, "`%s` appends regardless of priority" % m, "order invariant")
                else:
                    ctx.ok(R_reorder, {"fn": f.path, "op": m})
            elif m not in ORDER_NEUTRAL:
                ctx.bad(R_reorder, "%s|%s|unknown-op" % (f.path, m), where, "unclassified Vec operation `%s` on the archive list" % m,
                        "operation not known to preserve the order invariant")
        for a in assigns:
            base = hirq.render(hirq.strip(a["l"])["e"])
            if "archives" in base or base in [b for p in hirq.find(body, "for") if "archives" in hirq.render(p["iter"]) for b in hirq.pat_binds(p["pat"])]:
                ctx.bad(R_reorder, "%s|priority-write-in-place" % f.path, "%s:%d" % (f.file, a["ln"]),
                        "`%s.priority` written while the entry is still in the list" % base, "the list is no longer sorted by priority afterwards")
            else:
                ctx.ok(R_reorder, {"fn": f.path, "op": "priority write on detached entry `%s`" % base})
        for lit in lits:
            fld = dict((x[0], x[1]) for x in lit["fields"])
            a = hirq.strip(fld.get("archives")) if fld.get("archives") else None
            ar = hirq.render(a) if a else ""
            if a is None or re.search(r"Vec::new\(\)|vec!\[\]|with_capacity|default\(\)", ar) or (a.get("k") == "call" and (a.get("fn") or "").endswith("Vec::new")):
                continue
            muts.append(lit)
            nm = a["res"].get("local") if a.get("k") == "path" else None
            sorted_ok = False
            for g in hirq.walk(body):
                if g.get("k") == "mcall" and g["m"] in STABLE_SORTS | {"sort_unstable_by", "sort_unstable_by_key", "sort_unstable"} and hirq.render(hirq.strip(g["recv"])) == nm and g["ln"] <= lit["ln"]:
                    try:
                        d, r = classify_sort(g)
                    except cmpeval.Unknown as e:
                        ctx.note_unarmed(R_sort, f.path, str(e))
                        continue
                    if g["m"] in STABLE_SORTS and d == "desc":
                        sorted_ok = True
                        ctx.ok(R_sort, {"fn": f.path, "sort": g["m"], "cmp": r, "feeds": "PatchChain{archives}"})
                    else:
                        ctx.bad(R_sort, "%s|%s|%s" % (f.path, g["m"], d), "%s:%d" % (f.file, g["ln"]),
                                "list handed to PatchChain sorted with `%s` (%s, %s)" % (r, g["m"], d), "must be stable and descending")
                        sorted_ok = True  # reported already
            if not sorted_ok:
                ctx.bad(R_sort, "%s|unsorted-literal" % f.path, "%s:%d" % (f.file, lit["ln"]), "PatchChain built from `%s` without a stable descending sort" % ar,
                        "order invariant not established at construction")
        if muts:
            mutators[f.path] = (f, muts)

    # rebuild after mutation (MIR)
    for path, (f, muts) in sorted(mutators.items()):
        if path == rebuild_path:
            continue
        cfg = mirg.Cfg(f)
        mut_blocks = []
        rebuild_blocks = []
        mapclear_blocks = []
        for bb, t in mirg.iter_calls(f):
            c = ncallee(t) or ""
            a0t = ""
            if t["a"] and t["a"][0][0] in ("c", "m"):
                a0t = mpq.ty(f.mir["locals"][mirg.plocal(t["a"][0][1])][0])
            if c.startswith("alloc::vec::Vec::") and VEC_T.search(a0t or "") and c.split("::")[-1] in ("insert", "remove", "push", "clear", "retain", "truncate", "swap_remove", "drain", "extend", "append", "pop"):
                mut_blocks.append((bb, c.split("::")[-1], t["ln"]))
            if c.startswith("core::slice::") and "sort" in c and VEC_T.search(a0t or ""):
                mut_blocks.append((bb, c.split("::")[-1], t["ln"]))
            if c == rebuild_path:
                rebuild_blocks.append(bb)
            if c.endswith("HashMap::clear"):
                mapclear_blocks.append(bb)
        for i, b in enumerate(f.mir["blocks"]):
            for st in b["s"]:
                if st[0] == "=" and st[2][0] == "agg" and isinstance(st[2][1], list) and st[2][1][0] == "adt" and st[2][1][1].endswith("patch_chain::PatchChain"):
                    # constructor literal: exempt when the archives operand is a fresh empty Vec
                    ops = st[2][2]
                    fresh = False
                    if ops and ops[0][0] in ("c", "m"):
                        ls, calls, _ = mirg.DefUse(f).slice_back(mirg.plocal(ops[0][1]), depth=3)
                        fresh = any((norm(mirg.callee(c)) or "").endswith("Vec::new") for c in calls) and len(calls) == 1
                    if not fresh:
                        mut_blocks.append((i, "PatchChain{..}", st[3]))
        exits = [bb for bb, kind, _ in rules.success_exit_blocks(f)]
        for bb, what, ln in mut_blocks:
            through = set(rebuild_blocks)
            if what == "clear":
                through |= set(mapclear_blocks)
            start_succ = cfg.succ[bb] if bb not in through else []   # statement-level mutation in the block that ends in the rebuild call
            reach = set()
            for s in start_succ:
                reach |= cfg.reachable(s, avoid=through)
            escaped = [e for e in exits if e in reach and e not in through]
            key = "%s|%s" % (path, what)
            # ... and an error exit neither: a failing step after the list was changed (a `?` inside the insertion loop) would return with
            # the map still indexing the list as it was
            any_ret = [i_ for i_, b_ in enumerate(f.mir["blocks"]) if b_["t"]["k"] == "return" and i_ in reach]
            if not escaped and any_ret:
                ctx.bad(R_rebuild, key + "|error-exit", "%s:%d" % (f.file, ln), "after `%s` the function can return (bb%d, an error path) without rebuild_file_map" % (what, any_ret[0]),
                        "a failure half-way leaves the archive list changed and the name→archive map indexing the old list: later lookups resolve names to the wrong archive or report files missing that the chain holds")
                continue
            if escaped:
                ctx.bad(R_rebuild, key, "%s:%d" % (f.file, ln), "after `%s` a success return (bb%d) is reachable without rebuild_file_map" % (what, escaped[0]),
                        "lookups would keep resolving names through a stale name→archive map")
            else:
                ctx.ok(R_rebuild, {"fn": path, "mutation": what, "line": ln})
        # the rebuild result must be ?-checked
        for bb, t in mirg.iter_calls(f):
            if ncallee(t) == rebuild_path and not rules.flows_to_check(f, None, mirg.plocal(t["d"])):
                ctx.bad(R_rebuild, "%s|rebuild-result-dropped" % path, "%s:%d" % (f.file, t["ln"]), "result of rebuild_file_map discarded", "a failed rebuild would be reported as success")

    # first-wins map
    rb = mpq.fns.get(rebuild_path)
    if rb is None:
        ctx.bad(R_first, "rebuild_file_map|missing", "-", "function not found", "mechanism gone")
    else:
        ctx.saw_fn(rb)
        body = hirq.body_of(rb)
        loops = [n for n in hirq.find(body, "for") if VEC_T.search(mpq.ty(n.get("it")) or "") or "archives" in hirq.render(n["iter"])]
        found = False
        for lp in loops:
            it = hirq.render(lp["iter"])
            rev = ".rev()" in it
            enumerated = "enumerate" in it
            ins = [n for n in hirq.walk(lp["body"]) if n.get("k") == "mcall" and n["m"] in ("or_insert", "or_insert_with", "insert", "try_insert")
                   and "HashMap" in ((mpq.ty(n.get("rt")) or "") + (mpq.ty(hirq.strip(n["recv"]).get("t")) or "")) or
                   (n.get("k") == "mcall" and n["m"] in ("or_insert", "or_insert_with"))]
            for n in ins:
                found = True
                first_wins = n["m"] in ("or_insert", "or_insert_with", "try_insert")
                # insert guarded by !contains_key is also first-wins
                if n["m"] == "insert":
                    guarded = any(g.get("k") == "if" and "contains_key" in hirq.render(g["c"]) and "!" in hirq.render(g["c"]) and n in list(hirq.walk(g["then"])) for g in hirq.find(lp["body"], "if"))
                    first_wins = guarded
                okp = (first_wins and not rev) or ((not first_wins) and rev)
                if okp and enumerated:
                    ctx.ok(R_first, {"iter": it, "insert": n["m"], "first_wins": first_wins, "reversed": rev})
                else:
                    ctx.bad(R_first, "rebuild_file_map|%s|rev=%s" % (n["m"], rev), "%s:%d" % (rb.file, n["ln"]),
                            "iterates `%s` and inserts with `%s`" % (it, n["m"]),
                            "with the list highest-first, overwriting inserts make the LOWEST priority archive win")
        if not found:
            ctx.bad(R_first, "rebuild_file_map|no-insert", rb.where, "no map insertion found in a loop over the archive list", "shape not recognised")
        # clear before rebuild
        if not any(n.get("k") == "mcall" and n["m"] == "clear" and "file_map" in hirq.render(n["recv"]) for n in hirq.walk(body)):
            ctx.bad(R_first, "rebuild_file_map|no-clear", rb.where, "file_map is not cleared before being rebuilt", "entries of removed archives would survive")

    # same key function
    def key_chain(expr):
        out = []
        e = hirq.strip(expr)
        while e and e.get("k") in ("mcall", "call"):
            out.append(norm(e.get("fn")) or e.get("m"))
            e = hirq.strip(e["recv"]) if e["k"] == "mcall" else (hirq.strip(e["args"][0]) if e["args"] else None)
        return tuple(out)

    chains = {}
    for f in fns:
        body = hirq.body_of(f)
        for n in hirq.walk(body):
            if n.get("k") == "mcall" and n["m"] in ("get", "contains_key", "entry", "get_mut", "remove", "insert") and "file_map" in hirq.render(n["recv"]) and n["args"]:
                k = hirq.strip(n["args"][0])
                if k.get("k") == "path" and "local" in k["res"]:
                    init = find_let_init(body, k["res"]["local"], n["ln"])
                    if init:
                        chains[(f.path, n["m"], n["ln"])] = key_chain(init)
                else:
                    chains[(f.path, n["m"], n["ln"])] = key_chain(k)
    ref = chains.get(next((k for k in chains if k[0] == rebuild_path), None))
    for (p, m, ln), ch in sorted(chains.items()):
        if p == rebuild_path:
            if ch:
                ctx.ok(R_key, {"site": p, "chain": ch})
            else:
                ctx.bad(R_key, "%s|no-normalisation" % p, "%s:%d" % (FILE, ln), "map keys are not normalised", "case/slash variants of a name would miss")
            continue
        if ref is not None and ch == ref:
            ctx.ok(R_key, {"site": p, "via": m, "chain": ch})
        else:
            ctx.bad(R_key, "%s|%s|key-chain" % (p, m), "%s:%d" % (FILE, ln), "lookup key built by %s but the map is built with %s" % (list(ch), list(ref or ())),
                    "a name present in the chain would be reported missing (or resolve differently) for some spellings")

    # the map only knows listed names: a by-name lookup also asks the archives the map did not credit with the name
    R_ask = ctx.rule("C08.lookup-asks-unlisted-archives", "every read lookup of the name map is accompanied, in the same function, by a search over the archive list that asks each higher-priority archive for the file itself (an archive without a complete listfile still serves its files by name and still overrides)", floor=1)
    for (p, m, ln), ch in sorted(chains.items()):
        if p == rebuild_path or m not in ("get", "contains_key"):
            continue
        f = mpq.fns.get(p)
        body = hirq.body_of(f)
        asks = None
        for n in hirq.walk(body):
            if n.get("k") == "mcall" and n["m"] in ("position", "find", "any", "find_map", "rposition", "filter", "take_while") and re.search(r"self\.archives", hirq.render(n["recv"])) and n.get("args"):
                if any(c.get("k") == "mcall" and c["m"] in ("find_file", "has_file", "contains_file", "find_file_info") for c in hirq.walk(n["args"][0])):
                    asks = n
        if asks is None:
            for n in hirq.find(body, "for") if hasattr(hirq, "find") else ():
                if re.search(r"self\.archives", hirq.render(n.get("iter") or n.get("e") or {})) and any(c.get("k") == "mcall" and c["m"] in ("find_file", "has_file") for c in hirq.walk(n.get("body") or {})):
                    asks = n
        if asks is not None:
            # the search must not be limited to archives *below* the listed one: the slice, if any, ends at the listed index
            r_ = hirq.render(asks["recv"]) if asks.get("recv") is not None else ""
            if re.search(r"self\.archives\[\(?[^.\]]+\.\.\s*\)?\]", r_) or re.search(r"\.skip\(", r_):
                ctx.bad(R_ask, "%s|asks-lower-priority-only" % p.split("::")[-1], "%s:%d" % (FILE, ln), "the archive search covers `%s`: the archives *after* the listed one" % r_[:80], "an unlisted file in a higher-priority archive is still shadowed by the listed lower-priority one")
            elif asks.get("k") == "mcall" and _narrowed_by(asks["args"][0], mpq) is not None:
                w_ = _narrowed_by(asks["args"][0], mpq)
                ctx.bad(R_ask, "%s|asks-only-some-archives" % p.split("::")[-1], "%s:%d" % (FILE, ln), "an archive that holds the file is still passed over when `%s` is %s" % (w_[0][:70], w_[1]),
                        "holding the file must be enough to be found: an archive excluded from the search by some other trait (it has a listfile, a flag, a priority) that holds the name unlisted no longer overrides the listed lower-priority archive, and a name only it holds is reported absent")
            else:
                ctx.ok(R_ask, {"lookup": p.split("::")[-1], "asks": r_[:100]})
        else:
            ctx.bad(R_ask, "%s|%s|map-only" % (p.split("::")[-1], m), "%s:%d" % (FILE, ln), "`file_map.%s` decides the lookup alone: no archive is asked for the file" % m,
                    "the map is built from listfiles: a file in an archive without a (complete) listfile is reported absent, and a higher-priority archive that holds the name unlisted does not override the listed lower-priority one")

    # apply_patch
    ap = mpq.fns.get("wow_mpq::patch::apply::apply_patch")
    if ap is None:
        ctx.bad(R_apply, "apply_patch|missing", "-", "function not found", "mechanism gone")
    else:
        ctx.saw_fn(ap)
        cfg = mirg.Cfg(ap)
        exits = [bb for bb, kind, _ in rules.success_exit_blocks(ap)]
        for vname in ("verify_base", "verify_patched"):
            vb = [(bb, t) for bb, t in mirg.iter_calls(ap) if (ncallee(t) or "").endswith("PatchFile::" + vname)]
            if not vb:
                ctx.bad(R_apply, "apply_patch|%s|missing" % vname, ap.where, "no call to %s" % vname, "patched bytes would be returned unverified")
                continue
            okp, w = cfg.must_pass([bb for bb, _ in vb], exits)
            checked = all(rules.flows_to_check(ap, None, mirg.plocal(t["d"])) for _, t in vb)
            problems = []
            if not okp:
                problems.append("success exit bb%s reachable without %s" % (w, vname))
            if not checked:
                problems.append("result of %s discarded" % vname)
            if vname == "verify_patched":
                der = rules.Derive(ap)
                for bb, t in vb:
                    roots = der.roots(t["a"][1])
                    if any(k == "param" and d for k, w_, d in roots):
                        problems.append("verify_patched is applied to an input parameter, not to the patch result")
                # must come after the transform calls
                tr = [bb for bb, t in mirg.iter_calls(ap) if re.search(r"apply_(copy|bsd0)_patch$", ncallee(t) or "")]
                for tb in tr:
                    okt, _ = cfg.must_pass([bb for bb, _ in vb], exits, start=tb)
                    if not okt:
                        problems.append("a success exit is reachable from the transform without passing verify_patched")
            if problems:
                ctx.bad(R_apply, "apply_patch|%s" % vname, ap.where, "; ".join(problems), "unverified bytes could be returned as the patched file")
            else:
                ctx.ok(R_apply, {"fn": ap.path, "verifier": vname, "lines": [t["ln"] for _, t in vb]})

    # digest verifiers
    for vname, fld, other in (("verify_base", "md5_before", "md5_after"), ("verify_patched", "md5_after", "md5_before")):
        vf = mpq.fns.get("wow_mpq::patch::header::PatchFile::" + vname)
        if vf is None:
            ctx.bad(R_digest, "%s|missing" % vname, "-", "function not found", "mechanism gone")
            continue
        ctx.saw_fn(vf)
        body = hirq.body_of(vf)
        # decided on the CFG (independent of how the comparison is spelled or which arm comes first): find the one comparison
        # of the computed digest with a header digest field; on its *unequal* successor every reachable result is an Err, and
        # an Ok is reachable only through the *equal* successor
        good = False
        why = "no comparison of the computed digest with self.header.%s found" % fld
        cfg = mirg.Cfg(vf)
        blocks = vf.mir["blocks"]
        rets = rules.ret_assignments(vf)
        cmp_sites = []          # (bb, result_local, sense)  sense: True = result is "equal"
        for bb_, b_ in enumerate(blocks):
            for st_ in b_["s"]:
                if st_[0] == "=" and st_[2][0] == "bin" and st_[2][1] in ("Eq", "Ne"):
                    cmp_sites.append((bb_, mirg.plocal(st_[1]), st_[2][1] == "Eq", st_[3]))
            t_ = b_["t"]
            if t_["k"] == "call" and re.search(r"::(eq|ne)$", ncallee(t_) or "") and "fmt" not in (ncallee(t_) or ""):
                cmp_sites.append((bb_, mirg.plocal(t_["d"]), (ncallee(t_) or "").endswith("::eq"), t_["ln"]))
        # which field the comparison reads (typed HIR: the field named in a ==/!= with the digest)
        cmp_fields = set()
        for x in hirq.walk(body):
            if x.get("k") == "bin" and x["op"] in ("==", "!="):
                for y in hirq.walk(x):
                    if y.get("k") == "field" and y["name"] in (fld, other):
                        cmp_fields.add(y["name"])
        if other in cmp_fields and fld not in cmp_fields:
            why = "compares against `%s` instead of `%s`" % (other, fld)
        elif fld not in cmp_fields:
            why = "no ==/!= involving self.header.%s" % fld
        else:
            for bb_, rl, sense, ln_ in cmp_sites:
                # follow the bool through Not / copies to the switch that branches on it
                cur, flip = {rl}, {rl: False}
                sw = None
                for _ in range(6):
                    for b2i, b2 in enumerate(blocks):
                        for st_ in b2["s"]:
                            if st_[0] == "=" and mirg.plocal(st_[1]) not in flip:
                                ops_ = [mirg.op_local(o) for o in mirg.rvalue_operands(st_[2])]
                                src = next((o for o in ops_ if o in flip), None)
                                if src is not None and st_[2][0] in ("use", "un"):
                                    flip[mirg.plocal(st_[1])] = flip[src] ^ (st_[2][0] == "un" and st_[2][1] == "Not")
                        t2 = b2["t"]
                        if t2["k"] == "switch" and mirg.op_local(t2["d"]) in flip and sw is None:
                            sw = (b2i, t2, flip[mirg.op_local(t2["d"])])
                if sw is None:
                    continue
                b2i, t2, flipped = sw
                zero_target = next((tg for v_, tg in t2["ts"] if v_ == 0), None)
                other_target = t2["o"]
                # value 0 == false
                equal_is_true = sense ^ flipped
                unequal_succ = zero_target if equal_is_true else other_target
                equal_succ = other_target if equal_is_true else zero_target
                if unequal_succ is None or equal_succ is None:
                    continue
                reach_u = cfg.reachable(unequal_succ, avoid={equal_succ} if False else ())
                reach_e = cfg.reachable(equal_succ)
                kinds_u = [k_ for bb2, k_, _p in rets if bb2 in reach_u and bb2 not in (cfg.reachable(equal_succ) & cfg.reachable(unequal_succ) if False else set())]
                # results that are assigned on paths exclusive to the unequal side
                excl_u = reach_u - reach_e
                kinds_excl = [k_ for bb2, k_, _p in rets if bb2 in excl_u]
                ok_on_unequal = any(k_ in ("ok",) for k_ in kinds_excl)
                err_on_unequal = any(k_ in ("err", "residual") for k_ in kinds_excl) or any(k_ in ("err",) for bb2, k_, _p in rets if bb2 in reach_u and bb2 not in reach_e)
                shared = reach_u & reach_e
                ok_shared = any(k_ == "ok" for bb2, k_, _p in rets if bb2 in shared)
                # an Ok result must be unreachable once the "digests are equal" edge is removed from the graph
                seen_, work_ = {0}, [0]
                while work_:
                    x_ = work_.pop()
                    for sc_ in mirg.succs(blocks[x_]["t"]):
                        if sc_ is None or sc_ in seen_ or (x_ == b2i and sc_ == equal_succ):
                            continue
                        seen_.add(sc_)
                        work_.append(sc_)
                ok_without_equal = [bb2 for bb2, k_, _p in rets if k_ == "ok" and bb2 in seen_]
                if ok_without_equal:
                    why = "an Ok result (bb%d) is reachable without the digests having compared equal" % ok_without_equal[0]
                elif err_on_unequal and not ok_on_unequal and not ok_shared:
                    good = True
                else:
                    why = "on the path where the digests differ the function can still produce Ok (unequal side results: %s%s)" % (kinds_excl, ", plus a shared Ok" if ok_shared else "")
        params = [b for p in vf.hir["params"] for b in hirq.pat_binds(p)]
        upd = [n for n in hirq.walk(body) if n.get("k") == "mcall" and n["m"] in ("update", "chain_update", "digest") or (n.get("k") == "call" and (n.get("fn") or "").endswith("::digest"))]
        hashed_param = any(any(hirq.render(hirq.strip(a)) == params[-1] for a in n["args"]) for n in upd) if params else False
        if good and hashed_param:
            ctx.ok(R_digest, {"fn": vf.path, "digest_field": fld})
        else:
            ctx.bad(R_digest, "%s|digest-compare" % vname, vf.where, why if not good else "the hashed bytes are not the function's argument",
                    "a patch result (or base) with the wrong digest would be accepted")

    # no patch dropped
    rp = mpq.fns.get("wow_mpq::patch_chain::PatchChain::read_patched_file")
    if rp is None:
        ctx.bad(R_drop, "read_patched_file|missing", "-", "function not found", "mechanism gone")
    else:
        ctx.saw_fn(rp)
        body = hirq.body_of(rp)
        n_arms = 0
        for mt in hirq.find(body, "match"):
            scr = hirq.render(mt["e"])
            for arm in mt["arms"]:
                ctor = hirq.pat_ctor(arm["pat"])
                if not hirq.is_err_ctor(ctor):
                    continue
                n_arms += 1
                exits_ = [x for x in hirq.walk(arm["body"]) if x.get("k") in ("ret", "try", "break") ]
                what = "patch-read" if "read_patch_file_raw" in scr else "patch-parse" if "parse" in scr else "base-read" if "read_file" in scr else "other"
                if what == "base-read":
                    # falling back to a lower-priority base is sound: the base that is finally used must still pass verify_base (R_apply)
                    ctx.ok(R_drop, {"fn": rp.path, "scrutinee": scr, "arm": "base fallback; digest-checked by verify_base"})
                elif exits_:
                    ctx.ok(R_drop, {"fn": rp.path, "scrutinee": scr, "arm": "Err propagates"})
                else:
                    ctx.bad(R_drop, "read_patched_file|Err-arm|%s" % what, "%s:%d" % (rp.file, arm["ln"]),
                            "`match %s` handles Err by logging only; the function goes on and can return Ok" % scr,
                            "a corrupt or unreadable winning patch is skipped and the unpatched (unverified) base is returned as the file's content")
        for lx in hirq.find(body, "letx"):
            pass
        if n_arms == 0:
            ctx.ok(R_drop, {"fn": rp.path, "note": "no Err-handling arm: all errors propagate"})

    # parallel loaders
    from .c09 import chains as rayon_chains, ROOTS, ADAPTERS
    for f in fns:
        body = hirq.body_of(f)
        for ch in rayon_chains(body):
            names = ch["names"]
            tt = mpq.ty(ch["terminal"].get("t")) or ""
            okp = names[0] in ROOTS and all(m in ADAPTERS for m in names[1:-1]) and names[-1] == "collect" and "alloc::vec::Vec<" in tt
            if okp:
                ctx.ok(R_par, {"fn": f.path, "chain": ".".join(names)})
            else:
                ctx.bad(R_par, "%s|pipeline" % f.path, "%s:%d" % (f.file, ch["root"]["ln"]), "pipeline %s into `%s`" % (".".join(names), tt),
                        "archives loaded in parallel could enter the stable sort in a schedule-dependent order, changing who wins priority ties")
