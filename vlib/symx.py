"""E5 — symbolic expression extraction from typed HIR and AC-normalised comparison.

Evaluates a straight-line function body (with `if` merged into ite, one symbolic iteration of a
`for`/`loop` body) into expressions over the inputs, normalises associative/commutative
operators, drops value-preserving casts, and renders a canonical string.  No solver: two kernels
agree iff their canonical forms are syntactically equal.
"""
from . import hirq

AC = {"add", "xor", "or", "and", "mul"}
BIN = {"+": "add", "-": "sub", "*": "mul", "^": "xor", "|": "or", "&": "and", "<<": "shl", ">>": "shr",
       "==": "eq", "!=": "ne", "<": "lt", "<=": "le", ">": "gt", ">=": "ge", "%": "rem", "/": "div", "&&": "land", "||": "lor"}
METH = {"wrapping_add": "add", "wrapping_sub": "sub", "wrapping_mul": "mul", "rotate_left": "rotl", "rotate_right": "rotr",
        "wrapping_shl": "shl", "wrapping_shr": "shr", "wrapping_neg": "neg", "overflowing_add": "add"}


def const(v):
    return ("const", v)


def var(n):
    return ("var", n)


def op(name, *args):
    args = list(args)
    if name in AC:
        flat = []
        for a in args:
            if a[0] == "op" and a[1] == name:
                flat.extend(a[2:])
            else:
                flat.append(a)
        # constant folding of small things is deliberately NOT done: literals are part of the kernel's identity
        flat.sort(key=render)
        return ("op", name) + tuple(flat)
    if name in ("eq", "ne") and len(args) == 2:
        # commutative, not associative: operands ordered, no flattening
        args.sort(key=render)
    return ("op", name) + tuple(args)


def render(e):
    if e[0] == "const":
        return "0x%X" % e[1] if isinstance(e[1], int) and e[1] >= 0 else str(e[1])
    if e[0] == "var":
        return e[1]
    if e[0] == "op":
        return "%s(%s)" % (e[1], ", ".join(render(a) for a in e[2:]))
    return str(e)


class Sym:
    def __init__(self, consts=None, table_names=None):
        self.env = {}
        self.consts = consts or {}       # def path -> int value (named constants are inlined)
        self.events = []                 # side effects: ('store', target_expr, value_expr)
        self.unknown = []
        self.inline = None               # optional {def path: Fn}: crate-local helpers evaluated in place of `call:name(..)`
        self.depth = 0

    def path(self, n):
        r = n["res"]
        if "local" in r:
            return self.env.get(r["local"], var(r["local"]))
        d = r.get("def", "?")
        if d in self.consts and isinstance(self.consts[d], int):
            return const(self.consts[d])
        return var(d.split("::")[-1])

    def ev(self, n):
        n = hirq.strip(n) if n.get("k") != "ref" else hirq.strip(n)
        k = n.get("k")
        if k == "lit":
            v = n["v"]
            if "int" in v:
                return const(v["int"])
            if "char" in v:
                return const(ord(v["char"]))
            if "bool" in v:
                return const(1 if v["bool"] else 0)
            return ("const", repr(v))
        if k == "path":
            return self.path(n)
        if k == "cast":
            return self.ev(n["e"])       # width-changing casts are transparent for these kernels (all u8→u32→usize widenings or masks made explicit)
        if k == "bin":
            o = BIN.get(n["op"], n["op"])
            return op(o, self.ev(n["l"]), self.ev(n["r"]))
        if k == "un":
            if n["op"] == "Not":
                return op("not", self.ev(n["e"]))
            if n["op"] == "Neg":
                return op("neg", self.ev(n["e"]))
            return self.ev(n["e"])
        if k == "index":
            return op("index", self.ev(n["e"]), self.ev(n["i"]))
        if k == "field":
            return op("field:" + n["name"], self.ev(n["e"]))
        if k == "mcall":
            m = n["m"]
            if m in METH:
                return op(METH[m], self.ev(n["recv"]), *[self.ev(a) for a in n["args"]])
            if m in ("into", "clone", "to_owned", "as_ref", "borrow", "as_usize", "unwrap"):
                return self.ev(n["recv"])
            return op("call:" + m, self.ev(n["recv"]), *[self.ev(a) for a in n["args"]])
        if k == "call":
            nm = (n.get("fn") or n.get("flocal") or "?").split("::")
            name = "::".join(nm[-2:]) if len(nm) > 1 and nm[-2][:1].isupper() else nm[-1]
            if name.endswith("from") and len(n["args"]) == 1:
                return self.ev(n["args"][0])
            callee = self.inline.get(n.get("fn")) if self.inline and n.get("fn") else None
            if callee is not None and callee.hir and self.depth < 3:
                sub = Sym(self.consts)
                sub.inline, sub.depth = self.inline, self.depth + 1
                args = [self.ev(a) for a in n["args"]]
                names = [b for p in callee.hir["params"] for b in hirq.pat_binds(p)]
                if len(names) == len(args):
                    sub.env = dict(zip(names, args))
                    body = callee.hir["body"]
                    r = sub.block(body) if body.get("k") == "block" else sub.ev(body)
                    if r is not None and not any(e[0] in ("ret",) for e in sub.events):
                        return r
            return op("call:" + name, *[self.ev(a) for a in n["args"]])
        if k == "block":
            return self.block(n)
        if k == "if":
            return self.if_(n)
        if k == "tup":
            return op("tup", *[self.ev(e) for e in n["es"]])
        if k == "try":
            return self.ev(n["e"])
        self.unknown.append(k)
        return ("var", "?" + str(k))

    def assign(self, lhs, val):
        l = hirq.strip(lhs)
        if l.get("k") == "path" and "local" in l["res"]:
            self.env[l["res"]["local"]] = val
        else:
            self.events.append(("store", self.ev(l), val))

    def stmt(self, s):
        k = s.get("k")
        if k == "let":
            if s.get("init") is not None:
                v = self.ev(s["init"])
                p = s["pat"]
                if p.get("k") == "bind":
                    self.env[p["name"]] = v
                elif p.get("k") == "tuple" and v[0] == "op" and v[1] == "tup":
                    for sub, x in zip(p["subs"], v[2:]):
                        if sub.get("k") == "bind":
                            self.env[sub["name"]] = x
            return None
        if k == "assign":
            self.assign(s["l"], self.ev(s["r"]))
            return None
        if k == "assignop":
            o = BIN.get(s["op"].rstrip("="), s["op"])
            self.assign(s["l"], op(o, self.ev(s["l"]), self.ev(s["r"])))
            return None
        if k == "if":
            return self.if_(s)
        if k == "for":
            return self.loop_body(s)
        if k == "loop":
            return self.block(s["body"])
        if k in ("ret", "break", "continue"):
            if s.get("e") is not None:
                self.events.append((k, self.ev(s["e"])))
            else:
                self.events.append((k,))
            return None
        if k == "block":
            return self.block(s)
        return self.ev(s)

    def block(self, b):
        for s in b.get("stmts", []):
            self.stmt(s)
        if b.get("e") is not None:
            return self.stmt(b["e"]) if b["e"].get("k") in ("if", "for", "loop", "block", "assign", "assignop", "ret", "break", "continue") else self.ev(b["e"])
        return None

    def if_(self, n):
        c = self.ev(n["c"])
        base = dict(self.env)
        ev0 = len(self.events)
        tv = self.stmt(n["then"]) if n["then"].get("k") == "block" else self.ev(n["then"])
        tenv = self.env
        tevents = self.events[ev0:]
        self.events = self.events[:ev0]
        self.env = dict(base)
        fv = None
        if n.get("else") is not None:
            fv = self.stmt(n["else"]) if n["else"].get("k") in ("block", "if") else self.ev(n["else"])
        fenv = self.env
        fevents = self.events[ev0:]
        self.events = self.events[:ev0]
        merged = {}
        for key in set(tenv) | set(fenv):
            a = tenv.get(key, base.get(key, var(key)))
            b = fenv.get(key, base.get(key, var(key)))
            merged[key] = a if a == b else op("ite", c, a, b)
        self.env = merged
        if tevents or fevents:
            self.events.append(("if", c, tuple(tevents), tuple(fevents)))
        if tv is not None and fv is not None:
            return tv if tv == fv else op("ite", c, tv, fv)
        return None

    def loop_body(self, n):
        """one symbolic iteration: carried variables start as themselves"""
        carried = set()
        for x in hirq.walk(n["body"]):
            if x.get("k") in ("assign", "assignop"):
                l = hirq.strip(x["l"])
                if l.get("k") == "path" and "local" in l["res"]:
                    carried.add(l["res"]["local"])
        saved = dict(self.env)
        self.pre_loop = dict(self.env)
        for c in carried:
            self.env[c] = var(c)
        for b in hirq.pat_binds(n["pat"]):
            self.env[b] = var(b)
        self.stmt(n["body"]) if n["body"].get("k") == "block" else self.ev(n["body"])
        self.loop_env = dict(self.env)
        self.carried = carried
        return None


def eval_fn(fn, consts=None, inline=None):
    """evaluate a whole function body; returns Sym (env = final bindings, loop_env = after one loop iteration)"""
    s = Sym(consts)
    s.inline = inline
    for p in fn.hir["params"]:
        for b in hirq.pat_binds(p):
            s.env[b] = var(b)
    body = fn.hir["body"]
    s.ret = s.block(body) if body.get("k") == "block" else s.ev(body)
    return s
