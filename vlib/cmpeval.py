"""E5 (comparators): classify a comparison expression by its truth table over the three orderings
of the two quantities it compares — values touched only through comparisons form a finite domain."""
from . import hirq

LESS, EQUAL, GREATER = -1, 0, 1


class Unknown(Exception):
    pass


def _atoms(n, out):
    """collect the leaf quantities being compared (rendered), in order of appearance"""
    n = hirq.strip(n)
    k = n.get("k")
    if k == "bin" and n["op"] in ("<", "<=", ">", ">=", "==", "!=", "&&", "||"):
        _atoms(n["l"], out)
        _atoms(n["r"], out)
    elif k == "un" and n["op"] == "Not":
        _atoms(n["e"], out)
    elif k == "mcall" and n["m"] in ("cmp", "partial_cmp", "lt", "le", "gt", "ge", "eq", "ne"):
        _atoms(n["recv"], out)
        _atoms(n["args"][0], out)
    elif k == "mcall" and n["m"] in ("is_lt", "is_le", "is_gt", "is_ge", "is_eq", "is_ne", "reverse", "unwrap", "then", "then_with"):
        _atoms(n["recv"], out)
    elif k == "call" and (n.get("fn") or "").endswith("cmp::Reverse"):
        _atoms(n["args"][0], out)
    elif k == "cast":
        _atoms(n["e"], out)
    elif k == "block" and not n.get("stmts") and n.get("e"):
        _atoms(n["e"], out)
    elif k == "path" and "def" in n["res"] and n["res"]["def"].split("::")[-1] in ("Less", "Equal", "Greater"):
        pass
    elif k == "lit":
        pass
    else:
        r = hirq.render(n)
        if r not in out:
            out.append(r)


def atoms(n):
    out = []
    _atoms(n, out)
    return out


def evaluate(n, env):
    """env: rendered atom -> integer stand-in.  returns bool or ordering int (LESS/EQUAL/GREATER)"""
    n = hirq.strip(n)
    k = n.get("k")
    if k == "block" and not n.get("stmts") and n.get("e"):
        return evaluate(n["e"], env)
    if k == "bin":
        op = n["op"]
        if op in ("&&", "||"):
            a, b = evaluate(n["l"], env), evaluate(n["r"], env)
            return (a and b) if op == "&&" else (a or b)
        a, b = value(n["l"], env), value(n["r"], env)
        return {"<": a < b, "<=": a <= b, ">": a > b, ">=": a >= b, "==": a == b, "!=": a != b}[op]
    if k == "un" and n["op"] == "Not":
        return not evaluate(n["e"], env)
    if k == "mcall":
        m = n["m"]
        if m in ("lt", "le", "gt", "ge", "eq", "ne"):
            a, b = value(n["recv"], env), value(n["args"][0], env)
            return {"lt": a < b, "le": a <= b, "gt": a > b, "ge": a >= b, "eq": a == b, "ne": a != b}[m]
        if m in ("cmp",):
            a, b = value(n["recv"], env), value(n["args"][0], env)
            return (a > b) - (a < b)
        if m == "partial_cmp":
            a, b = value(n["recv"], env), value(n["args"][0], env)
            return (a > b) - (a < b)
        if m == "unwrap":
            return evaluate(n["recv"], env)
        if m == "reverse":
            return -evaluate(n["recv"], env)
        if m in ("is_lt", "is_le", "is_gt", "is_ge", "is_eq", "is_ne"):
            o = evaluate(n["recv"], env)
            return {"is_lt": o < 0, "is_le": o <= 0, "is_gt": o > 0, "is_ge": o >= 0, "is_eq": o == 0, "is_ne": o != 0}[m]
    raise Unknown(hirq.render(n))


def value(n, env):
    n = hirq.strip(n)
    k = n.get("k")
    if k == "cast":
        return value(n["e"], env)
    if k == "path" and "def" in n["res"]:
        last = n["res"]["def"].split("::")[-1]
        if last in ("Less", "Equal", "Greater"):
            return {"Less": LESS, "Equal": EQUAL, "Greater": GREATER}[last]
    if k == "mcall" and n["m"] in ("cmp", "partial_cmp", "reverse", "unwrap"):
        return evaluate(n, env)
    if k == "call" and (n.get("fn") or "").endswith("cmp::Reverse"):
        return -value(n["args"][0], env)
    if k == "lit" and "int" in n["v"]:
        return n["v"]["int"]
    r = hirq.render(n)
    if r in env:
        return env[r]
    raise Unknown(r)


def truth_table(n, a, b):
    """evaluate n under a<b, a=b, a>b (a, b are rendered atoms). returns dict lt/eq/gt -> result"""
    out = {}
    for name, (va, vb) in (("lt", (1, 2)), ("eq", (2, 2)), ("gt", (3, 2))):
        out[name] = evaluate(n, {a: va, b: vb})
    return out


def closure_body(c):
    b = c["body"]
    b = hirq.strip(b)
    while b.get("k") == "block" and not b.get("stmts") and b.get("e"):
        b = hirq.strip(b["e"])
    return b
