"""E2/E3 primitives over the MIR facts: CFG, dominators, reachability, def-use slices, call graph."""
from collections import defaultdict, deque


def plocal(place):
    return place if isinstance(place, int) else place[0]


def pproj(place):
    return [] if isinstance(place, int) else place[1]


def op_local(op):
    """local read by an operand (None for constants)"""
    if op[0] in ("c", "m"):
        return plocal(op[1])
    return None


def op_const(op):
    return op[1] if op[0] == "k" else None


def op_int(op):
    c = op_const(op)
    if c is not None and "int" in c:
        return c["int"]
    return None


def callee(term):
    """resolved callee path of a call terminator, or None for indirect calls"""
    f = term["f"]
    c = op_const(f)
    if c is None:
        return None
    return c.get("fn") or c.get("closure")


def callee_decl(term):
    c = op_const(term["f"])
    if c is None:
        return None
    return c.get("decl") or c.get("fn")


def succs(term, unwind=False):
    k = term["k"]
    out = []
    if k == "goto":
        out = [term["t"]]
    elif k == "switch":
        out = [b for _, b in term["ts"]] + [term["o"]]
    elif k in ("drop", "assert"):
        out = [term["t"]]
    elif k == "call":
        out = [term["t"]] if term.get("t") is not None else []
    elif k == "other":
        out = list(term.get("succ", []))
    if unwind and term.get("u") is not None:
        out.append(term["u"])
    return out


class Cfg:
    def __init__(self, fn, unwind=False):
        self.fn = fn
        self.blocks = fn.mir["blocks"]
        n = len(self.blocks)
        self.n = n
        self.succ = [[] for _ in range(n)]
        self.pred = [[] for _ in range(n)]
        for i, b in enumerate(self.blocks):
            if b.get("cl") and not unwind:
                continue
            for s in succs(b["t"], unwind):
                if s not in self.succ[i]:
                    self.succ[i].append(s)
                    self.pred[s].append(i)
        self._dom = None
        self._pdom = None

    def reachable(self, start=0, avoid=()):
        seen = set()
        dq = deque([start])
        avoid = set(avoid)
        while dq:
            b = dq.popleft()
            if b in seen or b in avoid:
                continue
            seen.add(b)
            dq.extend(self.succ[b])
        return seen

    def reaches(self, target_blocks, avoid=()):
        """set of blocks from which some block in target_blocks is reachable without passing `avoid`"""
        seen = set()
        avoid = set(avoid)
        dq = deque(t for t in target_blocks if t not in avoid)
        while dq:
            b = dq.popleft()
            if b in seen:
                continue
            seen.add(b)
            for p in self.pred[b]:
                if p not in avoid:
                    dq.append(p)
        return seen

    def returns(self):
        return [i for i, b in enumerate(self.blocks) if b["t"]["k"] == "return" and not b.get("cl")]

    def dominators(self):
        """dom[b] = set of blocks dominating b (iterative; functions are small)"""
        if self._dom is not None:
            return self._dom
        reach = self.reachable(0)
        order = self._rpo(0, self.succ)
        dom = {b: None for b in reach}
        dom[0] = {0}
        changed = True
        while changed:
            changed = False
            for b in order:
                if b == 0:
                    continue
                ps = [dom[p] for p in self.pred[b] if p in dom and dom[p] is not None]
                if not ps:
                    continue
                new = set.intersection(*ps) | {b}
                if new != dom[b]:
                    dom[b] = new
                    changed = True
        self._dom = {b: (d or {b}) for b, d in dom.items()}
        return self._dom

    def _rpo(self, start, succ):
        seen = set()
        out = []
        stack = [(start, iter(succ[start]))]
        seen.add(start)
        while stack:
            b, it = stack[-1]
            adv = False
            for s in it:
                if s not in seen:
                    seen.add(s)
                    stack.append((s, iter(succ[s])))
                    adv = True
                    break
            if not adv:
                out.append(b)
                stack.pop()
        out.reverse()
        return out

    def dominates(self, a, b):
        d = self.dominators()
        return b in d and a in d[b]

    def must_pass(self, through, targets, start=0):
        """True iff every path start -> any of `targets` passes a block in `through`.
        Returns (ok, witness_target)"""
        reach = self.reachable(start, avoid=through)
        for t in targets:
            if t in reach:
                return False, t
        return True, None

    def path(self, start, goal, avoid=()):
        """one shortest block path start->goal avoiding `avoid` (for diagnostics)"""
        avoid = set(avoid)
        prev = {start: None}
        dq = deque([start])
        while dq:
            b = dq.popleft()
            if b == goal:
                out = []
                while b is not None:
                    out.append(b)
                    b = prev[b]
                return out[::-1]
            for s in self.succ[b]:
                if s not in prev and s not in avoid:
                    prev[s] = b
                    dq.append(s)
        return None


def iter_calls(fn):
    for i, b in enumerate(fn.mir["blocks"]):
        t = b["t"]
        if t["k"] == "call":
            yield i, t


def rvalue_operands(rv):
    k = rv[0]
    if k in ("use",):
        return [rv[1]]
    if k == "repeat":
        return [rv[1]]
    if k in ("ref", "refmut", "rawptr", "discr"):
        return [["c", rv[1]]]
    if k == "cast":
        return [rv[2]]
    if k == "bin":
        return [rv[2], rv[3]]
    if k == "un":
        return [rv[2]]
    if k == "agg":
        return list(rv[2])
    return []


class DefUse:
    """flow-insensitive def-use over locals of one body"""

    def __init__(self, fn):
        self.fn = fn
        self.defs = defaultdict(list)   # local -> list of (bb, kind, payload)
        for i, b in enumerate(fn.mir["blocks"]):
            for st in b["s"]:
                if st[0] == "=":
                    self.defs[plocal(st[1])].append((i, "assign", st))
            t = b["t"]
            if t["k"] == "call":
                self.defs[plocal(t["d"])].append((i, "call", t))

    def slice_back(self, local, depth=12, through_calls=True, through_index=True):
        """locals / calls / consts that (transitively) feed `local`.
        returns (locals:set, calls:list[term], ints:set)"""
        seen = set()
        calls = []
        ints = set()
        stack = [(local, 0)]
        while stack:
            l, d = stack.pop()
            if l in seen or d > depth:
                continue
            seen.add(l)
            for _bb, kind, payload in self.defs.get(l, []):
                if kind == "assign":
                    for op in rvalue_operands(payload[2]):
                        ol = op_local(op)
                        if ol is not None:
                            stack.append((ol, d + 1))
                        else:
                            v = op_int(op)
                            if v is not None:
                                ints.add(v)
                            # index projections read another local
                        if op[0] in ("c", "m") and through_index:
                            for pr in pproj(op[1]):
                                if isinstance(pr, list) and pr[0] == "i":
                                    stack.append((pr[1], d + 1))
                else:
                    calls.append(payload)
                    if through_calls:
                        for a in payload["a"]:
                            ol = op_local(a)
                            if ol is not None:
                                stack.append((ol, d + 1))
                            else:
                                v = op_int(a)
                                if v is not None:
                                    ints.add(v)
        return seen, calls, ints


class CallGraph:
    def __init__(self, crates):
        self.fns = {}
        for c in crates:
            for f in c.fn_list:
                self.fns.setdefault(f.path, f)
        self.out = defaultdict(set)
        self.sites = defaultdict(list)   # caller -> [(bb, term, callee)]
        self.callers = defaultdict(set)
        # trait-method impls for unresolved (dyn / generic) calls
        self.impls_of_decl = defaultdict(set)
        for f in self.fns.values():
            tr = f.get("trait")
            if tr:
                name = f.path.rsplit("::", 1)[-1]
                self.impls_of_decl[tr + "::" + name].add(f.path)
        for f in self.fns.values():
            for bb, t in iter_calls(f):
                c = op_const(t["f"])
                tgt = set()
                if c is not None:
                    p = c.get("fn")
                    if p:
                        if c.get("res", True):
                            tgt.add(p)
                        else:
                            tgt |= self.impls_of_decl.get(c.get("decl", p), set()) or {p}
                    # closures passed as arguments are attached below
                for a in [t["f"]] + t["a"]:
                    ac = op_const(a)
                    if ac is not None and ac.get("closure"):
                        tgt.add(ac["closure"])
                    if ac is not None and ac.get("fn") and a is not t["f"]:
                        tgt.add(ac["fn"])   # fn item passed as value
                for p in tgt:
                    self.out[f.path].add(p)
                    self.callers[p].add(f.path)
                    self.sites[f.path].append((bb, t, p))
            # closures created in the body belong to it
            for cl in f.closures:
                self.out[f.path].add(cl.path)
                self.callers[cl.path].add(f.path)
        # closures whose root is known
        for f in self.fns.values():
            if f.kind == "Closure" and f.root:
                self.out[f.root].add(f.path)
                self.callers[f.path].add(f.root)

    def reachable(self, roots, stop=()):
        seen = set()
        dq = deque(roots)
        stop = set(stop)
        while dq:
            p = dq.popleft()
            if p in seen or p in stop:
                continue
            seen.add(p)
            dq.extend(self.out.get(p, ()))
        return seen

    def local_reachable(self, roots, stop=()):
        return {p for p in self.reachable(roots, stop) if p in self.fns}
