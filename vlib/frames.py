"""Offset-frame analysis for MPQ code: every byte position is either ABSolute (offset in the container file),
RELative (offset from the start of the archive, as stored in the header and the block table) or a SIZE.

A tiny dimension/type inference over the typed HIR of one function:
    BASE            the archive's offset in the container (`archive_offset`)
    REL             header table positions, block-table `file_pos`, BET `file_pos`
    ABS             `FileInfo.file_pos`, `stream_position()`, BASE + REL
    SIZE            sizes, lengths, counts, literals other than 0
    NEUTRAL         literal 0 / unknown-but-harmless (fits any frame)
    UNK             anything else (never reported)
rules:  BASE + REL = ABS,  ABS - BASE = REL,  X ± SIZE = X,  max/min/compare(ABS, REL) = clash,
        SeekFrom::Start(REL) = clash when the function also handles BASE,  key position must be REL.
A clash is a report; UNK never is.  This decides a necessary condition of every property that stores or compares
positions (C01/C02 key position, C06 append position, C12 table placement): mixing frames is only harmless for
archives that start at offset 0, which is what the existing tests use."""
import re

from . import hirq

ABS, REL, SIZE, BASE, NEUTRAL, UNK = "ABS", "REL", "SIZE", "BASE", "NEUTRAL", "UNK"

REL_NAMES = re.compile(r"^(get_)?(hash_table_pos|block_table_pos|het_table_pos|bet_table_pos|hi_block_table_pos)$")
SIZE_NAMES = re.compile(r"(_size|_len|_count|^size|^len|^count|compressed_size|file_size|sector_size|header_size|archive_size)")


class Frames:
    def __init__(self, crate, fn):
        self.crate = crate
        self.fn = fn
        self.env = {}
        self.clashes = []          # (line, what)
        self.saw_base = False
        self.checked = 0

    def ty(self, n):
        t = n.get("t") if isinstance(n, dict) else None
        return (self.crate.ty(t) or "") if t is not None else ""

    def join(self, a, b):
        if a == b:
            return a
        if a == NEUTRAL:
            return b
        if b == NEUTRAL:
            return a
        return UNK

    def ev(self, n):
        n = hirq.strip(n)
        k = n.get("k")
        if k == "cast":
            return self.ev(n["e"])
        if k == "lit":
            v = n["v"].get("int")
            return NEUTRAL if v == 0 else SIZE
        if k == "path":
            r = n["res"]
            if "local" in r:
                nm = r["local"]
                if nm == "archive_offset":
                    self.saw_base = True
                    return BASE
                return self.env.get(nm, SIZE if SIZE_NAMES.search(nm) else UNK)
            return SIZE if "def" in r and re.search(r"SIZE|LEN|COUNT", r["def"].split("::")[-1]) else UNK
        if k == "field":
            nm = n["name"]
            if nm == "archive_offset":
                self.saw_base = True
                return BASE
            if REL_NAMES.match(nm):
                return REL
            if nm == "file_pos":
                bt = self.ty(hirq.strip(n["e"]))
                if re.search(r"FileInfo", bt):
                    return ABS
                if re.search(r"BlockEntry|BetFileInfo|BetEntry|FileEntry", bt):
                    return REL
                return UNK
            if SIZE_NAMES.search(nm):
                return SIZE
            return UNK
        if k == "mcall":
            m = n["m"]
            if m == "archive_offset":
                self.saw_base = True
                return BASE
            if REL_NAMES.match(m):
                return REL
            if m == "stream_position":
                return ABS
            if m in ("len", "count", "size", "sector_size"):
                return SIZE
            if m in ("max", "min") and len(n["args"]) == 1:
                a, b = self.ev(n["recv"]), self.ev(n["args"][0])
                self.checked += 1
                if {a, b} == {ABS, REL}:
                    self.clashes.append((n.get("ln"), "%s of an absolute and an archive-relative position: `%s`" % (m, hirq.render(n)[:90])))
                    return UNK
                return self.join(a, b)
            if m in ("wrapping_add", "saturating_add", "checked_add", "wrapping_sub", "saturating_sub", "checked_sub") and len(n["args"]) == 1:
                return self.arith("+" if "add" in m else "-", self.ev(n["recv"]), self.ev(n["args"][0]))
            if m in ("unwrap", "unwrap_or", "unwrap_or_default", "into", "clone", "try_into", "ok_or_else", "ok_or", "expect"):
                return self.ev(n["recv"])
            return UNK
        if k == "call":
            fn = n.get("fn") or ""
            if fn.endswith("convert::From::from") or fn.endswith("::from") and len(n.get("args") or []) == 1:
                return self.ev(n["args"][0])
            return UNK
        if k == "try":
            return self.ev(n["e"])
        if k == "bin":
            op = n["op"]
            if op in ("+", "-"):
                return self.arith(op, self.ev(n["l"]), self.ev(n["r"]))
            if op in ("<", "<=", ">", ">=", "==", "!="):
                a, b = self.ev(n["l"]), self.ev(n["r"])
                self.checked += 1
                if {a, b} == {ABS, REL}:
                    self.clashes.append((n.get("ln"), "comparison of an absolute with an archive-relative position: `%s`" % hirq.render(n)[:90]))
                return UNK
            if op in ("&", "|", "*", "/", "%", "<<", ">>"):
                a = self.ev(n["l"])
                self.ev(n["r"])
                return a if op == "&" else (SIZE if a in (SIZE, NEUTRAL) else UNK)
            return UNK
        if k == "block":
            saved = dict(self.env)
            for s in n.get("stmts", []):
                self.stmt(s)
            r = self.ev(n["e"]) if n.get("e") is not None else UNK
            return r
        if k == "if":
            self.ev(n["c"])
            a = self.ev(n["then"])
            b = self.ev(n["else"]) if n.get("else") is not None else NEUTRAL
            return self.join(a, b)
        if k == "un":
            return self.ev(n["e"])
        if k in ("for", "loop", "assign", "assignop", "let", "ret"):
            self.stmt(n)
            return UNK
        if k == "match":
            out = NEUTRAL
            self.ev(n["e"])
            for a in n["arms"]:
                for b in hirq.pat_binds(a["pat"]):
                    self.env.setdefault(b, UNK)
                out = self.join(out, self.ev(a["body"]))
            return out
        return UNK

    def arith(self, op, a, b):
        if op == "+":
            if {a, b} == {BASE, REL}:
                return ABS
            if a == BASE and b in (SIZE, NEUTRAL):
                return ABS if b == SIZE and False else (BASE if b == NEUTRAL else UNK)
            if a in (ABS, REL) and b in (SIZE, NEUTRAL):
                return a
            if b in (ABS, REL) and a in (SIZE, NEUTRAL):
                return b
            if a in (SIZE, NEUTRAL) and b in (SIZE, NEUTRAL):
                return SIZE
            if {a, b} == {ABS, REL} or (a == ABS and b == ABS) or (a == REL and b == REL):
                return UNK
            return UNK
        # subtraction
        if a == ABS and b == BASE:
            return REL
        if a in (ABS, REL) and b in (SIZE, NEUTRAL):
            return a
        if a == b and a in (ABS, REL):
            return SIZE
        if {a, b} == {ABS, REL}:
            self.checked += 1
            self.clashes.append((None, "difference of an absolute and an archive-relative position"))
            return UNK
        if a in (SIZE, NEUTRAL) and b in (SIZE, NEUTRAL):
            return SIZE
        return UNK

    def bind(self, pat, v):
        if pat.get("k") == "bind":
            self.env[pat["name"]] = v
        else:
            for b in hirq.pat_binds(pat):
                self.env[b] = UNK

    def stmt(self, s):
        k = s.get("k")
        if k == "let":
            v = self.ev(s["init"]) if s.get("init") is not None else UNK
            self.bind(s["pat"], v)
        elif k == "assign":
            l = hirq.strip(s["l"])
            v = self.ev(s["r"])
            if l.get("k") == "path" and "local" in l["res"]:
                old = self.env.get(l["res"]["local"], NEUTRAL)
                if {old, v} == {ABS, REL}:
                    self.checked += 1
                    self.clashes.append((s.get("ln"), "`%s` holds an %s position and is assigned an %s one" % (l["res"]["local"], old, v)))
                self.env[l["res"]["local"]] = self.join(old, v)
        elif k == "assignop":
            l = hirq.strip(s["l"])
            v = self.ev(s["r"])
            if l.get("k") == "path" and "local" in l["res"]:
                self.env[l["res"]["local"]] = self.arith("+" if s["op"].startswith("+") else "-", self.env.get(l["res"]["local"], UNK), v)
        elif k in ("for", "loop"):
            if k == "for":
                for b in hirq.pat_binds(s["pat"]):
                    self.env[b] = UNK
                self.ev(s["iter"])
            # two passes so that loop-carried accumulators (`m = m.max(x)`) meet their own updates
            self.ev(s["body"])
            self.ev(s["body"])
        elif k == "ret":
            if s.get("e") is not None:
                self.ev(s["e"])
        elif k not in ("for", "loop", "assign", "assignop", "let", "ret"):
            self.ev(s)

    def run(self):
        body = self.fn.hir["body"]
        for p in self.fn.hir["params"]:
            for b in hirq.pat_binds(p):
                self.env.setdefault(b, BASE if b == "archive_offset" else (SIZE if SIZE_NAMES.search(b) else UNK))
        # the function deals with an archive that may sit at a non-zero offset if it mentions the base anywhere, or is a method
        # of a type that carries one
        if any((x.get("k") in ("field",) and x.get("name") == "archive_offset") or (x.get("k") == "mcall" and x.get("m") == "archive_offset") or
               (x.get("k") == "path" and x["res"].get("local") == "archive_offset") for x in hirq.walk(body)) or re.search(r"::(Archive|MutableArchive)::", self.fn.path):
            self.saw_base = True
        # visit every expression once (nested blocks, matches, closures) — anything the structured walk above does not reach
        self.ev(body if body.get("k") == "block" else {"k": "block", "stmts": [], "e": body})
        for x in hirq.walk(body):
            if x.get("k") == "match":
                for a in x["arms"]:
                    self.ev(a["body"])
            if x.get("k") == "letx":
                self.bind(x["pat"], self.ev(x["init"]))
        # local closures: parameters take the frame of the arguments they are called with (joined over call sites)
        closures = {}
        for l in hirq.find(body, "let"):
            if l["pat"].get("k") == "bind" and l.get("init") is not None and hirq.strip(l["init"]).get("k") == "closure":
                closures[l["pat"]["name"]] = hirq.strip(l["init"])
        for c in hirq.walk(body):
            if c.get("k") == "call" and c.get("flocal") in closures:
                cl = closures[c["flocal"]]
                pnames = []
                for p_ in cl.get("params", []) or []:
                    b = hirq.pat_binds(p_)
                    pnames.append(b[0] if b else None)
                for nm, a in zip(pnames, c.get("args") or []):
                    if nm is None:
                        continue
                    v = self.ev(a)
                    if v in (UNK, NEUTRAL):
                        continue          # an argument of unknown frame says nothing; known frames decide
                    self.env[nm] = v if nm not in self.env or self.env[nm] in (UNK, NEUTRAL) else self.join(self.env[nm], v)
        for cl in closures.values():
            self.ev(cl["body"])
        # seeks and key positions
        for c in hirq.calls(body):
            fnp = c.get("fn") or ""
            if fnp.endswith("SeekFrom::Start") and c.get("args"):
                v = self.ev(c["args"][0])
                self.checked += 1
                if v == REL and self.saw_base:
                    self.clashes.append((c.get("ln"), "seek to an archive-relative position: `%s`" % hirq.render(c)[:90]))
        return self
