//! A3: `warcraft-rs dbc validate` exits 0 for a file with invalid string references.
//!
//! Place at warcraft-rs/tests/triage_a3_dbc_validate.rs and run
//!   cargo test --offline -p warcraft-rs --test triage_a3_dbc_validate

use std::fs;
use std::process::Command;
use tempfile::TempDir;

const SCHEMA: &str = "\
name: T
fields:
  - name: id
    type_name: uint32
  - name: name
    type_name: string
key_field: id
";

/// One-record WDBC file: (id = 1, name = <string ref>) + string block "\0ab\0".
fn dbc(string_ref: u32) -> Vec<u8> {
    let strings = b"\0ab\0";
    let mut d = Vec::new();
    d.extend_from_slice(b"WDBC");
    for v in [1u32, 2, 8, strings.len() as u32] {
        d.extend_from_slice(&v.to_le_bytes()); // records, fields, record size, string block size
    }
    d.extend_from_slice(&1u32.to_le_bytes());
    d.extend_from_slice(&string_ref.to_le_bytes());
    d.extend_from_slice(strings);
    d
}

fn validate(data: &[u8]) -> (Option<i32>, String) {
    let dir = TempDir::new().unwrap();
    let p = dir.path().join("t.dbc");
    let s = dir.path().join("t.yaml");
    fs::write(&p, data).unwrap();
    fs::write(&s, SCHEMA).unwrap();
    let o = Command::new(env!("CARGO_BIN_EXE_warcraft-rs"))
        .env("RUST_BACKTRACE", "0")
        .args(["dbc", "validate"])
        .arg(&p)
        .arg("--schema")
        .arg(&s)
        .output()
        .unwrap();
    (
        o.status.code(),
        format!(
            "{}{}",
            String::from_utf8_lossy(&o.stdout),
            String::from_utf8_lossy(&o.stderr)
        ),
    )
}

#[test]
fn dangling_string_reference_is_not_a_success() {
    // offset 1000 in a 4-byte string block
    let (code, out) = validate(&dbc(1000));
    println!("{out}");
    assert!(out.contains("1 invalid string references"), "{out}");
    assert_ne!(
        code,
        Some(0),
        "validate found invalid string references but exited 0:\n{out}"
    );
}

/// Control: the same file with an in-range reference ("ab" at offset 1) validates.
#[test]
fn valid_string_reference_still_validates() {
    let (code, out) = validate(&dbc(1));
    assert_eq!(code, Some(0), "{out}");
    assert!(out.contains("All string references are valid"), "{out}");
}
