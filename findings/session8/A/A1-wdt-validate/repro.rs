//! A1: `warcraft-rs wdt validate` must not exit 0 for a structurally broken WDT.
//!
//! Place at warcraft-rs/tests/triage_a1_wdt_validate.rs and run
//!   cargo test --offline -p warcraft-rs --test triage_a1_wdt_validate

use std::fs;
use std::process::Command;
use tempfile::TempDir;

fn chunk(out: &mut Vec<u8>, magic: &[u8; 4], data: &[u8]) {
    out.extend_from_slice(magic);
    out.extend_from_slice(&(data.len() as u32).to_le_bytes());
    out.extend_from_slice(data);
}

fn wdt(mphd_flags: u32, with_wmo_chunks: bool) -> Vec<u8> {
    let mut d = Vec::new();
    chunk(&mut d, b"REVM", &18u32.to_le_bytes());
    let mut mphd = [0u8; 32];
    mphd[..4].copy_from_slice(&mphd_flags.to_le_bytes());
    chunk(&mut d, b"DHPM", &mphd);
    chunk(&mut d, b"NIAM", &vec![0u8; 64 * 64 * 8]);
    if with_wmo_chunks {
        chunk(&mut d, b"OMWM", b"world\\wmo\\x.wmo\0");
        chunk(&mut d, b"FDOM", &[0u8; 64]);
    }
    d
}

fn validate(data: &[u8]) -> (Option<i32>, String) {
    let dir = TempDir::new().unwrap();
    let p = dir.path().join("t.wdt");
    fs::write(&p, data).unwrap();
    let o = Command::new(env!("CARGO_BIN_EXE_warcraft-rs"))
        .env("RUST_BACKTRACE", "0")
        .args(["wdt", "validate", "-w"])
        .arg(&p)
        .output()
        .unwrap();
    (
        o.status.code(),
        format!(
            "{}{}",
            String::from_utf8_lossy(&o.stdout),
            String::from_utf8_lossy(&o.stderr)
        ),
    )
}

/// A WMO-only map (MPHD flag 0x1) that carries neither MWMO nor MODF has none
/// of the data the flag promises: the required chunks are missing.
#[test]
fn wmo_only_map_without_its_required_chunks_is_not_a_success() {
    let (code, out) = validate(&wdt(0x1, false));
    println!("{out}");
    assert!(out.contains("WMO-only map missing MWMO chunk"), "{out}");
    assert_ne!(
        code,
        Some(0),
        "validate reported missing required chunks but exited 0:\n{out}"
    );
}

/// Control: the same map with MWMO + MODF validates and exits 0.
#[test]
fn complete_wmo_only_map_still_validates() {
    let (code, out) = validate(&wdt(0x1, true));
    assert_eq!(code, Some(0), "{out}");
}

/// Control: pure warnings (a flag unusual for the detected version) keep exit 0.
#[test]
fn version_oddities_stay_warnings() {
    // WMO-only map, flag 0x0080 (height texturing, MoP+) on a file detected as pre-MoP
    let (code, out) = validate(&wdt(0x1 | 0x80, true));
    println!("{out}");
    assert_eq!(code, Some(0), "{out}");
}
