//! A4: bulk `warcraft-rs mpq extract` (no file list) silently drops archive members whose
//! names start with `#` or contain `;`, because the (listfile) parser reads those lines as
//! comments / `name;metadata`.
//!
//! Place at warcraft-rs/tests/triage_a4_mpq_extract_listfile.rs and run
//!   cargo test --offline -p warcraft-rs --test triage_a4_mpq_extract_listfile

use std::collections::BTreeMap;
use std::fs;
use std::path::Path;
use std::process::Command;
use tempfile::TempDir;
use wow_mpq::ArchiveBuilder;

fn build_mpq(path: &Path, files: &[(&str, &[u8])]) {
    let mut b = ArchiveBuilder::new();
    for (name, data) in files {
        b = b.add_file_data(data.to_vec(), name);
    }
    b.build(path).unwrap();
}

/// relative path -> content of every file below `dir`
fn tree(dir: &Path) -> BTreeMap<String, Vec<u8>> {
    fn walk(d: &Path, base: &Path, out: &mut BTreeMap<String, Vec<u8>>) {
        let Ok(rd) = fs::read_dir(d) else { return };
        for e in rd {
            let e = e.unwrap();
            if e.file_type().unwrap().is_dir() {
                walk(&e.path(), base, out);
            } else {
                let rel = e.path().strip_prefix(base).unwrap().to_owned();
                out.insert(
                    rel.to_string_lossy().into_owned(),
                    fs::read(e.path()).unwrap(),
                );
            }
        }
    }
    let mut out = BTreeMap::new();
    walk(dir, dir, &mut out);
    out
}

fn run(args: &[&str]) -> (Option<i32>, String, String) {
    let o = Command::new(env!("CARGO_BIN_EXE_warcraft-rs"))
        .env("RUST_BACKTRACE", "0")
        .args(args)
        .output()
        .unwrap();
    (
        o.status.code(),
        String::from_utf8_lossy(&o.stdout).into_owned(),
        String::from_utf8_lossy(&o.stderr).into_owned(),
    )
}

/// The property under test: exit 0 implies that every member is in the output.
#[test]
fn bulk_extract_success_means_hash_named_member_is_there() {
    let dir = TempDir::new().unwrap();
    let mpq = dir.path().join("t.mpq");
    build_mpq(
        &mpq,
        &[
            ("plain.txt", b"plain"),
            ("dir\\#notes.txt", b"hash-notes"),
            ("#top.txt", b"hash-top"),
        ],
    );
    let out = dir.path().join("out");

    let (code, stdout, stderr) = run(&[
        "mpq",
        "extract",
        mpq.to_str().unwrap(),
        "--output",
        out.to_str().unwrap(),
        "--preserve-paths",
    ]);
    let t = tree(&out);
    println!(
        "exit={code:?}\n{stdout}{stderr}\nextracted: {:?}",
        t.keys().collect::<Vec<_>>()
    );

    // not affected: `#` that is not the first character of the line
    assert_eq!(
        t.get("dir/#notes.txt").map(Vec::as_slice),
        Some(&b"hash-notes"[..])
    );
    if code == Some(0) {
        assert_eq!(
            t.get("#top.txt").map(Vec::as_slice),
            Some(&b"hash-top"[..]),
            "extract exited 0 but member `#top.txt` was not extracted; got {:?}",
            t.keys().collect::<Vec<_>>()
        );
    }
}

/// A member with `;` in its name is looked up under the truncated name `semi`: today that at
/// least fails loudly (exit 1, "File not found: semi"), but it makes the whole bulk extraction
/// of such an archive impossible.
#[test]
fn bulk_extract_handles_semicolon_in_member_name() {
    let dir = TempDir::new().unwrap();
    let mpq = dir.path().join("t.mpq");
    build_mpq(
        &mpq,
        &[("plain.txt", b"plain"), ("semi;colon.txt", b"semi")],
    );
    let out = dir.path().join("out");

    let (code, stdout, stderr) = run(&[
        "mpq",
        "extract",
        mpq.to_str().unwrap(),
        "--output",
        out.to_str().unwrap(),
    ]);
    let t = tree(&out);
    println!("exit={code:?}\n{stdout}{stderr}");
    assert_eq!(code, Some(0), "{stderr}");
    assert_eq!(
        t.get("semi;colon.txt").map(Vec::as_slice),
        Some(&b"semi"[..])
    );
    assert_eq!(t.get("plain.txt").map(Vec::as_slice), Some(&b"plain"[..]));
}

/// Worst case of the `;` truncation: the truncated name exists too, so nothing fails and the
/// member is dropped silently.
#[test]
fn bulk_extract_success_means_semicolon_member_is_there() {
    let dir = TempDir::new().unwrap();
    let mpq = dir.path().join("t.mpq");
    build_mpq(&mpq, &[("semi", b"short"), ("semi;colon.txt", b"long")]);
    let out = dir.path().join("out");

    let (code, stdout, stderr) = run(&[
        "mpq",
        "extract",
        mpq.to_str().unwrap(),
        "--output",
        out.to_str().unwrap(),
    ]);
    let t = tree(&out);
    println!("exit={code:?}\n{stdout}{stderr}");
    if code == Some(0) {
        assert_eq!(
            t.get("semi;colon.txt").map(Vec::as_slice),
            Some(&b"long"[..]),
            "extract exited 0 but member `semi;colon.txt` was not extracted; got {:?}",
            t.keys().collect::<Vec<_>>()
        );
    }
}

/// Same root cause, visible in `mpq list` (goes through `Archive::list`).
#[test]
fn list_shows_every_member() {
    let dir = TempDir::new().unwrap();
    let mpq = dir.path().join("t.mpq");
    build_mpq(
        &mpq,
        &[
            ("plain.txt", b"plain"),
            ("#top.txt", b"hash-top"),
            ("semi;colon.txt", b"semi"),
        ],
    );
    let (code, stdout, stderr) = run(&["mpq", "list", mpq.to_str().unwrap()]);
    println!("exit={code:?}\n{stdout}{stderr}");
    assert_eq!(code, Some(0));
    let names: Vec<&str> = stdout.lines().map(str::trim).collect();
    for expected in ["plain.txt", "#top.txt", "semi;colon.txt"] {
        assert!(
            names.contains(&expected),
            "`{expected}` missing from listing: {names:?}"
        );
    }
}

/// Control: real comment / metadata syntax in a hand-written listfile keeps its meaning.
#[test]
fn comments_and_metadata_in_a_listfile_keep_working() {
    let dir = TempDir::new().unwrap();
    let listfile = dir.path().join("listfile.txt");
    fs::write(
        &listfile,
        "; a comment\r\n# another comment\r\nplain.txt;12345\r\n; other.txt - commented out\r\nother.txt\r\n",
    )
    .unwrap();
    let mpq = dir.path().join("t.mpq");
    ArchiveBuilder::new()
        .listfile_option(wow_mpq::ListfileOption::External(listfile))
        .add_file_data(b"plain".to_vec(), "plain.txt")
        .add_file_data(b"other".to_vec(), "other.txt")
        .build(&mpq)
        .unwrap();
    let out = dir.path().join("out");

    let (code, stdout, stderr) = run(&[
        "mpq",
        "extract",
        mpq.to_str().unwrap(),
        "--output",
        out.to_str().unwrap(),
    ]);
    let t = tree(&out);
    println!("exit={code:?}\n{stdout}{stderr}");
    assert_eq!(code, Some(0), "{stderr}");
    assert_eq!(
        t.keys().map(String::as_str).collect::<Vec<_>>(),
        ["other.txt", "plain.txt"]
    );
}
