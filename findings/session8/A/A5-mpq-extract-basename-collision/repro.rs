//! A5: `warcraft-rs mpq extract` without `--preserve-paths` writes every member under its
//! base name; members that share a base name overwrite each other and the command exits 0.
//!
//! Place at warcraft-rs/tests/triage_a5_mpq_extract_collision.rs and run
//!   cargo test --offline -p warcraft-rs --test triage_a5_mpq_extract_collision

use std::collections::BTreeMap;
use std::fs;
use std::path::Path;
use std::process::Command;
use tempfile::TempDir;
use wow_mpq::ArchiveBuilder;

fn build_mpq(path: &Path, files: &[(&str, &[u8])]) {
    let mut b = ArchiveBuilder::new();
    for (name, data) in files {
        b = b.add_file_data(data.to_vec(), name);
    }
    b.build(path).unwrap();
}

/// relative path -> content of every file below `dir`
fn tree(dir: &Path) -> BTreeMap<String, Vec<u8>> {
    fn walk(d: &Path, base: &Path, out: &mut BTreeMap<String, Vec<u8>>) {
        let Ok(rd) = fs::read_dir(d) else { return };
        for e in rd {
            let e = e.unwrap();
            if e.file_type().unwrap().is_dir() {
                walk(&e.path(), base, out);
            } else {
                let rel = e.path().strip_prefix(base).unwrap().to_owned();
                out.insert(
                    rel.to_string_lossy().into_owned(),
                    fs::read(e.path()).unwrap(),
                );
            }
        }
    }
    let mut out = BTreeMap::new();
    walk(dir, dir, &mut out);
    out
}

fn extract(mpq: &Path, out: &Path, extra: &[&str]) -> (Option<i32>, String) {
    let o = Command::new(env!("CARGO_BIN_EXE_warcraft-rs"))
        .env("RUST_BACKTRACE", "0")
        .args(["mpq", "extract"])
        .arg(mpq)
        .arg("--output")
        .arg(out)
        .args(extra)
        .output()
        .unwrap();
    (
        o.status.code(),
        format!(
            "{}{}",
            String::from_utf8_lossy(&o.stdout),
            String::from_utf8_lossy(&o.stderr)
        ),
    )
}

fn has_content(t: &BTreeMap<String, Vec<u8>>, content: &[u8]) -> bool {
    t.values().any(|v| v == content)
}

#[test]
fn success_means_no_member_was_lost_bulk() {
    let dir = TempDir::new().unwrap();
    let mpq = dir.path().join("t.mpq");
    build_mpq(&mpq, &[("a\\x.txt", b"from a"), ("b\\x.txt", b"from b")]);
    let out = dir.path().join("out");

    let (code, log) = extract(&mpq, &out, &[]);
    let t = tree(&out);
    println!(
        "exit={code:?}\n{log}\nextracted: {:?}",
        t.keys().collect::<Vec<_>>()
    );

    if code == Some(0) {
        assert!(
            has_content(&t, b"from a") && has_content(&t, b"from b"),
            "extract exited 0 but one member's content is gone: {:?}",
            t.iter()
                .map(|(k, v)| (k, String::from_utf8_lossy(v).into_owned()))
                .collect::<Vec<_>>()
        );
    } else {
        // a reported failure is acceptable, but the file that was kept must be intact
        // and the message must say which name collided
        let kept = t.get("x.txt").map(Vec::as_slice);
        assert!(kept == Some(b"from a") || kept == Some(b"from b"), "{t:?}");
        assert!(log.contains("x.txt"), "{log}");
    }
}

#[test]
fn success_means_no_member_was_lost_explicit_list() {
    let dir = TempDir::new().unwrap();
    let mpq = dir.path().join("t.mpq");
    build_mpq(&mpq, &[("a\\x.txt", b"from a"), ("b\\x.txt", b"from b")]);
    let out = dir.path().join("out");

    let (code, log) = extract(&mpq, &out, &["a\\x.txt", "b\\x.txt"]);
    let t = tree(&out);
    println!("exit={code:?}\n{log}");
    assert!(
        code != Some(0) || (has_content(&t, b"from a") && has_content(&t, b"from b")),
        "extract exited 0 but one member's content is gone: {t:?}"
    );
}

/// Control: flattening without a collision keeps working.
#[test]
fn flatten_without_collision_still_works() {
    let dir = TempDir::new().unwrap();
    let mpq = dir.path().join("t.mpq");
    build_mpq(&mpq, &[("a\\x.txt", b"from a"), ("b\\y.txt", b"from b")]);
    let out = dir.path().join("out");

    let (code, log) = extract(&mpq, &out, &[]);
    let t = tree(&out);
    assert_eq!(code, Some(0), "{log}");
    assert_eq!(t.get("x.txt").map(Vec::as_slice), Some(&b"from a"[..]));
    assert_eq!(t.get("y.txt").map(Vec::as_slice), Some(&b"from b"[..]));
}

/// Control: `--preserve-paths` extracts both colliding members.
#[test]
fn preserve_paths_keeps_both() {
    let dir = TempDir::new().unwrap();
    let mpq = dir.path().join("t.mpq");
    build_mpq(&mpq, &[("a\\x.txt", b"from a"), ("b\\x.txt", b"from b")]);
    let out = dir.path().join("out");

    let (code, log) = extract(&mpq, &out, &["--preserve-paths"]);
    let t = tree(&out);
    assert_eq!(code, Some(0), "{log}");
    assert!(
        has_content(&t, b"from a") && has_content(&t, b"from b"),
        "{t:?}"
    );
}

/// Same property on the `--patch` (patch chain) code path, which has its own copy of the
/// output-path logic.
#[test]
fn success_means_no_member_was_lost_patch_chain() {
    let dir = TempDir::new().unwrap();
    let mpq = dir.path().join("base.mpq");
    let patch = dir.path().join("patch.mpq");
    build_mpq(&mpq, &[("a\\x.txt", b"from a"), ("b\\x.txt", b"from b")]);
    build_mpq(&patch, &[("c\\z.txt", b"from c")]);
    let out = dir.path().join("out");

    let (code, log) = extract(&mpq, &out, &["--patch", patch.to_str().unwrap()]);
    let t = tree(&out);
    println!("exit={code:?}\n{log}");
    assert!(
        code != Some(0) || (has_content(&t, b"from a") && has_content(&t, b"from b")),
        "extract exited 0 but one member's content is gone: {:?}",
        t.keys().collect::<Vec<_>>()
    );
}
