//! A2: `warcraft-rs adt validate` prints "Error: Too many MCNK chunks" and exits 0.
//!
//! Place at warcraft-rs/tests/triage_a2_adt_validate.rs and run
//!   cargo test --offline -p warcraft-rs --test triage_a2_adt_validate

use std::fs;
use std::process::Command;
use tempfile::TempDir;

fn chunk(out: &mut Vec<u8>, magic: &[u8; 4], data: &[u8]) {
    out.extend_from_slice(magic);
    out.extend_from_slice(&(data.len() as u32).to_le_bytes());
    out.extend_from_slice(data);
}

/// Minimal root ADT (same layout as wow-adt's own `create_minimal_root_adt`
/// unit-test helper) with `mcnk_count` header-only MCNK chunks.
fn root_adt(mcnk_count: usize) -> Vec<u8> {
    let mut d = Vec::new();
    chunk(&mut d, b"REVM", &18u32.to_le_bytes());
    chunk(&mut d, b"RDHM", &[0u8; 64]);
    chunk(&mut d, b"NICM", &[0u8; 4096]);
    chunk(&mut d, b"XETM", &[]);
    for _ in 0..mcnk_count {
        chunk(&mut d, b"KNCM", &[0u8; 136]);
    }
    d
}

fn validate(data: &[u8]) -> (Option<i32>, String) {
    let dir = TempDir::new().unwrap();
    let p = dir.path().join("t.adt");
    fs::write(&p, data).unwrap();
    let o = Command::new(env!("CARGO_BIN_EXE_warcraft-rs"))
        .env("RUST_BACKTRACE", "0")
        .args(["adt", "validate"])
        .arg(&p)
        .output()
        .unwrap();
    (
        o.status.code(),
        format!(
            "{}{}",
            String::from_utf8_lossy(&o.stdout),
            String::from_utf8_lossy(&o.stderr)
        ),
    )
}

#[test]
fn too_many_mcnk_chunks_is_not_a_success() {
    let (code, out) = validate(&root_adt(257));
    println!("{out}");
    assert!(out.contains("Too many MCNK chunks (257)"), "{out}");
    assert_ne!(
        code,
        Some(0),
        "an Error-level finding was printed but exit status is 0:\n{out}"
    );
    assert!(
        !out.contains("Validation passed!"),
        "file with an Error-level finding is reported as having passed:\n{out}"
    );
}

/// Control: a full 256-chunk tile validates and exits 0.
#[test]
fn full_tile_still_validates() {
    let (code, out) = validate(&root_adt(256));
    assert_eq!(code, Some(0), "{out}");
    assert!(out.contains("Validation passed!"), "{out}");
}
