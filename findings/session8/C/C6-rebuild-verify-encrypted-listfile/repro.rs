//! Repro C6: `rebuild_archive` with `skip_encrypted = true` and `verify = true` on a
//! source whose `(listfile)` is itself stored encrypted fails verification with
//! "File count mismatch: expected 1, got 2" although the rebuild is faithful:
//! the encrypted (listfile) is skipped, the builder generates a fresh one for the
//! target, and verification counts that generated (listfile) in the target while
//! the source's one was filtered out of the expected set.
//!
//! Location: file-formats/archives/wow-mpq/tests/repro_c6_rebuild_encrypted_listfile.rs
//! Run: cargo test --offline -p wow-mpq --test repro_c6_rebuild_encrypted_listfile

use wow_mpq::{
    Archive, ArchiveBuilder, FormatVersion, ListfileOption, RebuildOptions, rebuild_archive,
};

const FLAG_ENCRYPTED: u32 = 0x0001_0000;

#[test]
fn rebuild_skipping_encrypted_files_verifies_when_listfile_is_encrypted() {
    let dir = tempfile::tempdir().unwrap();
    let source = dir.path().join("source.mpq");
    let target = dir.path().join("target.mpq");

    ArchiveBuilder::new()
        .version(FormatVersion::V1)
        .listfile_option(ListfileOption::None)
        .add_file_data(b"plain content".to_vec(), "a.txt")
        // the archive's own file list, stored encrypted
        .add_file_data_with_options(b"a.txt\r\n".to_vec(), "(listfile)", 0, true, 0)
        .build(&source)
        .unwrap();

    // Sanity: the source is what the scenario needs
    {
        let mut src = Archive::open(&source).unwrap();
        let info = src
            .find_file("(listfile)")
            .unwrap()
            .expect("has a (listfile)");
        assert_ne!(
            info.flags & FLAG_ENCRYPTED,
            0,
            "(listfile) is stored encrypted"
        );
        let names: Vec<String> = src.list().unwrap().into_iter().map(|e| e.name).collect();
        assert_eq!(names, ["a.txt"]);
    }

    let options = RebuildOptions {
        skip_encrypted: true,
        verify: true,
        ..RebuildOptions::default()
    };
    let summary = match rebuild_archive(&source, &target, options, None) {
        Ok(summary) => summary,
        Err(e) => panic!("rebuild of a sound archive failed verification: {e}"),
    };
    assert!(summary.verified);
    assert_eq!(summary.extracted_files, 1);
    assert_eq!(summary.skipped_files, 1);

    // The rebuild is faithful: the kept file is there, with the same content
    let mut rebuilt = Archive::open(&target).unwrap();
    assert_eq!(rebuilt.read_file("a.txt").unwrap(), b"plain content");
}

/// Verification must still notice a target that lacks a file
#[test]
fn control_plain_rebuild_verifies() {
    let dir = tempfile::tempdir().unwrap();
    let source = dir.path().join("source.mpq");
    let target = dir.path().join("target.mpq");
    ArchiveBuilder::new()
        .version(FormatVersion::V1)
        .listfile_option(ListfileOption::Generate)
        .add_file_data(b"plain content".to_vec(), "a.txt")
        .add_file_data_with_options(b"secret".to_vec(), "b.txt", 0, true, 0)
        .build(&source)
        .unwrap();
    for skip_encrypted in [false, true] {
        let options = RebuildOptions {
            skip_encrypted,
            verify: true,
            ..RebuildOptions::default()
        };
        let summary = rebuild_archive(&source, &target, options, None).unwrap();
        assert!(summary.verified);
        assert_eq!(summary.skipped_files, usize::from(skip_encrypted));
    }
}
