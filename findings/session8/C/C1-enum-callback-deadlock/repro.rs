//! Repro C1: SFileEnumFiles calls the user callback while the global ARCHIVES
//! mutex is held, so a callback that re-enters the API on the same thread
//! (here: SFileHasFile) never returns.
//!
//! storm-ffi only builds `cdylib`/`staticlib`, so the crate source is included
//! as a module to be able to call the `extern "C"` functions from a Rust test.
//!
//! Location: ffi/storm-ffi/tests/repro_c1_enum_reentrancy.rs
//! Run: cargo test --offline -p storm-ffi --test repro_c1_enum_reentrancy

#[allow(dead_code, clippy::all)]
#[path = "../src/lib.rs"]
mod storm;

use std::ffi::{c_char, c_void, CString};
use std::sync::mpsc;
use std::time::Duration;
use storm::*;

struct Ctx {
    archive: usize,
    seen: usize,
    present: usize,
}

extern "C" fn reentrant_callback(name: *const c_char, user: *mut c_void) -> bool {
    let ctx = unsafe { &mut *(user as *mut Ctx) };
    ctx.seen += 1;
    // Re-enter the API for the archive being enumerated.
    if unsafe { SFileHasFile(ctx.archive as HANDLE, name) } {
        ctx.present += 1;
    }
    true
}

#[test]
fn enum_files_callback_may_reenter_the_api() {
    let dir = tempfile::tempdir().unwrap();
    let path = dir.path().join("c1.mpq");
    wow_mpq::ArchiveBuilder::new()
        .version(wow_mpq::FormatVersion::V2)
        .listfile_option(wow_mpq::ListfileOption::Generate)
        .add_file_data(b"alpha".to_vec(), "a.txt")
        .add_file_data(b"beta".to_vec(), "b.txt")
        .build(&path)
        .unwrap();
    let c_path = CString::new(path.to_str().unwrap()).unwrap();

    let (tx, rx) = mpsc::channel();
    std::thread::spawn(move || unsafe {
        let mut h: HANDLE = std::ptr::null_mut();
        assert!(SFileOpenArchive(c_path.as_ptr(), 0, 0, &mut h));
        let mut ctx = Ctx {
            archive: h as usize,
            seen: 0,
            present: 0,
        };
        let ok = SFileEnumFiles(
            h,
            std::ptr::null(),
            std::ptr::null(),
            Some(reentrant_callback),
            &mut ctx as *mut Ctx as *mut c_void,
        );
        SFileCloseArchive(h);
        let _ = tx.send((ok, ctx.seen, ctx.present));
    });

    match rx.recv_timeout(Duration::from_secs(10)) {
        Ok((ok, seen, present)) => {
            assert!(ok);
            assert!(seen >= 2, "callback saw {seen} names");
            assert_eq!(seen, present, "every enumerated name exists in the archive");
        }
        Err(_) => panic!(
            "SFileEnumFiles did not return within 10s: the callback's SFileHasFile call \
             dead-locked on the ARCHIVES mutex held by SFileEnumFiles"
        ),
    }
}
