//! Experiment C7: flip every single bit of the stored form of a file that carries
//! sector checksums (SECTOR_CRC) and read it back. A flip is "undetected" when
//! `read_file` succeeds and returns content that differs from the original.
//!
//! Location: file-formats/archives/wow-mpq/tests/repro_c7_sector_checksum_bitflips.rs
//! Run: cargo test --offline -p wow-mpq --test repro_c7_sector_checksum_bitflips -- --nocapture

use wow_mpq::{Archive, ArchiveBuilder, FormatVersion, ListfileOption};

const SECTOR_CRC: u32 = 0x0400_0000;
const COMPRESS: u32 = 0x0000_0200;
const SINGLE_UNIT: u32 = 0x0100_0000;

fn text(n: usize) -> Vec<u8> {
    let mut v = Vec::new();
    let mut i = 0u32;
    while v.len() < n {
        v.extend_from_slice(format!("line {i} of compressible text; ").as_bytes());
        i += 1;
    }
    v.truncate(n);
    v
}

fn noise(n: usize) -> Vec<u8> {
    let mut x = 0x1234_5678u32;
    (0..n)
        .map(|_| {
            x ^= x << 13;
            x ^= x >> 17;
            x ^= x << 5;
            (x >> 8) as u8
        })
        .collect()
}

struct Outcome {
    bits: usize,
    detected: usize,
    harmless: usize,
    undetected: Vec<(usize, u8, usize)>, // (byte offset in block, bit, len returned)
    panicked: Vec<(usize, u8)>,
}

fn sweep(name: &str, content: &[u8], block_size: u16) -> Outcome {
    let dir = tempfile::tempdir().unwrap();
    let path = dir.path().join("c7.mpq");
    ArchiveBuilder::new()
        .version(FormatVersion::V1)
        .block_size(block_size)
        .listfile_option(ListfileOption::None)
        .generate_crcs(true)
        .add_file_data(content.to_vec(), name)
        .build(&path)
        .unwrap();

    let (pos, stored_len, flags) = {
        let mut a = Archive::open(&path).unwrap();
        let info = a.find_file(name).unwrap().unwrap();
        assert_eq!(a.read_file(name).unwrap(), content);
        let sector_size = a.header().sector_size();
        let sectors = content.len().div_ceil(sector_size);
        // the checksums are stored in addition to `compressed_size`
        let crc_bytes = if info.flags & SINGLE_UNIT != 0 {
            4
        } else {
            sectors * 4
        };
        (
            info.file_pos as usize,
            info.compressed_size as usize + crc_bytes,
            info.flags,
        )
    };
    assert_ne!(flags & SECTOR_CRC, 0, "{name}: file has sector checksums");
    assert_ne!(flags & COMPRESS, 0, "{name}: file is compressed");

    let pristine = std::fs::read(&path).unwrap();
    let mut out = Outcome {
        bits: 0,
        detected: 0,
        harmless: 0,
        undetected: Vec::new(),
        panicked: Vec::new(),
    };
    for off in 0..stored_len {
        for bit in 0..8u8 {
            let mut bytes = pristine.clone();
            bytes[pos + off] ^= 1 << bit;
            std::fs::write(&path, &bytes).unwrap();
            out.bits += 1;
            let result = std::panic::catch_unwind(|| {
                Archive::open(&path).and_then(|mut a| a.read_file(name))
            });
            let result = match result {
                Ok(r) => r,
                Err(_) => {
                    out.panicked.push((off, bit));
                    continue;
                }
            };
            match result {
                Err(_) => out.detected += 1,
                Ok(data) if data == content => out.harmless += 1,
                Ok(data) => out.undetected.push((off, bit, data.len())),
            }
        }
    }
    println!(
        "{name}: {} bits flipped: {} detected, {} harmless (content unchanged), {} UNDETECTED {:?}",
        out.bits,
        out.detected,
        out.harmless,
        out.undetected.len(),
        &out.undetected[..out.undetected.len().min(12)]
    );
    if !out.panicked.is_empty() {
        println!("{name}: read_file PANICKED for flips {:?}", out.panicked);
    }
    out
}

/// Three zlib-compressed sectors, each with an ADLER32 sector checksum
#[test]
fn zlib_sectors_with_checksums() {
    let out = sweep("zlib_sectored.txt", &text(3 * 512), 0);
    assert!(
        out.undetected.is_empty(),
        "undetected corruption: {:?}",
        out.undetected
    );
}

/// A compressed file in which some sectors are stored raw (incompressible)
#[test]
fn mixed_raw_and_zlib_sectors_with_checksums() {
    let mut content = text(512);
    content.extend(noise(512));
    content.extend(text(300));
    let out = sweep("mixed_sectored.bin", &content, 0);
    assert!(
        out.undetected.is_empty(),
        "undetected corruption: {:?}",
        out.undetected
    );
}

/// Single unit, zlib, one checksum behind the data
#[test]
fn zlib_single_unit_with_checksum() {
    let out = sweep("single_unit.txt", &text(400), 0);
    assert!(
        out.undetected.is_empty(),
        "undetected corruption: {:?}",
        out.undetected
    );
}

/// Like the mixed case, but the FIRST sector is the one stored raw. Lowering the first
/// sector offset by one bit makes `read_sectored_file` conclude "no room for a checksum
/// table", skip every checksum silently, and hand back the raw bytes it finds there.
#[test]
fn raw_first_sector_with_checksums() {
    let mut content = noise(512);
    content.extend(text(512));
    content.extend(text(300));
    let out = sweep("raw_first.bin", &content, 0);
    assert!(
        out.undetected.is_empty(),
        "undetected corruption: {:?}",
        out.undetected
    );
}
