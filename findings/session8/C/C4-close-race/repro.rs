//! Repro C4: SFileCloseArchive purges the archive's file handles (FILES) and
//! search handles (FIND_HANDLES) *before* it removes the archive from ARCHIVES,
//! and takes the three locks one after the other. SFileOpenFileEx holds
//! ARCHIVES from the archive lookup until it has inserted the new handle into
//! FILES. Interleaving:
//!
//!   T1 SFileCloseArchive(h): lock FILES, drop h's file handles, unlock FILES
//!   T2 SFileOpenFileEx(h, ..): lock ARCHIVES, h is still there, read the file,
//!                              lock FILES, insert handle F, unlock both
//!   T1                        : lock ARCHIVES, remove h, unlock -> returns true
//!
//! F now outlives its archive: SFileGetFileSize/SFileReadFile(F) keep working
//! after SFileCloseArchive(h) returned true. The same holds for a search handle
//! created by SFileFindFirstFile (it drops ARCHIVES before inserting into
//! FIND_HANDLES).
//!
//! T2 spends nearly all of its time inside the ARCHIVES critical section
//! (reading the file), so T1 almost always finds T2 in the middle of an open
//! when it has just purged FILES: the race is hit within a few rounds.
//!
//! Location: ffi/storm-ffi/tests/repro_c4_close_race.rs
//! Run: cargo test --offline -p storm-ffi --test repro_c4_close_race

#[allow(dead_code, clippy::all)]
#[path = "../src/lib.rs"]
mod storm;

use std::ffi::CString;
use std::sync::atomic::{AtomicBool, Ordering};
use std::sync::Arc;
use storm::*;

const ROUNDS: usize = 64;

fn build(path: &std::path::Path) {
    // Big enough that SFileOpenFileEx (which reads the whole file while holding
    // ARCHIVES) takes a noticeable time
    let data: Vec<u8> = (0..300_000u32).map(|i| (i * 31 % 251) as u8).collect();
    let builder = wow_mpq::ArchiveBuilder::new()
        .version(wow_mpq::FormatVersion::V2)
        .listfile_option(wow_mpq::ListfileOption::Generate)
        .add_file_data(data, "big.bin");
    // ... and enough names that listing the archive (SFileFindFirstFile, under
    // ARCHIVES) takes a while too
    let mut builder = builder;
    for i in 0..3000 {
        builder = builder.add_file_data(vec![i as u8; 8], &format!("dir\\file_{i:05}.dat"));
    }
    builder.build(path).unwrap();
}

#[test]
fn no_file_handle_survives_close_archive() {
    let dir = tempfile::tempdir().unwrap();
    let path = dir.path().join("c4.mpq");
    build(&path);
    let c_path = CString::new(path.to_str().unwrap()).unwrap();

    let mut survivors = 0usize;
    for round in 0..ROUNDS {
        let mut h: HANDLE = std::ptr::null_mut();
        assert!(unsafe { SFileOpenArchive(c_path.as_ptr(), 0, 0, &mut h) });
        let h_id = h as usize;

        let started = Arc::new(AtomicBool::new(false));
        let started2 = started.clone();
        let opener = std::thread::spawn(move || {
            // Keep opening until the archive handle is gone; remember every handle
            let mut opened = Vec::new();
            loop {
                let mut f: HANDLE = std::ptr::null_mut();
                let ok = unsafe { SFileOpenFileEx(h_id as HANDLE, c"big.bin".as_ptr(), 0, &mut f) };
                started2.store(true, Ordering::SeqCst);
                if !ok {
                    break;
                }
                opened.push(f as usize);
                // std's Mutex is not fair: give the closing thread a chance to get
                // ARCHIVES instead of re-locking it right away
                std::thread::sleep(std::time::Duration::from_micros(200));
            }
            opened
        });

        while !started.load(Ordering::SeqCst) {
            std::thread::yield_now();
        }
        // Sweep the moment of the close over the other thread's open/sleep cycle
        std::thread::sleep(std::time::Duration::from_micros(37 * (round as u64 % 64)));
        assert!(SFileCloseArchive(h));
        let opened = opener.join().unwrap();

        // The archive is closed: none of its file handles may be alive
        for f in opened {
            let size = unsafe { SFileGetFileSize(f as HANDLE, std::ptr::null_mut()) };
            if size != 0xFFFF_FFFF {
                survivors += 1;
                SFileCloseFile(f as HANDLE);
            }
        }
    }
    assert_eq!(
        survivors, 0,
        "{survivors} file handle(s) were still usable after SFileCloseArchive returned true \
         ({ROUNDS} rounds)"
    );
}

#[test]
fn no_search_handle_survives_close_archive() {
    let dir = tempfile::tempdir().unwrap();
    let path = dir.path().join("c4f.mpq");
    build(&path);
    let c_path = CString::new(path.to_str().unwrap()).unwrap();

    let mut survivors = 0usize;
    for round in 0..ROUNDS {
        let mut h: HANDLE = std::ptr::null_mut();
        assert!(unsafe { SFileOpenArchive(c_path.as_ptr(), 0, 0, &mut h) });
        let h_id = h as usize;

        let started = Arc::new(AtomicBool::new(false));
        let started2 = started.clone();
        let finder = std::thread::spawn(move || {
            let mut found = Vec::new();
            loop {
                let mut data: SFILE_FIND_DATA = unsafe { std::mem::zeroed() };
                let fh = unsafe {
                    SFileFindFirstFile(h_id as HANDLE, c"*".as_ptr(), &mut data, std::ptr::null())
                };
                started2.store(true, Ordering::SeqCst);
                if fh.is_null() {
                    break;
                }
                found.push(fh as usize);
                std::thread::sleep(std::time::Duration::from_micros(200));
            }
            found
        });

        while !started.load(Ordering::SeqCst) {
            std::thread::yield_now();
        }
        // Sweep the moment of the close over the other thread's open/sleep cycle
        std::thread::sleep(std::time::Duration::from_micros(37 * (round as u64 % 64)));
        assert!(SFileCloseArchive(h));
        let found = finder.join().unwrap();

        for fh in found {
            // SFileFindClose succeeds only for a live search handle
            if unsafe { SFileFindClose(fh as HANDLE) } {
                survivors += 1;
            }
        }
    }
    assert_eq!(
        survivors, 0,
        "{survivors} search handle(s) were still alive after SFileCloseArchive returned true \
         ({ROUNDS} rounds)"
    );
}
