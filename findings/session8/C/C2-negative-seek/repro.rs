//! Repro C2: SFileSetFilePointer to a position before the start of the file
//! lands at end-of-file and reports success (negative i64 cast to usize, then
//! clamped to the file length). StormLib refuses such a seek (returns
//! SFILE_INVALID_POS, sets an error, leaves the position alone).
//!
//! Location: ffi/storm-ffi/tests/repro_c2_negative_seek.rs
//! Run: cargo test --offline -p storm-ffi --test repro_c2_negative_seek

#[allow(dead_code, clippy::all)]
#[path = "../src/lib.rs"]
mod storm;

use std::ffi::CString;
use storm::*;

const FILE_BEGIN: u32 = 0;
const FILE_CURRENT: u32 = 1;
const FILE_END: u32 = 2;
const INVALID_POS: u32 = 0xFFFF_FFFF;
const CONTENT: &[u8] = b"0123456789abcdefghij"; // 20 bytes

unsafe fn open_file() -> (tempfile::TempDir, HANDLE, HANDLE) {
    let dir = tempfile::tempdir().unwrap();
    let path = dir.path().join("c2.mpq");
    wow_mpq::ArchiveBuilder::new()
        .version(wow_mpq::FormatVersion::V2)
        .add_file_data(CONTENT.to_vec(), "f.txt")
        .build(&path)
        .unwrap();
    let c_path = CString::new(path.to_str().unwrap()).unwrap();
    let mut h: HANDLE = std::ptr::null_mut();
    assert!(SFileOpenArchive(c_path.as_ptr(), 0, 0, &mut h));
    let mut f: HANDLE = std::ptr::null_mut();
    assert!(SFileOpenFileEx(h, c"f.txt".as_ptr(), 0, &mut f));
    (dir, h, f)
}

unsafe fn tell(f: HANDLE) -> u32 {
    SFileSetFilePointer(f, 0, std::ptr::null_mut(), FILE_CURRENT)
}

unsafe fn read_byte(f: HANDLE) -> Option<u8> {
    let mut b = [0u8; 1];
    let mut n = 0u32;
    assert!(SFileReadFile(
        f,
        b.as_mut_ptr().cast(),
        1,
        &mut n,
        std::ptr::null_mut()
    ));
    (n == 1).then_some(b[0])
}

#[test]
fn seek_before_start_is_refused_and_leaves_the_position_alone() {
    unsafe {
        let (_dir, h, f) = open_file();

        // FILE_CURRENT going below zero
        assert_eq!(
            SFileSetFilePointer(f, 5, std::ptr::null_mut(), FILE_BEGIN),
            5
        );
        let r = SFileSetFilePointer(f, -10, std::ptr::null_mut(), FILE_CURRENT);
        assert_eq!(
            r, INVALID_POS,
            "FILE_CURRENT -10 from 5 returned position {r}"
        );
        assert_ne!(SFileGetLastError(), 0);
        assert_eq!(tell(f), 5);
        assert_eq!(read_byte(f), Some(b'5'));

        // FILE_BEGIN with a negative 32-bit offset (no high part)
        assert_eq!(
            SFileSetFilePointer(f, 5, std::ptr::null_mut(), FILE_BEGIN),
            5
        );
        let r = SFileSetFilePointer(f, -1, std::ptr::null_mut(), FILE_BEGIN);
        assert_eq!(r, INVALID_POS, "FILE_BEGIN -1 returned position {r}");
        assert_ne!(SFileGetLastError(), 0);
        assert_eq!(tell(f), 5);

        // FILE_BEGIN with a negative 64-bit offset (high part = -1)
        let mut high: i32 = -1;
        let r = SFileSetFilePointer(f, -4, &mut high, FILE_BEGIN);
        assert_eq!(
            r, INVALID_POS,
            "FILE_BEGIN -4 (64-bit) returned position {r}"
        );
        assert_ne!(SFileGetLastError(), 0);
        assert_eq!(tell(f), 5);

        // FILE_END going below zero
        let r = SFileSetFilePointer(f, -21, std::ptr::null_mut(), FILE_END);
        assert_eq!(
            r, INVALID_POS,
            "FILE_END -21 on a 20 byte file returned position {r}"
        );
        assert_eq!(tell(f), 5);

        SFileCloseFile(f);
        SFileCloseArchive(h);
    }
}

#[test]
fn legal_seeks_keep_working() {
    unsafe {
        let (_dir, h, f) = open_file();

        assert_eq!(
            SFileSetFilePointer(f, -1, std::ptr::null_mut(), FILE_END),
            19
        );
        assert_eq!(read_byte(f), Some(b'j'));
        assert_eq!(
            SFileSetFilePointer(f, -20, std::ptr::null_mut(), FILE_END),
            0
        );
        assert_eq!(read_byte(f), Some(b'0'));
        assert_eq!(
            SFileSetFilePointer(f, 9, std::ptr::null_mut(), FILE_CURRENT),
            10
        );
        assert_eq!(
            SFileSetFilePointer(f, -10, std::ptr::null_mut(), FILE_CURRENT),
            0
        );

        // Seeking past the end clamps to the end (reads then return 0 bytes)
        assert_eq!(
            SFileSetFilePointer(f, 1000, std::ptr::null_mut(), FILE_BEGIN),
            20
        );
        assert_eq!(read_byte(f), None);

        // With a high part the low part is unsigned: 0x0000_0000_FFFF_FFFF is a
        // (large) forward seek, not -1
        let mut high: i32 = 0;
        assert_eq!(SFileSetFilePointer(f, -1, &mut high, FILE_BEGIN), 20);
        assert_eq!(high, 0);

        SFileCloseFile(f);
        SFileCloseArchive(h);
    }
}
