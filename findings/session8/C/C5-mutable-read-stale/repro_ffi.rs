//! Repro C5 through the C API: SFileAddFile (zlib by default) followed by
//! SFileOpenFileEx / SFileExtractFile on the same (mutable) archive handle.
//!
//! Location: ffi/storm-ffi/tests/repro_c5_ffi_open_after_add.rs
//! Run: cargo test --offline -p storm-ffi --test repro_c5_ffi_open_after_add

#[allow(dead_code, clippy::all)]
#[path = "../src/lib.rs"]
mod storm;

use std::ffi::CString;
use storm::*;

#[test]
fn file_added_with_default_compression_can_be_opened_on_the_same_handle() {
    unsafe {
        let dir = tempfile::tempdir().unwrap();
        let mpq = CString::new(dir.path().join("c5.mpq").to_str().unwrap()).unwrap();
        let content = b"compressible compressible compressible compressible ".repeat(20);
        let src = dir.path().join("payload.txt");
        std::fs::write(&src, &content).unwrap();
        let src = CString::new(src.to_str().unwrap()).unwrap();

        let info = SFILE_CREATE_MPQ {
            cb_size: std::mem::size_of::<SFILE_CREATE_MPQ>() as u32,
            mpq_version: 1,
            user_data: std::ptr::null_mut(),
            cb_user_data: 0,
            stream_flags: 0,
            file_flags_1: 1,
            file_flags_2: 0,
            file_flags_3: 0,
            attr_flags: 0,
            sector_size: 3,
            raw_chunk_size: 0,
            max_file_count: 16,
        };
        let mut h: HANDLE = std::ptr::null_mut();
        assert!(SFileCreateArchive2(mpq.as_ptr(), &info, &mut h));
        assert!(SFileAddFile(h, src.as_ptr(), c"new.txt".as_ptr(), 0));

        let mut f: HANDLE = std::ptr::null_mut();
        let ok = SFileOpenFileEx(h, c"new.txt".as_ptr(), 0, &mut f);
        assert!(ok, "SFileOpenFileEx failed with error {}", SFileGetLastError());
        let mut buf = vec![0u8; content.len() + 16];
        let mut n = 0u32;
        assert!(SFileReadFile(f, buf.as_mut_ptr().cast(), buf.len() as u32, &mut n, std::ptr::null_mut()));
        assert_eq!(&buf[..n as usize], &content[..]);
        SFileCloseFile(f);

        let out = dir.path().join("out.txt");
        let c_out = CString::new(out.to_str().unwrap()).unwrap();
        assert!(SFileExtractFile(h, c"new.txt".as_ptr(), c_out.as_ptr(), 0));
        assert_eq!(std::fs::read(&out).unwrap(), content);

        assert!(SFileCloseArchive(h));
    }
}
