//! Repro C5: `MutableArchive::read_file` answers from the read-only view taken at
//! open for every block that is compressed or encrypted, so on the same handle
//! - a file replaced with (default = zlib) compressed data reads back the OLD bytes,
//! - a brand-new compressed or encrypted file reads back `FileNotFound`,
//! - a renamed compressed file cannot be read under its new name.
//!
//! Location: file-formats/archives/wow-mpq/tests/repro_c5_mutable_read_current.rs
//! Run: cargo test --offline -p wow-mpq --test repro_c5_mutable_read_current

use wow_mpq::compression::CompressionMethod;
use wow_mpq::{AddFileOptions, Archive, ArchiveBuilder, FormatVersion, MutableArchive};

fn compressible(tag: &str, n: usize) -> Vec<u8> {
    format!("{tag} line of text that compresses well\n")
        .repeat(n)
        .into_bytes()
}

fn base_archive(dir: &tempfile::TempDir) -> std::path::PathBuf {
    let path = dir.path().join("c5.mpq");
    ArchiveBuilder::new()
        .version(FormatVersion::V1)
        .add_file_data(compressible("old", 40), "a.txt")
        // several sectors, compressed, to cover a block the builder wrote
        .add_file_data(compressible("big", 2000), "big.txt")
        .build(&path)
        .unwrap();
    path
}

#[test]
fn replaced_compressed_file_reads_back_new_content() {
    let dir = tempfile::tempdir().unwrap();
    let path = base_archive(&dir);
    let new = compressible("NEW", 60);

    let mut archive = MutableArchive::open(&path).unwrap();
    assert_eq!(archive.read_file("a.txt").unwrap(), compressible("old", 40));
    archive
        .add_file_data(&new, "a.txt", AddFileOptions::new().replace_existing(true))
        .unwrap();

    let got = archive.read_file("a.txt").unwrap();
    assert!(
        got == new,
        "read_file after replace returned {:?}...",
        String::from_utf8_lossy(&got[..20.min(got.len())])
    );

    // and the same after closing
    drop(archive);
    assert_eq!(
        Archive::open(&path).unwrap().read_file("a.txt").unwrap(),
        new
    );
}

#[test]
fn new_compressed_and_encrypted_files_are_readable_in_session() {
    let dir = tempfile::tempdir().unwrap();
    let path = base_archive(&dir);
    let mut archive = MutableArchive::open(&path).unwrap();

    let cases: Vec<(&str, AddFileOptions)> = vec![
        ("zlib.txt", AddFileOptions::new()),
        (
            "bzip2.txt",
            AddFileOptions::new().compression(CompressionMethod::BZip2),
        ),
        (
            "enc.txt",
            AddFileOptions::new()
                .compression(CompressionMethod::None)
                .encrypt(),
        ),
        ("enc_zlib.txt", AddFileOptions::new().encrypt()),
        ("dir\\fixkey.txt", AddFileOptions::new().fix_key()),
    ];
    for (name, options) in &cases {
        let data = compressible(name, 50);
        archive.add_file_data(&data, name, options.clone()).unwrap();
        match archive.read_file(name) {
            Ok(got) => assert!(got == data, "{name}: wrong content read back in session"),
            Err(e) => panic!("{name}: read_file right after add_file_data failed: {e}"),
        }
    }

    // Untouched files written by the builder still read (multi-sector, compressed)
    assert_eq!(
        archive.read_file("big.txt").unwrap(),
        compressible("big", 2000)
    );

    // Everything reads the same from a fresh handle
    drop(archive);
    let mut reopened = Archive::open(&path).unwrap();
    for (name, _) in &cases {
        assert_eq!(reopened.read_file(name).unwrap(), compressible(name, 50));
    }
}

#[test]
fn renamed_compressed_file_is_readable_under_its_new_name() {
    let dir = tempfile::tempdir().unwrap();
    let path = base_archive(&dir);
    let mut archive = MutableArchive::open(&path).unwrap();

    archive.rename_file("big.txt", "moved\\big.txt").unwrap();
    match archive.read_file("moved\\big.txt") {
        Ok(got) => assert!(got == compressible("big", 2000)),
        Err(e) => panic!("reading the renamed file failed: {e}"),
    }
}
