//! Repro C3: on a handle opened for modification (SFileCreateArchive2 returns
//! one), SFileHasFile consults the read-only view taken when the archive was
//! opened. After SFileAddFileEx / SFileRemoveFile / SFileRenameFile in the same
//! session it reports a just-added file absent and a removed one present, and
//! it disagrees with SFileOpenFileEx on the same handle.
//!
//! Location: ffi/storm-ffi/tests/repro_c3_hasfile_mutable.rs
//! Run: cargo test --offline -p storm-ffi --test repro_c3_hasfile_mutable

#[allow(dead_code, clippy::all)]
#[path = "../src/lib.rs"]
mod storm;

use std::ffi::CString;
use storm::*;

unsafe fn can_open(h: HANDLE, name: &std::ffi::CStr) -> bool {
    let mut f: HANDLE = std::ptr::null_mut();
    let ok = SFileOpenFileEx(h, name.as_ptr(), 0, &mut f);
    if ok {
        SFileCloseFile(f);
    }
    ok
}

#[test]
fn has_file_follows_modifications_made_through_the_same_handle() {
    unsafe {
        let dir = tempfile::tempdir().unwrap();
        let mpq = CString::new(dir.path().join("c3.mpq").to_str().unwrap()).unwrap();
        let src = dir.path().join("payload.bin");
        std::fs::write(&src, b"payload payload payload").unwrap();
        let src = CString::new(src.to_str().unwrap()).unwrap();

        let info = SFILE_CREATE_MPQ {
            cb_size: std::mem::size_of::<SFILE_CREATE_MPQ>() as u32,
            mpq_version: 1,
            user_data: std::ptr::null_mut(),
            cb_user_data: 0,
            stream_flags: 0,
            file_flags_1: 1, // with (listfile)
            file_flags_2: 0,
            file_flags_3: 0,
            attr_flags: 0,
            sector_size: 3,
            raw_chunk_size: 0,
            max_file_count: 16,
        };
        let mut h: HANDLE = std::ptr::null_mut();
        assert!(SFileCreateArchive2(mpq.as_ptr(), &info, &mut h));

        // Add (stored, so that reading it back does not depend on C5)
        assert!(SFileAddFileEx(
            h,
            src.as_ptr(),
            c"new.txt".as_ptr(),
            0,
            0,
            0
        ));
        assert!(can_open(h, c"new.txt"), "the added file can be opened");
        assert!(
            SFileHasFile(h, c"new.txt".as_ptr()),
            "SFileHasFile reports the file just added through this handle as absent"
        );

        // Rename
        assert!(SFileRenameFile(
            h,
            c"new.txt".as_ptr(),
            c"renamed.txt".as_ptr()
        ));
        assert!(
            SFileHasFile(h, c"renamed.txt".as_ptr()),
            "renamed file is absent"
        );
        assert!(
            !SFileHasFile(h, c"new.txt".as_ptr()),
            "old name still present"
        );

        // Remove
        assert!(SFileRemoveFile(h, c"renamed.txt".as_ptr(), 0));
        assert!(!can_open(h, c"renamed.txt"));
        assert!(
            !SFileHasFile(h, c"renamed.txt".as_ptr()),
            "removed file still present"
        );

        assert!(SFileCloseArchive(h));
    }
}

#[test]
fn control_added_file_is_visible_to_a_fresh_open_after_close() {
    unsafe {
        let dir = tempfile::tempdir().unwrap();
        let mpq = CString::new(dir.path().join("c3b.mpq").to_str().unwrap()).unwrap();
        let src = dir.path().join("payload.bin");
        std::fs::write(&src, b"payload").unwrap();
        let src = CString::new(src.to_str().unwrap()).unwrap();

        let info = SFILE_CREATE_MPQ {
            cb_size: std::mem::size_of::<SFILE_CREATE_MPQ>() as u32,
            mpq_version: 1,
            user_data: std::ptr::null_mut(),
            cb_user_data: 0,
            stream_flags: 0,
            file_flags_1: 1,
            file_flags_2: 0,
            file_flags_3: 0,
            attr_flags: 0,
            sector_size: 3,
            raw_chunk_size: 0,
            max_file_count: 16,
        };
        // Session 1: create + add, close (flushes)
        let mut h: HANDLE = std::ptr::null_mut();
        assert!(SFileCreateArchive2(mpq.as_ptr(), &info, &mut h));
        assert!(SFileAddFileEx(
            h,
            src.as_ptr(),
            c"old.txt".as_ptr(),
            0,
            0,
            0
        ));
        assert!(SFileCloseArchive(h));

        // The file is there for a fresh read-only open
        let mut ro: HANDLE = std::ptr::null_mut();
        assert!(SFileOpenArchive(mpq.as_ptr(), 0, 0, &mut ro));
        assert!(SFileHasFile(ro, c"old.txt".as_ptr()));
        assert!(SFileCloseArchive(ro));
    }
}
