//! B3 — REFUTED. This test PASSES on unmodified HEAD; it documents why the suspect is not
//! reachable.
//!
//! `McnkChunk::parse_with_offset_and_size` (chunks/mcnk/chunk.rs) does
//!
//!     let payload_size = header.size_liquid.saturating_sub(8);
//!     let mut data = vec![0u8; payload_size as usize];
//!     reader.read_exact(&mut data)?;
//!
//! * underflow for size_liquid < 8: handled by the `saturating_sub`.
//! * huge allocation: `McnkHeader` (chunks/mcnk/header.rs) reads the field with
//!   `#[br(map = |x: u32| if x >= 0x100000 { 0 } else { x })]`, so any value >= 1 MiB becomes 0
//!   ("no liquid") and the buffer is at most 0xFFFF7 bytes (< 1 MiB).
//! * the `liquid_size - 8` spelling lives in src/chunk.rs, which is not declared as a module in
//!   lib.rs (dead file, never compiled).
//!
//! The test installs a counting global allocator and checks the largest single allocation
//! request made while parsing.
//!
//! Place as file-formats/world-data/wow-adt/tests/mclq_alloc_bound.rs
//! Run: cargo test --offline -p wow-adt --test mclq_alloc_bound

use std::alloc::{GlobalAlloc, Layout, System};
use std::io::Cursor;
use std::sync::atomic::{AtomicUsize, Ordering};

use wow_adt::McnkChunk;

struct MaxAlloc;
static MAX_REQUEST: AtomicUsize = AtomicUsize::new(0);

unsafe impl GlobalAlloc for MaxAlloc {
    unsafe fn alloc(&self, l: Layout) -> *mut u8 {
        MAX_REQUEST.fetch_max(l.size(), Ordering::Relaxed);
        unsafe { System.alloc(l) }
    }
    unsafe fn alloc_zeroed(&self, l: Layout) -> *mut u8 {
        MAX_REQUEST.fetch_max(l.size(), Ordering::Relaxed);
        unsafe { System.alloc_zeroed(l) }
    }
    unsafe fn realloc(&self, p: *mut u8, l: Layout, new_size: usize) -> *mut u8 {
        MAX_REQUEST.fetch_max(new_size, Ordering::Relaxed);
        unsafe { System.realloc(p, l, new_size) }
    }
    unsafe fn dealloc(&self, p: *mut u8, l: Layout) {
        unsafe { System.dealloc(p, l) }
    }
}

#[global_allocator]
static GLOBAL: MaxAlloc = MaxAlloc;

/// MCNK chunk (8-byte chunk header + 136-byte MCNK header as this crate reads it + MCVT + MCLQ header + `mclq_payload`
/// bytes) whose header announces `size_liquid`.
fn mcnk_with_liquid(size_liquid: u32, mclq_payload: usize) -> Vec<u8> {
    let mut d = Vec::new();
    d.extend_from_slice(b"KNCM");
    d.extend_from_slice(&0u32.to_le_bytes()); // patched below
    let hdr = d.len();
    d.extend_from_slice(&0u32.to_le_bytes()); // flags
    d.extend_from_slice(&0u32.to_le_bytes()); // index_x
    d.extend_from_slice(&0u32.to_le_bytes()); // index_y
    d.extend_from_slice(&0u32.to_le_bytes()); // n_layers
    d.extend_from_slice(&0u32.to_le_bytes()); // n_doodad_refs
    d.extend_from_slice(&144u32.to_le_bytes()); // ofs_height
    d.extend_from_slice(&0u32.to_le_bytes()); // ofs_normal
    d.extend_from_slice(&[0u8; 4 * 6]); // ofs_layer, ofs_refs, ofs_alpha, size_alpha, ofs_shadow, size_shadow
    d.extend_from_slice(&0u32.to_le_bytes()); // area_id
    d.extend_from_slice(&0u32.to_le_bytes()); // n_map_obj_refs
    d.extend_from_slice(&[0u8; 4]); // holes, unknown
    d.extend_from_slice(&[0u8; 16]); // pred_tex, no_effect_doodad
    d.extend_from_slice(&[0u8; 8]); // unknown_8bytes (this crate's layout)
    d.extend_from_slice(&[0u8; 8]); // ofs_snd_emitters, n_snd_emitters
    let ofs_liquid = 144 + 8 + 145 * 4;
    d.extend_from_slice(&(ofs_liquid as u32).to_le_bytes()); // ofs_liquid
    d.extend_from_slice(&size_liquid.to_le_bytes()); // size_liquid
    d.extend_from_slice(&[0u8; 12]); // position
    d.extend_from_slice(&[0u8; 12]); // ofs_mccv, ofs_mclv, unused
    d.extend_from_slice(&[0u8; 8]); // padding
    assert_eq!(d.len() - hdr, 136);
    d.extend_from_slice(b"TVCM");
    d.extend_from_slice(&(145u32 * 4).to_le_bytes());
    d.extend_from_slice(&[0u8; 145 * 4]);
    assert_eq!(d.len(), ofs_liquid);
    d.extend_from_slice(b"QLCM");
    d.extend_from_slice(&0u32.to_le_bytes()); // MCLQ's own size field is always 0
    d.extend(std::iter::repeat_n(0u8, mclq_payload));
    let size = (d.len() - 8) as u32;
    d[4..8].copy_from_slice(&size.to_le_bytes());
    d
}

fn parse_and_measure(data: Vec<u8>) -> (bool, usize) {
    let len = data.len();
    let mut cur = Cursor::new(data);
    cur.set_position(8);
    MAX_REQUEST.store(0, Ordering::Relaxed);
    let res = McnkChunk::parse_with_offset_and_size(&mut cur, 0, (len - 8) as u32);
    (res.is_ok(), MAX_REQUEST.load(Ordering::Relaxed))
}

#[test]
fn mclq_buffer_is_bounded() {
    // one test function only: the allocator high-water mark is process-global
    for size_liquid in [u32::MAX, 0x8000_0000, 0x1000_0000, 0x0010_0000] {
        // >= 1 MiB: the header reader maps the field to 0, the chunk parses as "no liquid"
        let (ok, max_req) = parse_and_measure(mcnk_with_liquid(size_liquid, 16));
        assert!(ok, "size_liquid={size_liquid:#x}");
        assert!(max_req <= 1 << 20, "size_liquid={size_liquid:#x}: {max_req} bytes requested");
    }
    // largest value that survives the header map: buffer is < 1 MiB, read fails cleanly
    let (ok, max_req) = parse_and_measure(mcnk_with_liquid(0x000F_FFFF, 16));
    assert!(!ok);
    assert!(max_req <= 1 << 20, "{max_req} bytes requested");
    println!("size_liquid=0xFFFFF: largest single allocation = {max_req} bytes");

    // a placeholder (size_liquid == 8, header only) and a too-small value parse as "no liquid"
    for size_liquid in [8u32, 3, 1] {
        let (ok, _) = parse_and_measure(mcnk_with_liquid(size_liquid, 0));
        assert!(ok, "size_liquid={size_liquid} must parse as 'no liquid'");
    }
}
