//! B7 reproduction: the PKWARE DCL decoder (`compression/algorithms/pkware.rs`, method byte 0x08,
//! also the last stage of several multi-compression masks) hands the stream to
//! `implode::exploder::Exploder` after checking only byte 0 (literal mode). Byte 1 is the
//! dictionary size in bits and the only legal values are 4, 5 and 6 (StormLib/pklib answer
//! CMP_INVALID_DICTSIZE for anything else). The `implode` crate takes it verbatim:
//!
//!   * dict_bits >= 32: `(dist_code as u32) << dict_bits`            -> "attempt to shift left with overflow"
//!   * dict_bits 7..31: distance = (dist_code << dict_bits | ..) + 1 can exceed the 4096-byte
//!     window, `self.write_offs - distance`                          -> "attempt to subtract with overflow"
//!     (release builds wrap and then index `buff[..]` out of bounds -> panic as well)
//!
//! Reachable from `wow_mpq::decompress` and from `Archive::read_file` on a crafted archive.
//!
//! Place as file-formats/archives/wow-mpq/tests/pkware_dict_bits.rs
//! Run: cargo test --offline -p wow-mpq --test pkware_dict_bits

use std::panic::{AssertUnwindSafe, catch_unwind};

use wow_mpq::compression::flags;
use wow_mpq::{Archive, ArchiveBuilder, AttributesOption, ListfileOption, decompress};

/// mode 0 (binary), dictionary bits = `dict_bits`, then one (length 3, distance code 63) pair:
/// bit0 = 1 (pair), bits1-2 = 11 (length code 1), bits3-10 = 0 (distance code 63), rest 0.
fn stream(dict_bits: u8) -> Vec<u8> {
    vec![0x00, dict_bits, 0x07, 0x00, 0x00, 0x00, 0x00, 0x00]
}

#[test]
fn pkware_stream_with_illegal_dictionary_size_is_an_error() {
    let mut panicked = Vec::new();
    for dict_bits in [0u8, 3, 7, 8, 13, 31, 32, 64, 0xFA, 0xFF] {
        let data = stream(dict_bits);
        match catch_unwind(|| decompress(&data, flags::PKWARE, 4096)) {
            Err(_) => panicked.push(dict_bits),
            Ok(res) => assert!(res.is_err(), "dict_bits={dict_bits} must be rejected"),
        }
    }
    assert!(panicked.is_empty(), "decompress() panicked for dictionary bits {panicked:?}");

    // the three legal sizes still go through the decoder
    for dict_bits in [4u8, 5, 6] {
        // literal 'A' (bit0 = 0, 8 bits 0x41) followed by the end marker
        // (pair bit 1, length code 15 = 7 zero bits, 8 extra bits all ones)
        let data = [0x00, dict_bits, 0x82, 0x02, 0xFE, 0x01];
        let out = decompress(&data, flags::PKWARE, 1).expect("legal stream");
        assert_eq!(out, b"A");
    }
}

#[test]
fn read_file_of_archive_with_corrupt_pkware_sector_is_an_error() {
    let dir = tempfile::tempdir().unwrap();
    let good = dir.path().join("good.mpq");
    let bad = dir.path().join("bad.mpq");
    let content: Vec<u8> = b"abcabcabd".iter().cycle().take(3000).copied().collect();

    ArchiveBuilder::new()
        .listfile_option(ListfileOption::None)
        .attributes_option(AttributesOption::None)
        .default_compression(flags::PKWARE)
        .add_file_data(content.clone(), "a.txt")
        .build(&good)
        .unwrap();
    assert_eq!(Archive::open(&good).unwrap().read_file("a.txt").unwrap(), content);

    // the sector starts with: method byte 0x08, literal mode 0, dictionary bits 5 (2 KiB)
    let mut bytes = std::fs::read(&good).unwrap();
    let at = bytes
        .windows(3)
        .position(|w| w == [0x08, 0x00, 0x05])
        .expect("PKWARE sector header");
    bytes[at + 2] = 13; // dictionary bits
    bytes[at + 3..at + 9].copy_from_slice(&[0x07, 0, 0, 0, 0, 0]); // one far-away pair
    std::fs::write(&bad, &bytes).unwrap();

    let res = catch_unwind(AssertUnwindSafe(|| {
        Archive::open(&bad).and_then(|mut a| a.read_file("a.txt"))
    }));
    match res {
        Err(_) => panic!("Archive::read_file panicked on a corrupt PKWARE sector"),
        Ok(r) => assert!(r.is_err(), "corrupt sector must be an error"),
    }
}
