//! B6 reproduction: `BetTable::read` (wow-mpq/src/tables/bet.rs) checks that the arrays the BET
//! header announces are present:
//!
//!     announced = flag_count*4 + ceil(file_count * table_entry_size / 8) + bet_hash_array_size
//!
//! With `table_entry_size = 0` the file-table term is 0 for ANY `file_count`, so a header with
//! `file_count = 0xFFFF_FFFF` passes. Everything that enumerates the archive then runs
//! `for i in 0..bet.header.file_count` (`Archive::list`, `list_all`, `list_all_with_hashes`),
//! and because a 0-bit entry makes `get_file_info(i)` read the same bits for every `i`, each
//! iteration yields a phantom "existing" file that is formatted and pushed (when the per-field
//! bit counts are 0 as well; otherwise `get_file_info` returns None 2^32 times before the
//! classic tables are tried): 2^32 iterations and hundreds of GiB of `FileEntry` from a
//! 500-byte archive.
//!
//! The test builds a valid one-file V3 archive with the crate's own builder, rewrites the two
//! header fields inside the (encrypted) BET table, and enumerates. To keep a failing run harmless
//! it uses file_count = 2_000_000 rather than 0xFFFF_FFFF; the check is the same one.
//!
//! Place as file-formats/archives/wow-mpq/tests/bet_file_count.rs
//! Run: cargo test --offline -p wow-mpq --test bet_file_count

use wow_mpq::{
    Archive, ArchiveBuilder, AttributesOption, FormatVersion, ListfileOption, decrypt_block,
    encrypt_block, hash_string, hash_type,
};

const CLAIMED_FILES: u32 = 2_000_000;

fn patch_bet(bytes: &mut [u8], bet_pos: usize, patch: impl FnOnce(&mut [u32])) {
    // 12-byte extended header (signature, version, data_size) is never encrypted
    assert_eq!(&bytes[bet_pos..bet_pos + 4], b"BET\x1A");
    let data_size =
        u32::from_le_bytes(bytes[bet_pos + 8..bet_pos + 12].try_into().unwrap()) as usize;
    let body = &mut bytes[bet_pos + 12..bet_pos + 12 + data_size];
    let key = hash_string("(block table)", hash_type::FILE_KEY);

    let mut words: Vec<u32> = body
        .chunks_exact(4)
        .map(|c| u32::from_le_bytes(c.try_into().unwrap()))
        .collect();
    decrypt_block(&mut words, key);
    patch(&mut words);
    encrypt_block(&mut words, key);
    for (c, w) in body.chunks_exact_mut(4).zip(&words) {
        c.copy_from_slice(&w.to_le_bytes());
    }
}

#[test]
fn bet_file_count_is_bounded_by_the_table_data() {
    let dir = tempfile::tempdir().unwrap();
    let good = dir.path().join("good.mpq");
    let bad = dir.path().join("bad.mpq");

    ArchiveBuilder::new()
        .version(FormatVersion::V3)
        .listfile_option(ListfileOption::None)
        .attributes_option(AttributesOption::None)
        .compress_tables(false)
        .add_file_data(b"hello world".to_vec(), "hello.txt")
        .build(&good)
        .unwrap();

    // control: the untouched archive enumerates its one file through HET/BET
    let bet_pos = {
        let mut a = Archive::open(&good).unwrap();
        let file_count = a.bet_table().expect("builder wrote a BET table").header.file_count;
        assert_eq!(file_count, 1);
        assert_eq!(a.list_all().unwrap().len(), 1);
        a.header().bet_table_pos.unwrap() as usize
    };

    let mut bytes = std::fs::read(&good).unwrap();
    patch_bet(&mut bytes, bet_pos, |h| {
        // BetHeader: [0]=table_size [1]=file_count [2]=unknown_08 [3]=table_entry_size ...
        assert_eq!(h[1], 1, "decrypted BET header: file_count");
        h[1] = CLAIMED_FILES;
        h[3] = 0;
        // [9..=13] = bit counts of the five per-file fields: 0-bit fields in a 0-bit entry, so
        // every index decodes to (pos 0, size 0, flags = file_flags[0] = the real file's flags)
        for c in &mut h[9..=13] {
            *c = 0;
        }
    });
    std::fs::write(&bad, &bytes).unwrap();
    println!("crafted archive: {} bytes", bytes.len());

    // Either the table is rejected (open fails, or the archive falls back to the classic
    // tables), or enumeration is bounded by what the archive can hold. What must not happen
    // is one enumerated entry per claimed file.
    let started = std::time::Instant::now();
    let listed = match Archive::open(&bad) {
        Err(_) => 0,
        Ok(mut a) => {
            if let Some(bet) = a.bet_table() {
                let (fc, es) = (bet.header.file_count, bet.header.table_entry_size);
                println!("BET table accepted with file_count={fc}, table_entry_size={es}");
            }
            a.list_all().map(|v| v.len()).unwrap_or(0)
        }
    };
    println!("enumerated {listed} entries in {:?}", started.elapsed());
    assert!(
        listed <= 1,
        "a {}-byte archive holding one file enumerated {listed} entries \
         (BET header claims {CLAIMED_FILES} files of 0 bits each)",
        bytes.len()
    );
}
