//! B2 reproduction: `parse_dxtn` computes
//!   blocks_n = ceil(w/4) * ceil(h/4);  blocks_size = blocks_n * block_size
//! in usize from header-supplied u32 dimensions. For w = h >= 0xFFFF_FFFD,
//! blocks_n = 2^60 and with the 16-byte DXT3/DXT5 block the product is 2^64: overflow.
//! Panic with overflow checks (debug / test profile); in release it wraps to 0 and the
//! image is accepted with empty content. On 32-bit targets blocks_n itself overflows for
//! much smaller dimensions.
//!
//! Place as file-formats/graphics/wow-blp/tests/dxtn_block_size_overflow.rs
//! Run: cargo test --offline -p wow-blp --test dxtn_block_size_overflow

use wow_blp::parser::parse_blp;

/// BLP2 + DXTC, given alpha_type (1 = DXT3, 7 = DXT5), given dimensions, no mipmaps,
/// 16 bytes of image data (one block).
fn blp2_dxt(alpha_type: u8, width: u32, height: u32) -> Vec<u8> {
    let header_len = 4 + 4 + 4 + 4 + 4 + 16 * 4 * 2;
    let data_off = (header_len + 256 * 4) as u32;
    let mut v = Vec::new();
    v.extend_from_slice(b"BLP2");
    v.extend_from_slice(&1u32.to_le_bytes()); // content = Direct
    v.push(2); // compression = DXTC
    v.push(8); // alpha bits
    v.push(alpha_type);
    v.push(0); // has_mipmaps
    v.extend_from_slice(&width.to_le_bytes());
    v.extend_from_slice(&height.to_le_bytes());
    let mut offsets = [0u32; 16];
    let mut sizes = [0u32; 16];
    offsets[0] = data_off;
    sizes[0] = 16;
    for o in offsets {
        v.extend_from_slice(&o.to_le_bytes());
    }
    for s in sizes {
        v.extend_from_slice(&s.to_le_bytes());
    }
    v.extend_from_slice(&[0u8; 256 * 4]); // palette
    assert_eq!(v.len(), data_off as usize);
    v.extend_from_slice(&[0xAAu8; 16]); // one block
    v
}

fn check(alpha_type: u8, w: u32, h: u32) {
    let input = blp2_dxt(alpha_type, w, h);
    let res = std::panic::catch_unwind(|| parse_blp(&input));
    let res = match res {
        Err(_) => panic!("parse_blp panicked for alpha_type={alpha_type} {w:#x}x{h:#x}"),
        Ok(r) => r,
    };
    // The file holds exactly one 16-byte block. Whatever the parser decides (error, or the
    // documented "read only whole blocks that are present" fallback), it must not conclude
    // that a 2^32-pixel-wide image needs zero bytes.
    if let Ok(img) = res {
        let n = match &img.content {
            wow_blp::types::BlpContent::Dxt3(d) | wow_blp::types::BlpContent::Dxt5(d) => {
                d.images[0].content.len()
            }
            other => panic!("unexpected content {other:?}"),
        };
        assert_eq!(n, 16, "expected the one present block to be read, got {n} bytes");
    }
}

#[test]
fn dxt3_huge_dimensions_do_not_overflow() {
    check(1, u32::MAX, u32::MAX);
}

#[test]
fn dxt5_huge_dimensions_do_not_overflow() {
    check(7, u32::MAX, u32::MAX);
    check(7, 0xFFFF_FFFD, 0xFFFF_FFFD);
}
