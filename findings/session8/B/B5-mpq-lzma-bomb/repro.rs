//! B5 reproduction: the LZMA decoder of wow-mpq (`compression/algorithms/lzma.rs`, reached
//! through `wow_mpq::decompress(.., flags::LZMA, expected)` and therefore through
//! `Archive::read_file` for every LZMA-compressed sector/file) hands the stream to
//! `lzma_rs::lzma_decompress` with an unbounded `Vec` as sink. The amount of output is whatever
//! the stream's own header says, not `expected_size`; the size check
//! (`validate_decompression_result`, `DecompressionMonitor`) only runs after everything has been
//! expanded. zlib and bzip2 in the same directory are bounded by `take(expected_size + 1)`.
//!
//! The test builds (with a ~60 line range encoder, because lzma-rs's own encoder emits literals
//! only) a ~20 KiB LZMA stream that expands to ~130 MiB of zeros, asks for it to be decompressed
//! as a 4096-byte sector, and checks with a counting global allocator that nothing near the full
//! expansion is ever materialised.
//!
//! Place as file-formats/archives/wow-mpq/tests/lzma_bomb.rs
//! Run: cargo test --offline -p wow-mpq --test lzma_bomb

use std::alloc::{GlobalAlloc, Layout, System};
use std::sync::atomic::{AtomicUsize, Ordering};

use wow_mpq::compression::flags;
use wow_mpq::decompress;

struct MaxAlloc;
static MAX_REQUEST: AtomicUsize = AtomicUsize::new(0);

unsafe impl GlobalAlloc for MaxAlloc {
    unsafe fn alloc(&self, l: Layout) -> *mut u8 {
        MAX_REQUEST.fetch_max(l.size(), Ordering::Relaxed);
        unsafe { System.alloc(l) }
    }
    unsafe fn alloc_zeroed(&self, l: Layout) -> *mut u8 {
        MAX_REQUEST.fetch_max(l.size(), Ordering::Relaxed);
        unsafe { System.alloc_zeroed(l) }
    }
    unsafe fn realloc(&self, p: *mut u8, l: Layout, new_size: usize) -> *mut u8 {
        MAX_REQUEST.fetch_max(new_size, Ordering::Relaxed);
        unsafe { System.realloc(p, l, new_size) }
    }
    unsafe fn dealloc(&self, p: *mut u8, l: Layout) {
        unsafe { System.dealloc(p, l) }
    }
}

#[global_allocator]
static GLOBAL: MaxAlloc = MaxAlloc;

// ---- minimal LZMA range encoder: one literal 0x00, then `reps` x (rep0 match, len 273) ----

struct Rc {
    low: u64,
    range: u32,
    cache: u8,
    cache_size: u64,
    out: Vec<u8>,
}

impl Rc {
    fn shift_low(&mut self) {
        if (self.low as u32) < 0xFF00_0000 || (self.low >> 32) != 0 {
            let carry = (self.low >> 32) as u8;
            let mut temp = self.cache;
            loop {
                self.out.push(temp.wrapping_add(carry));
                temp = 0xFF;
                self.cache_size -= 1;
                if self.cache_size == 0 {
                    break;
                }
            }
            self.cache = ((self.low >> 24) & 0xFF) as u8;
        }
        self.cache_size += 1;
        self.low = (self.low & 0x00FF_FFFF) << 8;
    }

    fn bit(&mut self, prob: &mut u16, bit: u32) {
        let bound = (self.range >> 11) * (*prob as u32);
        if bit == 0 {
            self.range = bound;
            *prob += (2048 - *prob) >> 5;
        } else {
            self.low += bound as u64;
            self.range -= bound;
            *prob -= *prob >> 5;
        }
        while self.range < (1 << 24) {
            self.range <<= 8;
            self.shift_low();
        }
    }
}

/// LZMA "alone" stream (lc=3 lp=0 pb=2) that decodes to `1 + 273 * reps` zero bytes.
fn lzma_zeros(reps: usize, dict_size: u32) -> (Vec<u8>, u64) {
    let total = 1 + 273 * reps as u64;
    let mut rc = Rc { low: 0, range: 0xFFFF_FFFF, cache: 0, cache_size: 1, out: Vec::new() };
    let mut is_match = [1024u16; 12 << 4];
    let mut is_rep = [1024u16; 12];
    let mut is_rep_g0 = [1024u16; 12];
    let mut is_rep0_long = [1024u16; 12 << 4];
    let mut lit = [1024u16; 0x300];
    let (mut len_choice, mut len_choice2) = (1024u16, 1024u16);
    let mut len_high = [1024u16; 256];

    // literal 0x00 at position 0, state 0
    rc.bit(&mut is_match[0], 0);
    let mut sym = 1usize;
    for _ in 0..8 {
        rc.bit(&mut lit[sym], 0);
        sym <<= 1;
    }
    let mut state = 0usize;
    let mut pos = 1u64;

    for _ in 0..reps {
        let ps = (pos & 3) as usize;
        rc.bit(&mut is_match[(state << 4) + ps], 1);
        rc.bit(&mut is_rep[state], 1);
        rc.bit(&mut is_rep_g0[state], 0); // rep0 (distance 1)
        rc.bit(&mut is_rep0_long[(state << 4) + ps], 1); // not a short rep
        state = if state < 7 { 8 } else { 11 };
        // length 273 = 2 + 16 + 255: choice=1, choice2=1, high bit-tree value 255
        rc.bit(&mut len_choice, 1);
        rc.bit(&mut len_choice2, 1);
        let mut t = 1usize;
        for _ in 0..8 {
            rc.bit(&mut len_high[t], 1);
            t = (t << 1) | 1;
        }
        pos += 273;
    }
    for _ in 0..5 {
        rc.shift_low();
    }

    let mut stream = vec![0x5D];
    stream.extend_from_slice(&dict_size.to_le_bytes());
    stream.extend_from_slice(&total.to_le_bytes());
    stream.extend_from_slice(&rc.out);
    (stream, total)
}

#[test]
fn lzma_stream_cannot_expand_past_the_expected_size() {
    // one test function only: the allocator high-water mark is process-global

    // control: the hand-made encoder is right, and an honest stream still decodes
    let (small, total) = lzma_zeros(15, 1 << 16);
    let out = decompress(&small, flags::LZMA, total as usize).expect("honest stream decodes");
    assert_eq!(out.len() as u64, total);
    assert!(out.iter().all(|&b| b == 0));

    for dict_size in [1u32 << 23, u32::MAX] {
        let (bomb, total) = lzma_zeros(500_000, dict_size);
        assert!(bomb.len() < 64 << 10, "bomb is {} bytes", bomb.len());
        MAX_REQUEST.store(0, Ordering::Relaxed);
        let res = decompress(&bomb, flags::LZMA, 4096);
        let max_req = MAX_REQUEST.load(Ordering::Relaxed);
        assert!(
            max_req <= 16 << 20,
            "dict_size={dict_size:#x}: a {}-byte LZMA stream announced as a 4096-byte sector was \
             expanded in memory (largest single allocation request: {} MiB; stream expands to {} MiB)",
            bomb.len(),
            max_req >> 20,
            total >> 20
        );
        assert!(res.is_err(), "a stream larger than the expected size must be an error");
    }
}
