//! B8 reproduction: the legacy `WmoParser::parse_root` (wow-wmo/src/parser.rs, used by
//! `warcraft-rs wmo convert`) reads MOVV as a table of u32 byte offsets into MOVB and, for every
//! offset, copies u16 values from MOVB until a 0xFFFF terminator or the end of the chunk:
//!
//!     for &offset in &offsets {            // MOVV.len() / 4 entries
//!         while index + 1 < movb_data.len() { ... list.push(value); index += 2; }   // up to MOVB.len() / 2
//!     }
//!
//! Nothing stops the offsets from pointing into each other's lists. With N offsets that are all 0
//! and a MOVB without terminator the parser materialises N * MOVB.len()/2 values: work and memory
//! are the PRODUCT of the two chunk sizes. 16 KiB + 16 KiB -> 32 M values (64 MiB);
//! 160 KiB + 160 KiB -> 3.2 G values (6.4 GiB, minutes).
//!
//! The layout this parser understands (and `WmoWriter::write_visible_block_lists` produces) has
//! disjoint lists, so all lists together can never hold more values than MOVB has u16s. The test
//! checks exactly that, on an input small enough to stay harmless when it fails.
//!
//! Place as file-formats/graphics/wow-wmo/tests/movv_movb_quadratic.rs
//! Run: cargo test --offline -p wow-wmo --test movv_movb_quadratic -- --nocapture

use std::io::Cursor;
use wow_wmo::WmoParser;

fn chunk(out: &mut Vec<u8>, id: &[u8; 4], data: &[u8]) {
    let mut rev = *id;
    rev.reverse(); // chunk ids are stored reversed on disk
    out.extend_from_slice(&rev);
    out.extend_from_slice(&(data.len() as u32).to_le_bytes());
    out.extend_from_slice(data);
}

fn root_with(movv: &[u8], movb: &[u8]) -> Vec<u8> {
    let mut f = Vec::new();
    chunk(&mut f, b"MVER", &17u32.to_le_bytes());
    chunk(&mut f, b"MOHD", &[0u8; 64]);
    chunk(&mut f, b"MOVV", movv);
    chunk(&mut f, b"MOVB", movb);
    f
}

#[test]
fn well_formed_visible_block_lists_still_parse() {
    // the layout WmoWriter produces: offsets 0 and 6, lists [1,2] and [3,4,5]
    let movv: Vec<u8> = [0u32, 6].iter().flat_map(|o| o.to_le_bytes()).collect();
    let movb: Vec<u8> = [1u16, 2, 0xFFFF, 3, 4, 5, 0xFFFF]
        .iter()
        .flat_map(|v| v.to_le_bytes())
        .collect();
    let root = WmoParser::new()
        .parse_root(&mut Cursor::new(root_with(&movv, &movb)))
        .unwrap();
    assert_eq!(root.visible_block_lists, vec![vec![1u16, 2], vec![3, 4, 5]]);
}

#[test]
fn visible_block_lists_are_linear_in_the_input() {
    const OFFSETS: usize = 4096; // MOVV: 16 KiB, every offset 0
    const VALUES: usize = 8192; // MOVB: 16 KiB, no terminator
    let movv = vec![0u8; OFFSETS * 4];
    let movb: Vec<u8> = std::iter::repeat_n(1u16.to_le_bytes(), VALUES).flatten().collect();
    let file = root_with(&movv, &movb);

    let started = std::time::Instant::now();
    let res = WmoParser::new().parse_root(&mut Cursor::new(&file));
    let elapsed = started.elapsed();

    // Ok or Err are both fine; materialising OFFSETS * VALUES values is not.
    if let Ok(root) = res {
        let total: usize = root.visible_block_lists.iter().map(Vec::len).sum();
        println!(
            "{}-byte file -> {} lists, {} values ({} MiB) in {:?}",
            file.len(),
            root.visible_block_lists.len(),
            total,
            (total * 2) >> 20,
            elapsed
        );
        assert!(
            total <= VALUES,
            "{}-byte file: MOVB holds {VALUES} values but the parser produced {total} \
             ({OFFSETS} offsets x {VALUES} values; 10x the input means 100x the work)",
            file.len()
        );
    }
}
