//! B1 reproduction: `parse_jpeg_content` computes `(header_size + 2)` in u32 on a field
//! read straight from the file. `header_size >= 0xFFFF_FFFE` overflows: panic in builds
//! with overflow checks (debug / test profile), silent wrap to 0 or 1 in release (the
//! parser then accepts the file with a bogus 0/1-byte JPEG header).
//!
//! Place as file-formats/graphics/wow-blp/tests/jpeg_header_size_overflow.rs
//! Run: cargo test --offline -p wow-blp --test jpeg_header_size_overflow

use wow_blp::parser::parse_blp;

/// BLP1 + JPEG content, 1x1, no mipmaps, followed by the given JPEG header size field.
fn blp1_jpeg(header_size: u32) -> Vec<u8> {
    let mut v = Vec::new();
    v.extend_from_slice(b"BLP1");
    v.extend_from_slice(&0u32.to_le_bytes()); // content = JPEG
    v.extend_from_slice(&0u32.to_le_bytes()); // alpha bits
    v.extend_from_slice(&1u32.to_le_bytes()); // width
    v.extend_from_slice(&1u32.to_le_bytes()); // height
    v.extend_from_slice(&0u32.to_le_bytes()); // extra
    v.extend_from_slice(&0u32.to_le_bytes()); // has_mipmaps
    v.extend_from_slice(&[0u8; 16 * 4]); // mipmap offsets
    v.extend_from_slice(&[0u8; 16 * 4]); // mipmap sizes
    v.extend_from_slice(&header_size.to_le_bytes());
    v.extend_from_slice(&[0u8; 16]); // a few trailing bytes
    v
}

#[test]
fn jpeg_header_size_near_u32_max_is_an_error_not_a_panic() {
    for header_size in [u32::MAX, u32::MAX - 1] {
        let input = blp1_jpeg(header_size);
        let res = std::panic::catch_unwind(|| parse_blp(&input));
        match res {
            Err(_) => panic!("parse_blp panicked for jpeg header_size = {header_size:#x}"),
            Ok(Ok(img)) => panic!(
                "parse_blp accepted jpeg header_size = {header_size:#x} with {} bytes of input: {:?}",
                input.len(),
                img.header
            ),
            Ok(Err(_)) => {}
        }
    }
}

#[test]
fn jpeg_header_size_larger_than_input_is_an_error() {
    let input = blp1_jpeg(0x7FFF_FFFF);
    assert!(parse_blp(&input).is_err());
}
