//! B4 reproduction: `SchemaDiscoverer::discover` (wow-cdbc/src/schema_discovery.rs; reached from
//! `warcraft-rs dbc discover <file>` right after `DbcParser::parse` + `parse_records`) sizes its
//! buffers straight from the header:
//!
//!     let mut record_data = Vec::with_capacity(records_to_analyze as usize);        // record_count (max_records = 0)
//!     let mut record = Vec::with_capacity(self.header.record_size as usize);        // Vec<u32>: 4 * record_size bytes
//!     let mut buffer = vec![0u8; self.header.record_size as usize];                 // record_size bytes
//!     ...
//!     let mut discovered_fields = Vec::with_capacity(self.header.field_count as usize);  // before the "no records" early return
//!
//! A 24-byte WDBC file with record_size = 0xFFFF_FFFF makes it request 16 GiB + 4 GiB.
//! `DbcParser::parse_records` accepts that file, because without a schema it reads
//! `field_count` u32s per record and never looks at `record_size`.
//!
//! The test installs a counting global allocator and asserts that no single allocation request
//! made during discover() exceeds 64 MiB. (On a machine that cannot hand out the 16 GiB the
//! process aborts instead with "memory allocation of 17179869180 bytes failed" -- also a failure.)
//!
//! Place as file-formats/database/wow-cdbc/tests/schema_discovery_alloc.rs
//! Run: cargo test --offline -p wow-cdbc --test schema_discovery_alloc

use std::alloc::{GlobalAlloc, Layout, System};
use std::sync::atomic::{AtomicUsize, Ordering};

use wow_cdbc::{DbcParser, SchemaDiscoverer};

const LIMIT: usize = 64 << 20;

struct MaxAlloc;
static MAX_REQUEST: AtomicUsize = AtomicUsize::new(0);

// Oversized requests are still forwarded (the kernel usually hands out untouched virtual
// memory); only their size is recorded.
unsafe impl GlobalAlloc for MaxAlloc {
    unsafe fn alloc(&self, l: Layout) -> *mut u8 {
        MAX_REQUEST.fetch_max(l.size(), Ordering::Relaxed);
        unsafe { System.alloc(l) }
    }
    unsafe fn alloc_zeroed(&self, l: Layout) -> *mut u8 {
        MAX_REQUEST.fetch_max(l.size(), Ordering::Relaxed);
        unsafe { System.alloc_zeroed(l) }
    }
    unsafe fn realloc(&self, p: *mut u8, l: Layout, new_size: usize) -> *mut u8 {
        MAX_REQUEST.fetch_max(new_size, Ordering::Relaxed);
        unsafe { System.realloc(p, l, new_size) }
    }
    unsafe fn dealloc(&self, p: *mut u8, l: Layout) {
        unsafe { System.dealloc(p, l) }
    }
}

#[global_allocator]
static GLOBAL: MaxAlloc = MaxAlloc;

fn wdbc(record_count: u32, field_count: u32, record_size: u32, sb_size: u32, body: &[u8]) -> Vec<u8> {
    let mut v = Vec::new();
    v.extend_from_slice(b"WDBC");
    v.extend_from_slice(&record_count.to_le_bytes());
    v.extend_from_slice(&field_count.to_le_bytes());
    v.extend_from_slice(&record_size.to_le_bytes());
    v.extend_from_slice(&sb_size.to_le_bytes());
    v.extend_from_slice(body);
    v
}

/// Runs the same sequence as `warcraft-rs dbc discover`; returns (discover() is Ok, largest
/// single allocation request in bytes during discover()).
fn discover(file: &[u8], max_records: u32) -> (bool, usize) {
    let parser = DbcParser::parse_bytes(file).expect("header parses");
    let record_set = parser.parse_records().expect("records parse");
    let discoverer =
        SchemaDiscoverer::new(parser.header(), parser.data(), record_set.string_block())
            .with_max_records(max_records);
    MAX_REQUEST.store(0, Ordering::Relaxed);
    let ok = discoverer.discover().is_ok();
    (ok, MAX_REQUEST.load(Ordering::Relaxed))
}

#[test]
fn discovery_allocations_are_bounded_by_the_input() {
    // one test function only: the allocator high-water mark is process-global

    // (a) record_size from the header, 24-byte file
    let file = wdbc(1, 1, u32::MAX, 0, &[1, 0, 0, 0]);
    let (ok, max_req) = discover(&file, 100);
    assert!(
        max_req <= LIMIT,
        "record_size=0xFFFFFFFF: {}-byte file made discover() request {} bytes ({} MiB) at once",
        file.len(),
        max_req,
        max_req >> 20
    );
    assert!(!ok, "a record larger than the file must be an error");

    // (b) field_count from the header, no records at all: 20-byte file
    let file = wdbc(0, u32::MAX, 0, 0, &[]);
    let (_ok, max_req) = discover(&file, 100);
    assert!(
        max_req <= LIMIT,
        "field_count=0xFFFFFFFF: {}-byte file made discover() request {} bytes at once",
        file.len(),
        max_req
    );

    // control: a well-formed 2-record table is still discovered
    let mut body = Vec::new();
    for id in [1u32, 2] {
        body.extend_from_slice(&id.to_le_bytes());
        body.extend_from_slice(&(id * 10).to_le_bytes());
    }
    body.push(0);
    let file = wdbc(2, 2, 8, 1, &body);
    let (ok, _) = discover(&file, 0);
    assert!(ok);
}
