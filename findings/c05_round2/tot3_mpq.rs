//! load_tables: block table before hash table, hash table position beyond the (truncated) file
use std::io::Write;
#[test]
fn truncated_archive_with_block_table_first() {
    let mut h = Vec::new();
    h.extend_from_slice(b"MPQ\x1A");
    h.extend_from_slice(&32u32.to_le_bytes());        // header size
    h.extend_from_slice(&0x0010_0000u32.to_le_bytes()); // archive size (the download was cut short)
    h.extend_from_slice(&0u16.to_le_bytes());         // version 1
    h.extend_from_slice(&3u16.to_le_bytes());         // sector shift
    h.extend_from_slice(&0x0008_0000u32.to_le_bytes()); // hash table pos (beyond what is left of the file)
    h.extend_from_slice(&0x40u32.to_le_bytes());      // block table pos (before the hash table)
    h.extend_from_slice(&16u32.to_le_bytes());        // hash table entries
    h.extend_from_slice(&1u32.to_le_bytes());         // block table entries
    h.resize(0x200, 0);
    let dir = tempfile::tempdir().unwrap();
    let p = dir.path().join("cut.mpq");
    std::fs::File::create(&p).unwrap().write_all(&h).unwrap();
    let r = std::panic::catch_unwind(|| wow_mpq::Archive::open(&p).map(|_| ()));
    match r {
        Ok(res) => eprintln!("returned {:?}", res.is_ok()),
        Err(_) => panic!("Archive::open panicked on a truncated archive"),
    }
}
