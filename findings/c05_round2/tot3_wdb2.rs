//! WDB2 header with max_index > 0 and a hostile min_index
#[test]
fn wdb2_index_range_overflow() {
    let mut b = Vec::new();
    b.extend_from_slice(b"WDB2");
    for v in [1u32, 1, 4, 0, 0, 15000, 0] { b.extend_from_slice(&v.to_le_bytes()); } // records, fields, record size, string block, table hash, build, timestamp
    b.extend_from_slice(&i32::MIN.to_le_bytes()); // min_index
    b.extend_from_slice(&1i32.to_le_bytes());     // max_index
    b.extend_from_slice(&0i32.to_le_bytes());     // locale
    b.extend_from_slice(&0u32.to_le_bytes());     // copy table size
    b.resize(256, 0);
    let r = std::panic::catch_unwind(|| wow_cdbc::DbcParser::parse_bytes(&b).map(|_| ()));
    assert!(r.is_ok(), "parse_bytes panicked");
}
