//! C06/C01 reproduction: a file added to an existing archive with FIX_KEY encryption must read back.
use tempfile::TempDir;
use wow_mpq::{AddFileOptions, Archive, ArchiveBuilder, FormatVersion, MutableArchive, compression::CompressionMethod};

#[test]
fn fix_key_file_added_in_place_reads_back() {
    let dir = TempDir::new().unwrap();
    let path = dir.path().join("a.mpq");
    ArchiveBuilder::new()
        .version(FormatVersion::V1)
        .add_file_data(b"base".to_vec(), "base.txt")
        .build(&path)
        .unwrap();
    let payload: Vec<u8> = (0..2000u32).map(|i| (i * 7 % 251) as u8).collect();
    {
        let mut m = MutableArchive::open(&path).unwrap();
        m.add_file_data(
            &payload,
            "dir\\secret.bin",
            AddFileOptions::new().compression(CompressionMethod::None).fix_key(),
        )
        .unwrap();
        m.add_file_data(&payload, "dir\\plain_key.bin", AddFileOptions::new().compression(CompressionMethod::None).encrypt())
            .unwrap();
        m.flush().unwrap();
    }
    let mut a = Archive::open(&path).unwrap();
    assert_eq!(a.read_file("dir\\plain_key.bin").unwrap(), payload, "plain-key control");
    assert_eq!(a.read_file("dir\\secret.bin").unwrap(), payload, "FIX_KEY file");
}
