//! A name that is a substring of an already listed name must still be listed after it is added
use wow_mpq::{AddFileOptions, ArchiveBuilder, ListfileOption, MutableArchive, Archive, FormatVersion};

#[test]
fn added_name_that_is_a_substring_of_a_listed_one_is_listed() {
    let dir = tempfile::tempdir().unwrap();
    let p = dir.path().join("a.mpq");
    ArchiveBuilder::new()
        .version(FormatVersion::V1)
        .listfile_option(ListfileOption::Generate)
        .add_file_data(b"one".to_vec(), "data\\config.txt")
        .build(&p)
        .unwrap();
    {
        let mut m = MutableArchive::open(&p).unwrap();
        m.add_file_data(b"two", "config.txt", AddFileOptions::new()).unwrap();
        m.flush().unwrap();
    }
    let mut a = Archive::open(&p).unwrap();
    assert_eq!(a.read_file("config.txt").unwrap(), b"two");
    let names: Vec<String> = a.list().unwrap().into_iter().map(|e| e.name).collect();
    assert!(names.iter().any(|n| n == "config.txt"), "config.txt is in the archive but not listed: {names:?}");
}
