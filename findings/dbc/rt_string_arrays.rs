//! Round-trip of tables whose schema contains an ARRAY of strings.
//!
//! A WDBC file is hand-assembled, parsed with a schema, written back with
//! `DbcWriter` and parsed again.  Every string (plain and inside the array)
//! must resolve to the same text, the written size must equal
//! header + records * record_size + string block, and identical strings
//! must be stored once.

use std::io::Cursor;
use wow_cdbc::{DbcParser, DbcWriter, FieldType, RecordSet, Schema, SchemaField, Value};

const HEADER_SIZE: usize = 20;

/// Builds a string block (leading NUL, every distinct string once) and hands
/// out offsets.
struct Strings {
    block: Vec<u8>,
}

impl Strings {
    fn new() -> Self {
        Self { block: vec![0] }
    }

    fn add(&mut self, s: &str) -> u32 {
        if s.is_empty() {
            return 0;
        }
        let offset = self.block.len() as u32;
        self.block.extend_from_slice(s.as_bytes());
        self.block.push(0);
        offset
    }
}

/// Assemble a WDBC file out of rows of 4-byte columns.
fn wdbc(rows: &[Vec<u32>], string_block: &[u8]) -> Vec<u8> {
    let columns = rows.first().map_or(0, Vec::len);
    let mut out = Vec::new();
    out.extend_from_slice(b"WDBC");
    out.extend_from_slice(&(rows.len() as u32).to_le_bytes());
    out.extend_from_slice(&(columns as u32).to_le_bytes());
    out.extend_from_slice(&((columns * 4) as u32).to_le_bytes());
    out.extend_from_slice(&(string_block.len() as u32).to_le_bytes());
    for row in rows {
        assert_eq!(row.len(), columns);
        for cell in row {
            out.extend_from_slice(&cell.to_le_bytes());
        }
    }
    out.extend_from_slice(string_block);
    out
}

fn parse(bytes: &[u8], schema: Schema) -> RecordSet {
    DbcParser::parse_bytes(bytes)
        .expect("header parses")
        .with_schema(schema)
        .expect("schema matches header")
        .parse_records()
        .expect("records parse")
}

fn write(record_set: &RecordSet, schema: Schema) -> Vec<u8> {
    // DbcWriter has no into_inner(), so lend it the cursor.
    let mut buf: Cursor<Vec<u8>> = Cursor::new(Vec::new());
    let mut writer = DbcWriter::new(&mut buf).with_schema(schema);
    writer.write_records(record_set).expect("write succeeds");
    buf.into_inner()
}

/// Every value of every record, with string references resolved to text.
fn resolved(record_set: &RecordSet) -> Vec<Vec<String>> {
    fn one(record_set: &RecordSet, value: &Value, out: &mut Vec<String>) {
        match value {
            Value::StringRef(r) => out.push(format!(
                "str:{}",
                record_set.get_string(*r).expect("string offset resolves")
            )),
            Value::Array(values) => {
                out.push(format!("array[{}]", values.len()));
                for v in values {
                    one(record_set, v, out);
                }
            }
            other => out.push(format!("{other:?}")),
        }
    }
    record_set
        .records()
        .iter()
        .map(|record| {
            let mut out = Vec::new();
            for value in record.values() {
                one(record_set, value, &mut out);
            }
            out
        })
        .collect()
}

/// Distinct non-empty strings of a string block, and whether any repeats.
fn block_strings(block: &[u8]) -> Vec<String> {
    assert_eq!(block.first(), Some(&0), "string block starts with NUL");
    assert_eq!(block.last(), Some(&0), "string block ends with NUL");
    block[1..]
        .split(|b| *b == 0)
        .filter(|s| !s.is_empty())
        .map(|s| String::from_utf8(s.to_vec()).unwrap())
        .collect()
}

fn check_size_and_dedup(written: &[u8], records: usize, record_size: usize) {
    let u32_at = |at: usize| u32::from_le_bytes(written[at..at + 4].try_into().unwrap()) as usize;
    assert_eq!(&written[0..4], b"WDBC");
    assert_eq!(u32_at(4), records, "record count");
    assert_eq!(u32_at(12), record_size, "record size");
    let string_block_size = u32_at(16);
    assert_eq!(
        written.len(),
        HEADER_SIZE + records * record_size + string_block_size,
        "written size = header + records * record_size + string block"
    );
    let strings = block_strings(&written[HEADER_SIZE + records * record_size..]);
    let mut unique = strings.clone();
    unique.sort();
    unique.dedup();
    assert_eq!(
        strings.len(),
        unique.len(),
        "identical strings stored once: {strings:?}"
    );
}

fn array_schema() -> Schema {
    let mut schema = Schema::new("StringArrays");
    schema.add_field(SchemaField::new("ID", FieldType::UInt32));
    schema.add_field(SchemaField::new("Name", FieldType::String));
    schema.add_field(SchemaField::new_array("Labels", FieldType::String, 3));
    schema.add_field(SchemaField::new("Scale", FieldType::Float32));
    schema.set_key_field("ID");
    schema
}

fn control_schema() -> Schema {
    let mut schema = Schema::new("NoArrays");
    schema.add_field(SchemaField::new("ID", FieldType::UInt32));
    schema.add_field(SchemaField::new("Name", FieldType::String));
    schema.add_field(SchemaField::new("Title", FieldType::String));
    schema.add_field(SchemaField::new("Scale", FieldType::Float32));
    schema.set_key_field("ID");
    schema
}

/// Control: strings only in plain (non-array) fields.
#[test]
fn plain_strings_round_trip() {
    let mut s = Strings::new();
    let alpha = s.add("alpha");
    let beta = s.add("beta");
    let gamma = s.add("gamma");
    let rows = vec![
        vec![1, alpha, beta, 1.5f32.to_bits()],
        vec![2, gamma, alpha, 2.5f32.to_bits()],
        vec![3, 0, gamma, 0f32.to_bits()],
    ];
    let original_bytes = wdbc(&rows, &s.block);
    let original = parse(&original_bytes, control_schema());

    let written = write(&original, control_schema());
    check_size_and_dedup(&written, 3, 16);

    let reparsed = parse(&written, control_schema());
    assert_eq!(resolved(&original), resolved(&reparsed));
}

/// Strings that occur ONLY inside the array field must survive the round trip.
#[test]
fn array_strings_round_trip() {
    let mut s = Strings::new();
    let alpha = s.add("alpha");
    let one = s.add("one");
    let two = s.add("two");
    let three = s.add("three");
    let beta = s.add("beta");
    let four = s.add("four");
    let rows = vec![
        vec![1, alpha, one, two, three, 1.5f32.to_bits()],
        // repeats "one" inside the array, has an empty element, and reuses the
        // plain string "alpha" as an array element
        vec![2, beta, four, 0, one, 2.5f32.to_bits()],
        vec![3, 0, alpha, four, two, 0f32.to_bits()],
    ];
    let original_bytes = wdbc(&rows, &s.block);
    let original = parse(&original_bytes, array_schema());

    // sanity: the hand-assembled input is what we think it is
    assert_eq!(
        resolved(&original)[0],
        vec![
            "UInt32(1)",
            "str:alpha",
            "array[3]",
            "str:one",
            "str:two",
            "str:three",
            "Float32(1.5)"
        ]
    );

    let written = write(&original, array_schema());
    check_size_and_dedup(&written, 3, 24);

    let reparsed = parse(&written, array_schema());
    assert_eq!(resolved(&original), resolved(&reparsed));

    // every distinct input string is present in the written block
    let mut expected = block_strings(&s.block);
    expected.sort();
    let mut got = block_strings(&written[HEADER_SIZE + 3 * 24..]);
    got.sort();
    assert_eq!(expected, got);
}

/// A table whose ONLY strings live in an array field (size 2).
#[test]
fn array_only_strings_round_trip() {
    let mut schema = Schema::new("OnlyArray");
    schema.add_field(SchemaField::new("ID", FieldType::UInt32));
    schema.add_field(SchemaField::new_array("Pair", FieldType::String, 2));

    let mut s = Strings::new();
    let left = s.add("left");
    let right = s.add("right");
    let rows = vec![vec![10, left, right], vec![11, right, left]];
    let original_bytes = wdbc(&rows, &s.block);
    let original = parse(&original_bytes, schema.clone());

    let written = write(&original, schema.clone());
    check_size_and_dedup(&written, 2, 12);

    let reparsed = parse(&written, schema);
    assert_eq!(resolved(&original), resolved(&reparsed));
}
