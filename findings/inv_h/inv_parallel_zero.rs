//! Candidate 5: a thread count or batch size of 0 must mean "default" (as rayon treats a
//! thread count of 0), never a panic.

use std::path::PathBuf;
use tempfile::TempDir;
use wow_mpq::single_archive_parallel::{ParallelArchive, ParallelConfig, extract_with_config};
use wow_mpq::{ArchiveBuilder, FormatVersion};

const NAMES: [&str; 3] = ["a.txt", "dir\\b.txt", "c.bin"];

fn content_of(name: &str) -> Vec<u8> {
    format!("content of {name}").into_bytes()
}

fn build_archive(dir: &TempDir) -> PathBuf {
    let path = dir.path().join("p.mpq");
    let mut builder = ArchiveBuilder::new().version(FormatVersion::V1);
    for name in NAMES {
        builder = builder.add_file_data(content_of(name), name);
    }
    builder.build(&path).unwrap();
    path
}

/// `count` requested names, cycling over the files of the archive.
fn requests(count: usize) -> Vec<&'static str> {
    (0..count).map(|i| NAMES[i % NAMES.len()]).collect()
}

fn assert_all_extracted(names: &[&str], results: Vec<(String, wow_mpq::Result<Vec<u8>>)>) {
    assert_eq!(results.len(), names.len());
    for (want, (name, data)) in names.iter().zip(results) {
        assert_eq!(*want, name, "results keep the request order");
        assert_eq!(data.unwrap(), content_of(want));
    }
}

#[test]
fn zero_threads_with_more_than_5000_names_does_not_panic() {
    let dir = TempDir::new().unwrap();
    let path = build_archive(&dir);
    let names = requests(5001);

    // Divides by `num_threads * 2`
    let config = ParallelConfig::new().threads(0);
    let results = extract_with_config(&path, &names, config).unwrap();
    assert_all_extracted(&names, results);
}

#[test]
fn zero_batch_size_in_batched_mode_does_not_panic() {
    let dir = TempDir::new().unwrap();
    let path = build_archive(&dir);
    // More than 1000 names selects the batched path, which calls `chunks(batch_size)`
    let names = requests(1001);

    let config = ParallelConfig::new().batch_size(0);
    let results = extract_with_config(&path, &names, config).unwrap();
    assert_all_extracted(&names, results);
}

#[test]
fn zero_threads_and_zero_batch_size_do_not_panic() {
    let dir = TempDir::new().unwrap();
    let path = build_archive(&dir);
    let names = requests(5001);

    let config = ParallelConfig::new().threads(0).batch_size(0);
    let results = extract_with_config(&path, &names, config).unwrap();
    assert_all_extracted(&names, results);
}

#[test]
fn zero_threads_in_unbatched_mode_still_works() {
    let dir = TempDir::new().unwrap();
    let path = build_archive(&dir);
    let names = requests(10);

    let config = ParallelConfig::new().threads(0);
    let results = extract_with_config(&path, &names, config).unwrap();
    assert_all_extracted(&names, results);
}

#[test]
fn extract_files_batched_with_zero_batch_size_does_not_panic() {
    let dir = TempDir::new().unwrap();
    let path = build_archive(&dir);
    let archive = ParallelArchive::open(&path).unwrap();
    let names = requests(7);

    let results = archive.extract_files_batched(&names, 0).unwrap();
    assert_eq!(results.len(), names.len());
    for (want, (name, data)) in names.iter().zip(results) {
        assert_eq!(*want, name);
        assert_eq!(data, content_of(want));
    }
}
