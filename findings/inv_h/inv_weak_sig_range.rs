//! Candidate 2: RSA verification must reject a signature representative >= n.
//!
//! `s` and `s + n` are congruent mod n, so `(s + n)^e mod n == s^e mod n`. A verifier
//! that does not range-check the signature accepts both: the 64 signature bytes can
//! be changed and the archive keeps verifying.

use num_bigint::BigUint;
use num_traits::Num;
use std::fs::{self, File};
use std::path::{Path, PathBuf};
use tempfile::TempDir;
use wow_mpq::crypto::{
    SignatureInfo, WEAK_SIGNATURE_FILE_SIZE, WEAK_SIGNATURE_SIZE, generate_weak_signature,
    parse_weak_signature, public_keys, verify_weak_signature_stormlib,
};
use wow_mpq::{Archive, ArchiveBuilder, FormatVersion, ListfileOption, SignatureStatus};

/// Build a V1 archive holding `payload` and a correctly signed `(signature)` file.
/// Returns the absolute position of the 72-byte signature file inside the archive file.
fn build_signed_archive(path: &Path, payload: &[u8]) -> (u64, SignatureInfo) {
    ArchiveBuilder::new()
        .version(FormatVersion::V1)
        .listfile_option(ListfileOption::None)
        .add_file_data_with_options(payload.to_vec(), "payload.bin", 0, false, 0)
        .add_file_data_with_options(
            vec![0u8; WEAK_SIGNATURE_FILE_SIZE],
            "(signature)",
            0,
            false,
            0,
        )
        .build(path)
        .unwrap();

    let (sig_pos, archive_offset, archive_size) = {
        let archive = Archive::open(path).unwrap();
        let info = archive.find_file("(signature)").unwrap().unwrap();
        assert_eq!(info.compressed_size, WEAK_SIGNATURE_FILE_SIZE as u64);
        (
            info.file_pos,
            archive.archive_offset(),
            archive.header().archive_size as u64,
        )
    };

    let sig_info = SignatureInfo::new_weak(
        archive_offset,
        archive_size,
        sig_pos,
        WEAK_SIGNATURE_FILE_SIZE as u64,
        vec![],
    );
    let signature_file = generate_weak_signature(File::open(path).unwrap(), &sig_info).unwrap();
    assert_eq!(signature_file.len(), WEAK_SIGNATURE_FILE_SIZE);

    let mut bytes = fs::read(path).unwrap();
    bytes[sig_pos as usize..sig_pos as usize + WEAK_SIGNATURE_FILE_SIZE]
        .copy_from_slice(&signature_file);
    fs::write(path, &bytes).unwrap();

    (sig_pos, sig_info)
}

/// Find a payload whose signature `s` satisfies `s + n < 2^512`, so that the altered
/// value still fits the 64-byte field. Holds for about 3 out of 4 signatures.
fn signed_archive_with_room(dir: &TempDir) -> (PathBuf, u64, SignatureInfo, Vec<u8>, Vec<u8>) {
    let n = BigUint::from_str_radix(public_keys::BLIZZARD_WEAK_PUBLIC_KEY_N, 16).unwrap();
    let limit = BigUint::from(1u8) << 512usize;

    for attempt in 0u8..32 {
        let path = dir.path().join(format!("signed_{attempt}.mpq"));
        let payload = vec![attempt; 100];
        let (sig_pos, sig_info) = build_signed_archive(&path, &payload);

        let bytes = fs::read(&path).unwrap();
        let sig_le =
            bytes[sig_pos as usize + 8..sig_pos as usize + 8 + WEAK_SIGNATURE_SIZE].to_vec();
        let s = BigUint::from_bytes_le(&sig_le);
        assert!(s < n, "a generated signature is a reduced residue");

        let shifted = &s + &n;
        if shifted < limit {
            let mut shifted_le = shifted.to_bytes_le();
            shifted_le.resize(WEAK_SIGNATURE_SIZE, 0);
            assert_ne!(shifted_le, sig_le);
            return (path, sig_pos, sig_info, sig_le, shifted_le);
        }
    }
    panic!("no payload produced a signature with s + n < 2^512");
}

#[test]
fn signature_plus_modulus_is_rejected_by_verify_weak_signature_stormlib() {
    let dir = TempDir::new().unwrap();
    let (path, _sig_pos, sig_info, sig_le, shifted_le) = signed_archive_with_room(&dir);

    // The genuine signature verifies
    assert!(
        verify_weak_signature_stormlib(File::open(&path).unwrap(), &sig_le, &sig_info).unwrap(),
        "the generated signature must verify"
    );

    // s + n is a different 64-byte value and must not verify
    let accepted =
        verify_weak_signature_stormlib(File::open(&path).unwrap(), &shifted_le, &sig_info)
            .unwrap_or(false);
    assert!(
        !accepted,
        "a signature value >= n (s + n) was accepted as valid"
    );
}

#[test]
fn signature_plus_modulus_is_rejected_by_archive_verify_signature() {
    let dir = TempDir::new().unwrap();
    let (path, sig_pos, _sig_info, _sig_le, shifted_le) = signed_archive_with_room(&dir);

    // Pristine archive: valid
    {
        let mut archive = Archive::open(&path).unwrap();
        assert_eq!(
            archive.verify_signature().unwrap(),
            SignatureStatus::WeakValid
        );
    }

    // Replace the 64 signature bytes by s + n inside the archive file
    let mut bytes = fs::read(&path).unwrap();
    let at = sig_pos as usize + 8;
    bytes[at..at + WEAK_SIGNATURE_SIZE].copy_from_slice(&shifted_le);
    fs::write(&path, &bytes).unwrap();

    let mut archive = Archive::open(&path).unwrap();
    let stored = archive.read_file("(signature)").unwrap();
    assert_eq!(parse_weak_signature(&stored).unwrap(), shifted_le);
    assert_eq!(
        archive.verify_signature().unwrap(),
        SignatureStatus::WeakInvalid,
        "the signature bytes were changed, the archive must not keep verifying"
    );
}
