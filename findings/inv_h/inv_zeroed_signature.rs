//! Candidate 3: a `(signature)` file that is present but unusable (zeroed signature
//! bytes, or truncated) must not be reported as "no signature".
//!
//! `SFileVerifyArchive` (ffi/storm-ffi) maps `SignatureStatus::None` to success, so a
//! signed archive whose signature bytes were wiped would pass verification.

use std::fs::{self, File};
use std::path::Path;
use tempfile::TempDir;
use wow_mpq::crypto::{
    SignatureInfo, WEAK_SIGNATURE_FILE_SIZE, WEAK_SIGNATURE_SIZE, generate_weak_signature,
};
use wow_mpq::{Archive, ArchiveBuilder, FormatVersion, ListfileOption, SignatureStatus};

/// Build a V1 archive holding a payload and a correctly signed `(signature)` file.
/// Returns the absolute position of the 72-byte signature file inside the archive file.
fn build_signed_archive(path: &Path) -> u64 {
    ArchiveBuilder::new()
        .version(FormatVersion::V1)
        .listfile_option(ListfileOption::None)
        .add_file_data_with_options(vec![0x5A; 300], "payload.bin", 0, false, 0)
        .add_file_data_with_options(
            vec![0u8; WEAK_SIGNATURE_FILE_SIZE],
            "(signature)",
            0,
            false,
            0,
        )
        .build(path)
        .unwrap();

    let (sig_pos, archive_offset, archive_size) = {
        let archive = Archive::open(path).unwrap();
        let info = archive.find_file("(signature)").unwrap().unwrap();
        assert_eq!(info.compressed_size, WEAK_SIGNATURE_FILE_SIZE as u64);
        (
            info.file_pos,
            archive.archive_offset(),
            archive.header().archive_size as u64,
        )
    };

    let sig_info = SignatureInfo::new_weak(
        archive_offset,
        archive_size,
        sig_pos,
        WEAK_SIGNATURE_FILE_SIZE as u64,
        vec![],
    );
    let signature_file = generate_weak_signature(File::open(path).unwrap(), &sig_info).unwrap();

    let mut bytes = fs::read(path).unwrap();
    bytes[sig_pos as usize..sig_pos as usize + WEAK_SIGNATURE_FILE_SIZE]
        .copy_from_slice(&signature_file);
    fs::write(path, &bytes).unwrap();
    sig_pos
}

#[test]
fn zeroed_signature_bytes_are_reported_invalid_not_absent() {
    let dir = TempDir::new().unwrap();
    let path = dir.path().join("signed.mpq");
    let sig_pos = build_signed_archive(&path);

    // Pristine: valid
    {
        let mut archive = Archive::open(&path).unwrap();
        assert_eq!(
            archive.verify_signature().unwrap(),
            SignatureStatus::WeakValid
        );
    }

    // Wipe the 64 signature bytes inside (signature)
    let mut bytes = fs::read(&path).unwrap();
    let at = sig_pos as usize + 8;
    bytes[at..at + WEAK_SIGNATURE_SIZE].fill(0);
    fs::write(&path, &bytes).unwrap();

    let mut archive = Archive::open(&path).unwrap();
    assert!(archive.find_file("(signature)").unwrap().is_some());
    let status = archive.verify_signature().unwrap();
    assert_ne!(
        status,
        SignatureStatus::None,
        "a (signature) file is present: the status must not say there is none"
    );
    assert_eq!(status, SignatureStatus::WeakInvalid);

    let info = archive.get_info().unwrap();
    assert!(info.has_signature);
    assert_eq!(info.signature_status, SignatureStatus::WeakInvalid);
}

#[test]
fn truncated_signature_file_is_reported_invalid_not_absent() {
    // A (signature) file shorter than 72 bytes cannot hold a weak signature; it is
    // present all the same.
    let dir = TempDir::new().unwrap();
    let path = dir.path().join("short_sig.mpq");
    ArchiveBuilder::new()
        .version(FormatVersion::V1)
        .listfile_option(ListfileOption::None)
        .add_file_data_with_options(vec![0x5A; 300], "payload.bin", 0, false, 0)
        .add_file_data_with_options(vec![0xAB; 40], "(signature)", 0, false, 0)
        .build(&path)
        .unwrap();

    let mut archive = Archive::open(&path).unwrap();
    assert_eq!(
        archive.verify_signature().unwrap(),
        SignatureStatus::WeakInvalid
    );
}

#[test]
fn archive_without_signature_file_still_reports_none() {
    let dir = TempDir::new().unwrap();
    let path = dir.path().join("unsigned.mpq");
    ArchiveBuilder::new()
        .version(FormatVersion::V1)
        .add_file_data(vec![1, 2, 3], "a.txt")
        .build(&path)
        .unwrap();
    let mut archive = Archive::open(&path).unwrap();
    assert_eq!(archive.verify_signature().unwrap(), SignatureStatus::None);
}
