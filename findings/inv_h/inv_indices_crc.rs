//! Candidate 1: `Archive::read_file_by_indices` must verify the single-unit sector
//! checksum exactly like `Archive::read_file` does.

use std::fs;
use tempfile::TempDir;
use wow_mpq::{Archive, ArchiveBuilder, Error, FormatVersion, ListfileOption};

/// Build a V1 archive with sector checksums, flip one byte inside the data of the
/// single-unit file `name`, and return (archive path guard, path, hash idx, block idx).
fn build_and_corrupt(
    content: &[u8],
    compression: u8,
) -> (TempDir, std::path::PathBuf, usize, usize) {
    let dir = TempDir::new().unwrap();
    let path = dir.path().join("crc.mpq");

    ArchiveBuilder::new()
        .version(FormatVersion::V1)
        .listfile_option(ListfileOption::None)
        .generate_crcs(true)
        .add_file_data_with_options(content.to_vec(), "data.bin", compression, false, 0)
        .build(&path)
        .unwrap();

    // Sanity: both read paths return the content of the pristine archive
    let (hash_index, block_index, file_pos, stored_len) = {
        let mut archive = Archive::open(&path).unwrap();
        let info = archive.find_file("data.bin").unwrap().unwrap();
        assert!(info.is_single_unit(), "test wants a single unit file");
        assert!(info.has_sector_crc(), "test wants a sector checksum");
        assert_eq!(archive.read_file("data.bin").unwrap(), content);
        assert_eq!(
            archive
                .read_file_by_indices(info.hash_index, Some(info.block_index))
                .unwrap(),
            content
        );
        (
            info.hash_index,
            info.block_index,
            info.file_pos,
            info.compressed_size,
        )
    };

    // Flip one bit of one data byte (the last stored byte of the file's data)
    let mut bytes = fs::read(&path).unwrap();
    let victim = (file_pos + stored_len - 1) as usize;
    bytes[victim] ^= 0x01;
    fs::write(&path, &bytes).unwrap();

    (dir, path, hash_index, block_index)
}

#[test]
fn stored_single_unit_corruption_is_detected_by_both_read_paths() {
    let content: Vec<u8> = (0..200u32).map(|i| (i * 7 + 3) as u8).collect();
    let (_dir, path, hash_index, block_index) = build_and_corrupt(&content, 0);

    let mut archive = Archive::open(&path).unwrap();

    let by_name = archive.read_file("data.bin");
    assert!(
        matches!(by_name, Err(Error::ChecksumMismatch { .. })),
        "read_file must report the mismatch, got {by_name:?}"
    );

    let by_indices = archive.read_file_by_indices(hash_index, Some(block_index));
    assert!(
        matches!(by_indices, Err(Error::ChecksumMismatch { .. })),
        "read_file_by_indices must report the mismatch, got {:?}",
        by_indices.map(|d| d == content)
    );
}

#[test]
fn pristine_compressed_single_unit_reads_by_indices() {
    // The checksum covers the plain content, so a compressed single unit must still
    // read fine through both paths (guards the fix against checking the stored bytes).
    let content = vec![0x41u8; 3000];
    let dir = TempDir::new().unwrap();
    let path = dir.path().join("crc_z.mpq");
    ArchiveBuilder::new()
        .version(FormatVersion::V1)
        .listfile_option(ListfileOption::None)
        .generate_crcs(true)
        .add_file_data_with_options(
            content.clone(),
            "data.bin",
            wow_mpq::compression::flags::ZLIB,
            false,
            0,
        )
        .build(&path)
        .unwrap();

    let mut archive = Archive::open(&path).unwrap();
    let info = archive.find_file("data.bin").unwrap().unwrap();
    assert!(info.is_single_unit() && info.is_compressed() && info.has_sector_crc());
    assert_eq!(archive.read_file("data.bin").unwrap(), content);
    assert_eq!(
        archive
            .read_file_by_indices(info.hash_index, Some(info.block_index))
            .unwrap(),
        content
    );
}

#[test]
fn stored_checksum_corruption_is_detected_by_both_read_paths() {
    // Alter the stored checksum instead of the data: still a mismatch on both paths.
    let content: Vec<u8> = (0..64u32).map(|i| (i * 13 + 1) as u8).collect();
    let dir = TempDir::new().unwrap();
    let path = dir.path().join("crc_c.mpq");
    ArchiveBuilder::new()
        .version(FormatVersion::V1)
        .listfile_option(ListfileOption::None)
        .generate_crcs(true)
        .add_file_data_with_options(content.clone(), "data.bin", 0, false, 0)
        .build(&path)
        .unwrap();

    let info = {
        let archive = Archive::open(&path).unwrap();
        archive.find_file("data.bin").unwrap().unwrap()
    };
    let mut bytes = fs::read(&path).unwrap();
    let crc_pos = (info.file_pos + info.compressed_size) as usize;
    bytes[crc_pos] ^= 0xFF;
    fs::write(&path, &bytes).unwrap();

    let mut archive = Archive::open(&path).unwrap();
    assert!(matches!(
        archive.read_file("data.bin"),
        Err(Error::ChecksumMismatch { .. })
    ));
    let by_indices = archive.read_file_by_indices(info.hash_index, Some(info.block_index));
    assert!(
        matches!(by_indices, Err(Error::ChecksumMismatch { .. })),
        "read_file_by_indices must report the mismatch, got {:?}",
        by_indices.map(|d| d == content)
    );
}
