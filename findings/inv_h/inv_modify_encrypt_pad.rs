//! Candidate 4: `MutableArchive::add_file_data` with compression + encryption must
//! read back the original bytes for every input.
//!
//! When the compressed block (method byte included) is 1..3 bytes shorter than the
//! data and not a multiple of 4, padding it for encryption makes the stored size equal
//! to the file size; the reader then takes the block for uncompressed data.

use std::path::{Path, PathBuf};
use tempfile::TempDir;
use wow_mpq::compression::CompressionMethod;
use wow_mpq::{AddFileOptions, Archive, ArchiveBuilder, FormatVersion, MutableArchive};

/// Deterministic incompressible prefix + highly compressible tail.
fn mixed(random_len: usize, repeat_len: usize) -> Vec<u8> {
    let mut state: u32 = 0x1234_5678;
    let mut out = Vec::with_capacity(random_len + repeat_len);
    for _ in 0..random_len {
        // xorshift32
        state ^= state << 13;
        state ^= state >> 17;
        state ^= state << 5;
        out.push((state >> 24) as u8);
    }
    out.extend(std::iter::repeat_n(0x41u8, repeat_len));
    out
}

fn base_archive(dir: &TempDir) -> PathBuf {
    let path = dir.path().join("base.mpq");
    ArchiveBuilder::new()
        .version(FormatVersion::V1)
        .add_file_data(b"seed".to_vec(), "seed.txt")
        .build(&path)
        .unwrap();
    path
}

fn add_and_read_back(path: &Path, name: &str, data: &[u8], options: AddFileOptions) -> Vec<u8> {
    {
        let mut archive = MutableArchive::open(path).unwrap();
        archive.add_file_data(data, name, options).unwrap();
        archive.flush().unwrap();
    }
    let mut archive = Archive::open(path).unwrap();
    archive.read_file(name).unwrap()
}

/// Sweep tail lengths around the reported inputs and collect every length whose
/// content does not survive add + read. A fresh archive is used per input.
fn sweep(options: impl Fn() -> AddFileOptions) -> Vec<(usize, usize, u64, u64)> {
    let mut bad = Vec::new();
    let mut padded_to_file_size = 0;

    for random_len in [24usize, 28, 31] {
        for repeat_len in 20usize..60 {
            let dir = TempDir::new().unwrap();
            let path = base_archive(&dir);
            let data = mixed(random_len, repeat_len);

            // Track how many inputs hit the ambiguous size, so that the sweep is known
            // to cover the case under test
            let block = wow_mpq::compress(&data, wow_mpq::compression::flags::ZLIB).unwrap();
            if block.len() < data.len() && block.len().next_multiple_of(4) == data.len() {
                padded_to_file_size += 1;
            }

            let name = format!("f_{random_len}_{repeat_len}.bin");
            let got = add_and_read_back(&path, &name, &data, options());
            if got != data {
                let archive = Archive::open(&path).unwrap();
                let info = archive.find_file(&name).unwrap().unwrap();
                bad.push((random_len, repeat_len, info.compressed_size, info.file_size));
            }
        }
    }
    assert!(
        padded_to_file_size > 0,
        "the sweep must contain inputs whose padded compressed size equals the file size"
    );
    bad
}

#[test]
fn compressed_block_padded_to_file_size_round_trips() {
    // 31 incompressible bytes + 37 x 0x41 = 68 bytes. The zlib block (method byte
    // included) is 65..=67 bytes long: shorter than the data, 68 once padded to a dword.
    let dir = TempDir::new().unwrap();
    let path = base_archive(&dir);
    let data = mixed(31, 37);
    assert_eq!(data.len(), 68);
    let block = wow_mpq::compress(&data, wow_mpq::compression::flags::ZLIB).unwrap();
    assert!(
        block.len() < data.len() && block.len().next_multiple_of(4) == data.len(),
        "precondition: compressed block of {} bytes pads to the file size",
        block.len()
    );

    let got = add_and_read_back(
        &path,
        "reported.bin",
        &data,
        AddFileOptions::new()
            .compression(CompressionMethod::Zlib)
            .encrypt(),
    );
    assert_ne!(
        got, block,
        "the still-compressed block was returned as content"
    );
    assert_eq!(
        got, data,
        "file added with zlib + encrypt reads back altered"
    );
}

#[test]
fn lzma_encrypted_round_trips() {
    // Same root cause, other symptom: the pad bytes follow the LZMA stream and the
    // decoder refuses them ("more bytes are available").
    let mut failures = Vec::new();
    for repeat_len in [56usize, 59, 62, 65, 74, 77, 80, 200, 333] {
        let dir = TempDir::new().unwrap();
        let path = base_archive(&dir);
        let data = mixed(0, repeat_len);
        {
            let mut archive = MutableArchive::open(&path).unwrap();
            archive
                .add_file_data(
                    &data,
                    "x.bin",
                    AddFileOptions::new()
                        .compression(CompressionMethod::Lzma)
                        .encrypt(),
                )
                .unwrap();
            archive.flush().unwrap();
        }
        let mut archive = Archive::open(&path).unwrap();
        match archive.read_file("x.bin") {
            Ok(got) if got == data => {}
            Ok(_) => failures.push(format!("{repeat_len}: altered content")),
            Err(e) => failures.push(format!("{repeat_len}: {e}")),
        }
    }
    assert!(failures.is_empty(), "{failures:#?}");
}

#[test]
fn zlib_encrypted_round_trips_for_every_tail_length() {
    let bad = sweep(|| {
        AddFileOptions::new()
            .compression(CompressionMethod::Zlib)
            .encrypt()
    });
    assert!(
        bad.is_empty(),
        "(random_len, repeat_len, stored_size, file_size) that read back altered: {bad:?}"
    );
}

#[test]
fn zlib_encrypted_fix_key_round_trips_for_every_tail_length() {
    let bad = sweep(|| {
        AddFileOptions::new()
            .compression(CompressionMethod::Zlib)
            .encrypt()
            .fix_key()
    });
    assert!(
        bad.is_empty(),
        "(random_len, repeat_len, stored_size, file_size) that read back altered: {bad:?}"
    );
}

#[test]
fn uncompressed_encrypted_round_trips_for_every_length() {
    // Lengths that are not a multiple of 4, stored raw + encrypted
    for len in 1usize..40 {
        let dir = TempDir::new().unwrap();
        let path = base_archive(&dir);
        let data = mixed(len, 0);
        let name = format!("raw_{len}.bin");
        let got = add_and_read_back(
            &path,
            &name,
            &data,
            AddFileOptions::new()
                .compression(CompressionMethod::None)
                .encrypt(),
        );
        assert_eq!(
            got, data,
            "raw encrypted file of {len} bytes reads back altered"
        );
    }
}

#[test]
fn builder_handles_the_same_input() {
    // The builder encrypts the unpadded block; the same input round trips there.
    let dir = TempDir::new().unwrap();
    let path = dir.path().join("built.mpq");
    let data = mixed(31, 37);
    ArchiveBuilder::new()
        .version(FormatVersion::V1)
        .add_file_data_with_options(
            data.clone(),
            "reported.bin",
            wow_mpq::compression::flags::ZLIB,
            true,
            0,
        )
        .build(&path)
        .unwrap();
    let mut archive = Archive::open(&path).unwrap();
    assert_eq!(archive.read_file("reported.bin").unwrap(), data);
}
