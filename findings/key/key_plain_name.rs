//! Reproduction: encrypted-file key derivation uses the full archive path
//! instead of the plain file name (the part after the last backslash).
//!
//! MPQ format rule (StormLib `DecryptFileKey`: `szFileName = GetPlainFileName(szFileName)`;
//! zezula.net: "the encryption key of a file is computed from the file name
//! WITHOUT the directory path"):
//!
//!     key = hash_string(plain_name, FILE_KEY)            // FILE_KEY = 0x300
//!     if FIX_KEY: key = (key + file_pos) ^ file_size
//!
//! The assertions below state the FORMAT-conformant behaviour, so they FAIL on
//! the current code if the library keys on the full path.

use std::fs;
use std::io::{Read, Seek, SeekFrom, Write};

use wow_mpq::crypto::{decrypt_block, encrypt_block, hash_string};
use wow_mpq::{Archive, ArchiveBuilder, ListfileOption};

const FILE_KEY: u32 = 0x300;

const NESTED_NAME: &str = "dir\\sub\\secret.txt";
const NESTED_PLAIN: &str = "secret.txt";
const NESTED_DATA: &[u8; 16] = b"SECRET-PAYLOAD-1"; // 16 bytes, multiple of 4

const ROOT_NAME: &str = "root.txt";
const ROOT_DATA: &[u8; 16] = b"ROOT-FILE-DATA-2"; // 16 bytes

fn to_u32s(b: &[u8]) -> Vec<u32> {
    assert_eq!(b.len() % 4, 0);
    b.chunks_exact(4)
        .map(|c| u32::from_le_bytes([c[0], c[1], c[2], c[3]]))
        .collect()
}

fn to_bytes(w: &[u32]) -> Vec<u8> {
    w.iter().flat_map(|x| x.to_le_bytes()).collect()
}

fn decrypt_with(stored: &[u8], key: u32) -> Vec<u8> {
    let mut w = to_u32s(stored);
    decrypt_block(&mut w, key);
    to_bytes(&w)
}

fn encrypt_with(plain: &[u8], key: u32) -> Vec<u8> {
    let mut w = to_u32s(plain);
    encrypt_block(&mut w, key);
    to_bytes(&w)
}

fn show(b: &[u8]) -> String {
    format!("{:?}", String::from_utf8_lossy(b))
}

/// Build the archive and return (path guard, path).
fn build_archive(dir: &tempfile::TempDir) -> std::path::PathBuf {
    let path = dir.path().join("key_plain_name.mpq");
    ArchiveBuilder::new()
        .listfile_option(ListfileOption::Generate)
        // compression = 0 (none), encrypt = true, locale = 0  -> ENCRYPTED, no FIX_KEY
        .add_file_data_with_options(NESTED_DATA.to_vec(), NESTED_NAME, 0, true, 0)
        .add_file_data_with_options(ROOT_DATA.to_vec(), ROOT_NAME, 0, true, 0)
        .build(&path)
        .expect("build archive");
    path
}

/// Read the raw stored bytes of `name` straight from the archive file.
fn stored_bytes(path: &std::path::Path, name: &str) -> (u64, Vec<u8>, u32) {
    let archive = Archive::open(path).expect("open");
    let info = archive
        .find_file(name)
        .expect("find_file")
        .unwrap_or_else(|| panic!("{name} not found"));
    assert!(info.is_encrypted(), "{name}: expected ENCRYPTED flag");
    assert!(!info.has_fix_key(), "{name}: expected no FIX_KEY flag");
    assert!(!info.is_compressed(), "{name}: expected uncompressed");
    assert_eq!(info.compressed_size, 16, "{name}: stored size");
    assert_eq!(info.file_size, 16, "{name}: file size");
    drop(archive);

    let mut f = fs::File::open(path).unwrap();
    f.seek(SeekFrom::Start(info.file_pos)).unwrap();
    let mut buf = vec![0u8; info.compressed_size as usize];
    f.read_exact(&mut buf).unwrap();
    (info.file_pos, buf, info.flags)
}

/// Control: a file in the archive root. plain name == full name, both keys coincide.
#[test]
fn control_root_file_keys_coincide_and_roundtrip() {
    let dir = tempfile::tempdir().unwrap();
    let path = build_archive(&dir);

    let (pos, stored, flags) = stored_bytes(&path, ROOT_NAME);
    let key = hash_string(ROOT_NAME, FILE_KEY);
    println!("[control] {ROOT_NAME}: file_pos={pos:#x} flags={flags:#010x} key={key:#010x}");
    println!("[control] stored bytes      = {stored:02X?}");
    assert_ne!(&stored[..], &ROOT_DATA[..], "stored bytes must be encrypted");

    let dec = decrypt_with(&stored, key);
    println!("[control] decrypt(plain==full key) = {}", show(&dec));
    assert_eq!(&dec[..], &ROOT_DATA[..]);

    let mut a = Archive::open(&path).unwrap();
    let got = a.read_file(ROOT_NAME).unwrap();
    println!("[control] Archive::read_file  = {}", show(&got));
    assert_eq!(&got[..], &ROOT_DATA[..]);
}

/// Direction (a): what the builder wrote must be decryptable with the format's
/// plain-name key.
#[test]
fn builder_encrypts_nested_file_with_plain_name_key() {
    let dir = tempfile::tempdir().unwrap();
    let path = build_archive(&dir);

    let (pos, stored, flags) = stored_bytes(&path, NESTED_NAME);
    let key_plain = hash_string(NESTED_PLAIN, FILE_KEY);
    let key_full = hash_string(NESTED_NAME, FILE_KEY);
    println!("[a] {NESTED_NAME}: file_pos={pos:#x} flags={flags:#010x}");
    println!("[a] key_plain = hash_string({NESTED_PLAIN:?}, 0x300) = {key_plain:#010x}");
    println!("[a] key_full  = hash_string({NESTED_NAME:?}, 0x300) = {key_full:#010x}");
    assert_ne!(key_plain, key_full);
    println!("[a] stored bytes = {stored:02X?}");
    assert_ne!(&stored[..], &NESTED_DATA[..], "stored bytes must be encrypted");

    let dec_plain = decrypt_with(&stored, key_plain);
    let dec_full = decrypt_with(&stored, key_full);
    println!("[a] decrypt with key_plain -> {}  ({:02X?})", show(&dec_plain), dec_plain);
    println!("[a] decrypt with key_full  -> {}", show(&dec_full));
    let which = match (&dec_plain[..] == NESTED_DATA, &dec_full[..] == NESTED_DATA) {
        (true, false) => "PLAIN-NAME key (format-conformant)",
        (false, true) => "FULL-PATH key (non-conformant)",
        (true, true) => "both?!",
        (false, false) => "neither",
    };
    println!("[a] key that yields the plaintext: {which}");

    // The library itself round-trips (it is self-consistent):
    let mut a = Archive::open(&path).unwrap();
    let got = a.read_file(NESTED_NAME).unwrap();
    println!("[a] Archive::read_file (self round-trip) = {}", show(&got));

    // FORMAT-CONFORMANT expectation:
    assert_eq!(
        &dec_plain[..],
        &NESTED_DATA[..],
        "builder output for {NESTED_NAME:?} is not decryptable with the plain-name key \
         hash_string({NESTED_PLAIN:?}, FILE_KEY); key that works: {which}"
    );
}

/// Direction (b): an archive as a conformant writer would produce it (payload
/// encrypted with the plain-name key) must be readable via Archive::read_file.
#[test]
fn reader_decrypts_conformant_nested_file() {
    let dir = tempfile::tempdir().unwrap();
    let path = build_archive(&dir);

    let (pos, stored_before, _flags) = stored_bytes(&path, NESTED_NAME);
    let key_plain = hash_string(NESTED_PLAIN, FILE_KEY);
    let conformant = encrypt_with(NESTED_DATA, key_plain);
    println!("[b] original stored bytes        = {stored_before:02X?}");
    println!("[b] conformant stored bytes      = {conformant:02X?}");
    // sanity: our conformant ciphertext decrypts with the plain key
    assert_eq!(&decrypt_with(&conformant, key_plain)[..], &NESTED_DATA[..]);

    {
        let mut f = fs::OpenOptions::new().write(true).open(&path).unwrap();
        f.seek(SeekFrom::Start(pos)).unwrap();
        f.write_all(&conformant).unwrap();
        f.flush().unwrap();
    }

    let mut a = Archive::open(&path).expect("reopen patched archive");
    // control inside the same archive still reads
    let root = a.read_file(ROOT_NAME).expect("read root");
    assert_eq!(&root[..], &ROOT_DATA[..]);

    let res = a.read_file(NESTED_NAME);
    match &res {
        Ok(d) => println!("[b] Archive::read_file -> Ok({})  ({:02X?})", show(d), d),
        Err(e) => println!("[b] Archive::read_file -> Err({e})"),
    }

    // FORMAT-CONFORMANT expectation:
    let got = res.expect("read_file on conformant archive returned an error");
    assert_eq!(
        &got[..],
        &NESTED_DATA[..],
        "Archive::read_file({NESTED_NAME:?}) returned garbage for a payload encrypted with \
         the format's plain-name key"
    );
}
