//! The combined methods ADPCM + bzip2 (0x50 mono, 0x90 stereo) must be readable
//! whenever the compressor produces them.
//!
//! ADPCM is lossy, so `decompress(compress(d)) == d` cannot hold literally for any
//! ADPCM method. What must hold is that the lossless outer stage is transparent:
//! decoding an `ADPCM | bzip2` block gives exactly what decoding the plain `ADPCM`
//! block of the same input gives (and that stays close to the input). The
//! `ADPCM | zlib` combinations are checked the same way as a control.

use tempfile::TempDir;
use wow_mpq::compression::{compress, decompress, flags};
use wow_mpq::{Archive, ArchiveBuilder};

/// 16-bit little endian PCM, `len` bytes (interleaved L/R when read as stereo)
fn pcm(len: usize) -> Vec<u8> {
    (0..len / 2)
        .flat_map(|i| {
            let t = i as f32;
            let sample = ((t * 0.05).sin() * 9000.0 + (t * 0.31).cos() * 1500.0) as i16;
            sample.to_le_bytes()
        })
        .collect()
}

fn samples(bytes: &[u8]) -> Vec<i16> {
    bytes
        .chunks_exact(2)
        .map(|c| i16::from_le_bytes([c[0], c[1]]))
        .collect()
}

/// What the plain ADPCM method (`adpcm` = 0x40 or 0x80) makes of `data`
fn adpcm_reference(data: &[u8], adpcm: u8) -> Vec<u8> {
    let block = compress(data, adpcm).expect("plain ADPCM compression");
    assert_eq!(block[0], adpcm, "plain ADPCM block should be compressed");
    decompress(&block[1..], adpcm, data.len()).expect("plain ADPCM decompression")
}

/// Block level check; returns a description of the failure, if any.
fn check_block(data: &[u8], method: u8) -> Option<String> {
    let what = format!("method 0x{method:02X}, {} bytes", data.len());
    let adpcm = method & (flags::ADPCM_MONO | flags::ADPCM_STEREO);

    let block = match compress(data, method) {
        Ok(block) => block,
        // Refusing is allowed by the property.
        Err(_) => return None,
    };
    if block.len() == data.len() {
        // Stored raw, without method byte.
        return (block != data).then(|| format!("{what}: raw block differs from input"));
    }
    if block[0] != method {
        return Some(format!("{what}: unexpected method byte 0x{:02X}", block[0]));
    }

    let out = match decompress(&block[1..], method, data.len()) {
        Ok(out) => out,
        Err(e) => {
            return Some(format!(
                "{what}: compressor produced {} bytes, decompressor refused them: {e}",
                block.len()
            ));
        }
    };

    if out != adpcm_reference(data, adpcm) {
        return Some(format!("{what}: differs from the plain ADPCM result"));
    }
    let worst = samples(&out)
        .iter()
        .zip(samples(data))
        .map(|(a, b)| (*a as i32 - b as i32).abs())
        .max()
        .unwrap_or(0);
    (worst > 2000).then(|| format!("{what}: sample error {worst} too large"))
}

#[test]
fn adpcm_bzip2_blocks_are_readable() {
    let methods = [
        flags::ADPCM_MONO | flags::ZLIB,
        flags::ADPCM_STEREO | flags::ZLIB,
        flags::ADPCM_MONO | flags::BZIP2,
        flags::ADPCM_STEREO | flags::BZIP2,
    ];
    assert_eq!(methods[2], 0x50);
    assert_eq!(methods[3], 0x90);

    let mut failures = Vec::new();
    for len in [200usize, 4096, 16_384, 20_000] {
        let data = pcm(len);
        for method in methods {
            failures.extend(check_block(&data, method));
        }
    }

    assert!(
        failures.is_empty(),
        "{} blocks failed:\n{}",
        failures.len(),
        failures.join("\n")
    );
}

#[test]
fn adpcm_bzip2_files_are_readable_through_archive() {
    let dir = TempDir::new().unwrap();
    let sector_size = 512usize << 5; // ArchiveBuilder default block size

    for method in [
        flags::ADPCM_MONO | flags::BZIP2,
        flags::ADPCM_STEREO | flags::BZIP2,
    ] {
        // Single unit file, and a file of three sectors
        for len in [4096usize, 40_000] {
            let path = dir.path().join(format!("adpcm_{method:02x}_{len}.mpq"));
            let data = pcm(len);

            ArchiveBuilder::new()
                .add_file_data_with_options(data.clone(), "sound\\test.wav", method, false, 0)
                .build(&path)
                .unwrap();

            let mut archive = Archive::open(&path).unwrap();
            let read = archive.read_file("sound\\test.wav").unwrap_or_else(|e| {
                panic!("method 0x{method:02X}, {len} bytes: the builder wrote it, read failed: {e}")
            });

            // Every sector is an independent ADPCM stream
            let adpcm = method & (flags::ADPCM_MONO | flags::ADPCM_STEREO);
            let expected: Vec<u8> = data
                .chunks(sector_size)
                .flat_map(|sector| adpcm_reference(sector, adpcm))
                .collect();
            assert!(
                read == expected,
                "method 0x{method:02X}, {len} bytes: differs from the plain ADPCM result"
            );
        }
    }
}
