//! PKWare DCL implode (method byte 0x08) must round-trip for every input size.
//!
//! Property: for every byte string `d`,
//! `decompress(compress(d, PKWARE), PKWARE, d.len()) == d`, where `compress`
//! is allowed to store the block raw (no method byte, same length as `d`).
//! The same must hold through `ArchiveBuilder` + `Archive::read_file`.

use tempfile::TempDir;
use wow_mpq::compression::{compress, decompress, flags};
use wow_mpq::{Archive, ArchiveBuilder};

/// Deterministic pseudo random bytes in `0..modulo` (low entropy => compressible).
fn lcg(n: usize, seed: u32, modulo: u32) -> Vec<u8> {
    let mut s = seed;
    (0..n)
        .map(|_| {
            s = s.wrapping_mul(1_664_525).wrapping_add(1_013_904_223);
            ((s >> 16) % modulo) as u8
        })
        .collect()
}

fn text(n: usize) -> Vec<u8> {
    b"The quick brown fox jumps over the lazy dog. "
        .iter()
        .cycle()
        .take(n)
        .copied()
        .collect()
}

/// Block level round trip; returns a description of the failure, if any.
fn round_trip(name: &str, data: &[u8]) -> Option<String> {
    let block = match compress(data, flags::PKWARE) {
        Ok(block) => block,
        // Refusing is allowed by the property.
        Err(_) => return None,
    };

    if block.len() == data.len() {
        // Stored raw: `compress` returns the input itself, without method byte.
        return (block != data).then(|| format!("{name}: raw block differs from input"));
    }

    if block[0] != flags::PKWARE {
        return Some(format!("{name}: unexpected method byte 0x{:02X}", block[0]));
    }

    match decompress(&block[1..], block[0], data.len()) {
        Err(e) => Some(format!(
            "{name}: {} bytes -> {} bytes, decompress refused: {e}",
            data.len(),
            block.len()
        )),
        Ok(out) if out == data => None,
        Ok(out) => Some(format!(
            "{name}: {} bytes -> {} bytes, decompressed {} bytes, first difference at {:?}",
            data.len(),
            block.len(),
            out.len(),
            out.iter().zip(data).position(|(a, b)| a != b)
        )),
    }
}

#[test]
fn pkware_block_round_trips_at_every_size() {
    // Around the 4096 byte window of the decoder, the 8708 byte work buffer of
    // the encoder, and well beyond both.
    let sizes = [
        1usize, 2, 3, 100, 2048, 4095, 4096, 4097, 4098, 4100, 5000, 8191, 8192, 8193, 8200, 8708,
        8709, 10_000, 12_288, 16_384, 20_000, 65_536, 100_000,
    ];

    let mut failures = Vec::new();
    for &n in &sizes {
        let inputs = [
            (format!("text[{n}]"), text(n)),
            (format!("zeros[{n}]"), vec![0u8; n]),
            (format!("lcg4[{n}]"), lcg(n, 1, 4)),
            (format!("lcg16[{n}]"), lcg(n, 7, 16)),
            (format!("lcg256[{n}]"), lcg(n, 3, 256)),
        ];
        for (name, data) in &inputs {
            failures.extend(round_trip(name, data));
        }
    }

    assert!(
        failures.is_empty(),
        "{} PKWare round trips failed:\n{}",
        failures.len(),
        failures.join("\n")
    );
}

#[test]
fn pkware_block_round_trips_for_every_length_up_to_three_windows() {
    // Exhaustive over the length, one compressible input per length.
    let base = lcg(3 * 4096 + 64, 11, 8);
    let failures: Vec<String> = (1..=base.len())
        .filter_map(|n| round_trip(&format!("lcg8[{n}]"), &base[..n]))
        .collect();

    assert!(
        failures.is_empty(),
        "{} PKWare round trips failed, first ones:\n{}",
        failures.len(),
        failures[..failures.len().min(10)].join("\n")
    );
}

#[test]
fn pkware_file_round_trips_through_archive() {
    let dir = TempDir::new().unwrap();

    // (block_size, file length): default 16 KiB sectors, 64 KiB sectors, 4 KiB sectors
    for (block_size, len) in [
        (5u16, 10_000usize),
        (5, 40_000),
        (7, 65_536),
        (3, 4097),
        (4, 8193),
    ] {
        let path = dir.path().join(format!("pkware_{block_size}_{len}.mpq"));
        let data = text(len);

        ArchiveBuilder::new()
            .block_size(block_size)
            .add_file_data_with_options(data.clone(), "data\\file.txt", flags::PKWARE, false, 0)
            .build(&path)
            .unwrap();

        let mut archive = Archive::open(&path).unwrap();
        let read = archive
            .read_file("data\\file.txt")
            .unwrap_or_else(|e| panic!("block_size {block_size}, {len} bytes: read failed: {e}"));

        assert_eq!(
            read.len(),
            data.len(),
            "block_size {block_size}, {len} bytes: length differs"
        );
        assert!(
            read == data,
            "block_size {block_size}, {len} bytes: content differs, first difference at {:?}",
            read.iter().zip(&data).position(|(a, b)| a != b)
        );
    }
}
