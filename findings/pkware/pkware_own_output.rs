//! C03 / C05 reproduction: the PKWare (implode) codec must accept its own output, and a stream whose
//! header announces the ASCII literal mode must give an error, not a panic.
use std::panic::{AssertUnwindSafe, catch_unwind};
use wow_mpq::compression::{compress, decompress, flags};

#[test]
fn pkware_round_trips_its_own_output() {
    let mut compressed_cases = 0;
    for data in [vec![0x41u8; 4096], b"the quick brown fox jumps over the lazy dog ".repeat(40), (0..2048u32).map(|i| (i % 7) as u8).collect::<Vec<u8>>()] {
        let stored = compress(&data, flags::PKWARE).expect("compress");
        if stored.len() >= data.len() {
            continue; // stored raw (the compressor's own limits): nothing to decode
        }
        compressed_cases += 1;
        let out = catch_unwind(AssertUnwindSafe(|| decompress(&stored[1..], stored[0], data.len())));
        let out = out.expect("decompress panicked on the codec's own output").expect("decompress failed on the codec's own output");
        assert_eq!(out, data);
    }
    assert!(compressed_cases >= 2, "test data must actually be stored compressed");
}

#[test]
fn ascii_mode_stream_is_an_error_not_a_panic() {
    // mode byte 1 (ASCII literals), 4-bit dictionary, then arbitrary bits
    let stream = [1u8, 4, 0x00, 0xFF, 0x12, 0x34, 0x56];
    let out = catch_unwind(AssertUnwindSafe(|| decompress(&stream, flags::PKWARE, 64)));
    assert!(out.is_ok(), "decompress panicked on an ASCII-mode PKWare stream");
}
