//! Totality probes for wow-cdbc (DbcParser::parse_bytes + parse_records).
#![allow(dead_code)]
use std::alloc::{GlobalAlloc, Layout, System};
use std::io::Cursor;
use std::panic::{AssertUnwindSafe, catch_unwind};
use std::sync::Mutex;
use std::sync::atomic::{AtomicUsize, Ordering};

const ALLOC_LIMIT: usize = 64 << 20;
/// Threshold used by the header sweeps (inputs are <= 512 bytes).
const SWEEP_LIMIT: usize = 1 << 20;
/// Requests above this are refused (null => the Rust runtime aborts the process).
const ALLOC_REFUSE: usize = 8 << 30;

struct Recording;
static MAX_REQ: AtomicUsize = AtomicUsize::new(0);

/// When TRACE is on, remember the first crate frame of the largest request >= SWEEP_LIMIT.
static TRACE: std::sync::atomic::AtomicBool = std::sync::atomic::AtomicBool::new(false);
static IN_BT: std::sync::atomic::AtomicBool = std::sync::atomic::AtomicBool::new(false);
static BIG_SITE: Mutex<(usize, String)> = Mutex::new((0, String::new()));
fn note_big(size: usize) {
    if size >= SWEEP_LIMIT && TRACE.load(Ordering::Relaxed) && !IN_BT.swap(true, Ordering::SeqCst) {
        let bt = std::backtrace::Backtrace::force_capture().to_string();
        let lines: Vec<&str> = bt.lines().collect();
        let mut site = String::from("<no crate frame>");
        for (i, l) in lines.iter().enumerate() {
            if l.contains(": wow_") || l.contains(": <wow_") {
                let at = lines.get(i + 1).map(|s| s.trim()).unwrap_or("");
                site = format!("{} {}", l.trim().splitn(2, ": ").nth(1).unwrap_or(l), at);
                break;
            }
        }
        if let Ok(mut g) = BIG_SITE.try_lock() {
            if size > g.0 {
                *g = (size, site);
            }
        }
        IN_BT.store(false, Ordering::SeqCst);
    }
}
/// Run `f` once more with allocation-site tracing and return the site of the largest big request.
fn big_site<T, E>(f: impl FnOnce() -> Result<T, E>) -> String {
    *BIG_SITE.lock().unwrap_or_else(|e| e.into_inner()) = (0, String::new());
    TRACE.store(true, Ordering::SeqCst);
    let _ = catch_unwind(AssertUnwindSafe(|| f().map(|_| ()).map_err(|_| ())));
    TRACE.store(false, Ordering::SeqCst);
    BIG_SITE.lock().unwrap_or_else(|e| e.into_inner()).1.clone()
}

unsafe impl GlobalAlloc for Recording {
    unsafe fn alloc(&self, l: Layout) -> *mut u8 {
        MAX_REQ.fetch_max(l.size(), Ordering::Relaxed);
        note_big(l.size());
        if l.size() > ALLOC_REFUSE {
            return std::ptr::null_mut();
        }
        unsafe { System.alloc(l) }
    }
    unsafe fn alloc_zeroed(&self, l: Layout) -> *mut u8 {
        MAX_REQ.fetch_max(l.size(), Ordering::Relaxed);
        note_big(l.size());
        if l.size() > ALLOC_REFUSE {
            return std::ptr::null_mut();
        }
        unsafe { System.alloc_zeroed(l) }
    }
    unsafe fn realloc(&self, p: *mut u8, l: Layout, n: usize) -> *mut u8 {
        MAX_REQ.fetch_max(n, Ordering::Relaxed);
        note_big(n);
        if n > ALLOC_REFUSE {
            return std::ptr::null_mut();
        }
        unsafe { System.realloc(p, l, n) }
    }
    unsafe fn dealloc(&self, p: *mut u8, l: Layout) {
        unsafe { System.dealloc(p, l) }
    }
}

#[global_allocator]
static GLOBAL: Recording = Recording;

static LOCK: Mutex<()> = Mutex::new(());

/// Outcome of one probe.
#[derive(Debug)]
struct Outcome {
    panic: Option<String>,
    max_alloc: usize,
    returned: &'static str,
    err: String,
}

fn probe<T, E: std::fmt::Debug>(f: impl FnOnce() -> Result<T, E>) -> Outcome {
    let _g = LOCK.lock().unwrap_or_else(|e| e.into_inner());
    MAX_REQ.store(0, Ordering::Relaxed);
    let r = catch_unwind(AssertUnwindSafe(|| f().map(|_| ()).map_err(|e| { format!("{e:?}").chars().take(120).collect::<String>() })));
    let max_alloc = MAX_REQ.load(Ordering::Relaxed);
    match r {
        Ok(Ok(())) => Outcome { panic: None, max_alloc, returned: "Ok", err: String::new() },
        Ok(Err(e)) => Outcome { panic: None, max_alloc, returned: "Err", err: e },
        Err(p) => {
            let msg = p
                .downcast_ref::<String>()
                .cloned()
                .or_else(|| p.downcast_ref::<&str>().map(|s| s.to_string()))
                .unwrap_or_else(|| "<non-string panic>".into());
            Outcome { panic: Some(msg), max_alloc, returned: "panic", err: String::new() }
        }
    }
}

fn check(name: &str, o: Outcome) {
    eprintln!("{name}: {o:?}");
    assert!(o.panic.is_none(), "{name}: panicked: {:?}", o.panic);
    assert!(
        o.max_alloc <= ALLOC_LIMIT,
        "{name}: single allocation request of {} bytes ({} MiB) from a tiny input (returned {})",
        o.max_alloc,
        o.max_alloc >> 20,
        o.returned
    );
}

fn put_u32(buf: &mut [u8], off: usize, v: u32) {
    buf[off..off + 4].copy_from_slice(&v.to_le_bytes());
}


const HOSTILE: [u32; 4] = [0xFFFF_FFFF, 0x7FFF_FFFF, 0x8000_0000, 0x0400_0000];

/// Replace every aligned u32 in `range` of `base` by each HOSTILE value; report panics / big requests.
/// A panic hook records the source location of each panic.
fn sweep<T, E: std::fmt::Debug>(
    label: &str,
    base: &[u8],
    range: std::ops::Range<usize>,
    f: impl Fn(&[u8]) -> Result<T, E>,
) -> Vec<String> {
    static AT: Mutex<String> = Mutex::new(String::new());
    std::panic::set_hook(Box::new(|info| {
        if let Some(l) = info.location() {
            *AT.lock().unwrap_or_else(|e| e.into_inner()) = format!("{}:{}", l.file(), l.line());
        }
    }));
    let mut bad = Vec::new();
    let mut seen = std::collections::BTreeMap::<String, usize>::new();
    for off in range.step_by(4) {
        if off + 4 > base.len() {
            break;
        }
        for val in HOSTILE {
            let mut b = base.to_vec();
            put_u32(&mut b, off, val);
            AT.lock().unwrap_or_else(|e| e.into_inner()).clear();
            let o = probe(|| f(&b));
            if o.panic.is_some() || o.max_alloc >= SWEEP_LIMIT {
                let at = AT.lock().unwrap_or_else(|e| e.into_inner()).clone();
                let site = if o.max_alloc >= SWEEP_LIMIT { big_site(|| f(&b)) } else { String::new() };
                let key = format!("panic={:?} at [{at}] big_alloc_site=[{site}]", o.panic);
                let n = seen.entry(key).or_insert(0);
                *n += 1;
                if *n <= 3 {
                    bad.push(format!(
                        "{label} +{off:#06x}={val:#010x}: returned={} max_alloc={} MiB alloc_site=[{site}] panic={:?} at [{at}]",
                        o.returned,
                        o.max_alloc >> 20,
                        o.panic
                    ));
                }
            }
        }
    }
    let _ = std::panic::take_hook();
    for (k, n) in &seen {
        eprintln!("{label}: {n} mutations -> {k}");
    }
    for l in &bad {
        eprintln!("{l}");
    }
    bad
}

fn chunk(magic: &[u8; 4], data: &[u8]) -> Vec<u8> {
    let mut v = magic.to_vec();
    v.extend_from_slice(&(data.len() as u32).to_le_bytes());
    v.extend_from_slice(data);
    v
}

fn chunk_hdr(magic: &[u8; 4], size: u32) -> Vec<u8> {
    let mut v = magic.to_vec();
    v.extend_from_slice(&size.to_le_bytes());
    v
}

use wow_cdbc::DbcParser;

fn parse(b: &[u8]) -> Result<usize, wow_cdbc::Error> {
    let p = DbcParser::parse_bytes(b)?;
    let r = p.parse_records()?;
    Ok(r.len())
}

fn minimal_dbc() -> Vec<u8> {
    let mut b = b"WDBC".to_vec();
    for v in [2u32, 2, 8, 4] {
        b.extend_from_slice(&v.to_le_bytes());
    }
    b.extend_from_slice(&[1, 0, 0, 0, 0, 0, 0, 0, 2, 0, 0, 0, 1, 0, 0, 0]);
    b.extend_from_slice(b"\0ab\0");
    b
}

#[test]
fn baseline() {
    let o = probe(|| parse(&minimal_dbc()));
    eprintln!("{o:?}");
    assert_eq!(o.returned, "Ok", "{o:?}");
}

/// 41-byte file, record_count = 0x0100_0000: parse_bytes accepts it, parse_records then does
/// Vec::with_capacity(record_count) (parser.rs:369).
#[test]
fn dbc_record_count_huge() {
    let mut b = minimal_dbc();
    put_u32(&mut b, 4, 0x0100_0000);
    let o = probe(|| DbcParser::parse_bytes(&b));
    eprintln!("parse_bytes alone: {o:?}");
    check("dbc_record_count_huge", probe(|| parse(&b)));
}

/// field_count = 0x0400_0000 (record_size left at 8): parse_record_raw Vec::with_capacity(field_count)
#[test]
fn dbc_field_count_huge() {
    let mut b = minimal_dbc();
    put_u32(&mut b, 8, 0x0400_0000);
    check("dbc_field_count_huge", probe(|| parse(&b)));
}

/// In-process sweep with moderate values only (0xFFFF_FFFF in record_count aborts the process:
/// see abort_demo_dbc_record_count_ffffffff).
#[test]
fn dbc_sweep() {
    let base = minimal_dbc();
    let mut bad = Vec::new();
    for off in (4..20).step_by(4) {
        for val in [0x0010_0000u32, 0x0100_0000, 0] {
            let mut b = base.clone();
            put_u32(&mut b, off, val);
            let o = probe(|| parse(&b));
            if o.panic.is_some() || o.max_alloc >= SWEEP_LIMIT {
                bad.push(format!("dbc +{off:#04x}={val:#010x}: {o:?}"));
            }
        }
    }
    for l in &bad {
        eprintln!("{l}");
    }
    assert!(bad.is_empty(), "{} hostile mutations", bad.len());
}

/// record_count = 0xFFFF_FFFF => with_capacity(4Gi records) = 128 GiB => allocation failure abort.
#[test]
#[ignore]
fn abort_demo_dbc_record_count_ffffffff() {
    let mut b = minimal_dbc();
    put_u32(&mut b, 4, 0xFFFF_FFFF);
    let _ = parse(&b);
}
