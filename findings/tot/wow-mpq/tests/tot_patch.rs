//! Totality probes for wow_mpq::patch: crafted ~110 byte PTCH/BSD0 patch files fed to
//! `PatchFile::parse` + `apply_patch`. No panic, no single allocation > 64 MiB allowed.

use std::alloc::{GlobalAlloc, Layout, System};
use std::panic::{AssertUnwindSafe, catch_unwind};
use std::sync::Mutex;
use std::sync::atomic::{AtomicUsize, Ordering};

use wow_mpq::patch::{PatchFile, apply_patch};

const ALLOC_LIMIT: usize = 64 << 20;
const SWEEP_LIMIT: usize = 16 << 20;
const ALLOC_REFUSE: usize = 8 << 30;

struct Recording;
static MAX_REQ: AtomicUsize = AtomicUsize::new(0);

static IN_BT: std::sync::atomic::AtomicBool = std::sync::atomic::AtomicBool::new(false);
/// With TOT_BT=1, print a backtrace of the refused (> 8 GiB) request before the runtime aborts.
fn refused(size: usize) {
    if std::env::var_os("TOT_BT").is_some() && !IN_BT.swap(true, Ordering::SeqCst) {
        eprintln!("REFUSED allocation of {size} bytes at:\n{}", std::backtrace::Backtrace::force_capture());
    }
}

/// Child-process mode: remember the crate frame responsible for the largest request > SWEEP_LIMIT.
static TRACE_BIG: std::sync::atomic::AtomicBool = std::sync::atomic::AtomicBool::new(false);
static BIG_SITE: Mutex<(usize, String)> = Mutex::new((0, String::new()));
fn first_crate_frame(bt: &str) -> String {
    let lines: Vec<&str> = bt.lines().collect();
    for (i, l) in lines.iter().enumerate() {
        if l.contains("wow_mpq::") {
            let at = lines.get(i + 1).map(|s| s.trim()).unwrap_or("");
            return format!("{} {}", l.trim().splitn(2, ": ").nth(1).unwrap_or(l), at);
        }
    }
    "<no crate frame>".into()
}
fn note_big(size: usize) {
    if size > SWEEP_LIMIT && TRACE_BIG.load(Ordering::Relaxed) && !IN_BT.swap(true, Ordering::SeqCst) {
        let bt = std::backtrace::Backtrace::force_capture().to_string();
        let site = first_crate_frame(&bt);
        if size > ALLOC_REFUSE {
            eprintln!("TOT_REFUSED size={size} site={site}");
        }
        if let Ok(mut g) = BIG_SITE.try_lock() {
            if size > g.0 {
                *g = (size, site);
            }
        }
        IN_BT.store(false, Ordering::SeqCst);
    }
}

unsafe impl GlobalAlloc for Recording {
    unsafe fn alloc(&self, l: Layout) -> *mut u8 {
        MAX_REQ.fetch_max(l.size(), Ordering::Relaxed);
        note_big(l.size());
        if l.size() > ALLOC_REFUSE {
            refused(l.size());
            return std::ptr::null_mut();
        }
        unsafe { System.alloc(l) }
    }
    unsafe fn alloc_zeroed(&self, l: Layout) -> *mut u8 {
        MAX_REQ.fetch_max(l.size(), Ordering::Relaxed);
        note_big(l.size());
        if l.size() > ALLOC_REFUSE {
            refused(l.size());
            return std::ptr::null_mut();
        }
        unsafe { System.alloc_zeroed(l) }
    }
    unsafe fn realloc(&self, p: *mut u8, l: Layout, n: usize) -> *mut u8 {
        MAX_REQ.fetch_max(n, Ordering::Relaxed);
        note_big(n);
        if n > ALLOC_REFUSE {
            refused(n);
            return std::ptr::null_mut();
        }
        unsafe { System.realloc(p, l, n) }
    }
    unsafe fn dealloc(&self, p: *mut u8, l: Layout) {
        unsafe { System.dealloc(p, l) }
    }
}

#[global_allocator]
static GLOBAL: Recording = Recording;
static LOCK: Mutex<()> = Mutex::new(());

#[derive(Debug)]
struct Outcome {
    panic: Option<String>,
    max_alloc: usize,
    returned: String,
}

fn probe<T, E: std::fmt::Debug>(f: impl FnOnce() -> Result<T, E>) -> Outcome {
    let _g = LOCK.lock().unwrap_or_else(|e| e.into_inner());
    MAX_REQ.store(0, Ordering::Relaxed);
    let r = catch_unwind(AssertUnwindSafe(|| {
        f().map(|_| ()).map_err(|e| {
            let mut s = format!("{e:?}");
            s.truncate(160);
            s
        })
    }));
    let max_alloc = MAX_REQ.load(Ordering::Relaxed);
    match r {
        Ok(Ok(())) => Outcome { panic: None, max_alloc, returned: "Ok".into() },
        Ok(Err(e)) => Outcome { panic: None, max_alloc, returned: format!("Err({e})") },
        Err(p) => {
            let msg = p
                .downcast_ref::<String>()
                .cloned()
                .or_else(|| p.downcast_ref::<&str>().map(|s| s.to_string()))
                .unwrap_or_else(|| "<non-string panic>".into());
            Outcome { panic: Some(msg), max_alloc, returned: "panic".into() }
        }
    }
}

fn check(name: &str, o: Outcome) {
    eprintln!("{name}: {o:?}");
    assert!(o.panic.is_none(), "{name}: panicked: {:?}", o.panic);
    assert!(
        o.max_alloc <= ALLOC_LIMIT,
        "{name}: single allocation request of {} bytes ({} MiB) from a tiny archive (returned {})",
        o.max_alloc,
        o.max_alloc >> 20,
        o.returned
    );
}


/// MD5 of the empty byte string (the base file used by every probe below).
const MD5_EMPTY: [u8; 16] = [
    0xd4, 0x1d, 0x8c, 0xd9, 0x8f, 0x00, 0xb2, 0x04, 0xe9, 0x80, 0x09, 0x98, 0xec, 0xf8, 0x42, 0x7e,
];

/// RLE-encode `raw` as literal runs, prefixed by the 4-byte size header apply_bsd0_patch skips.
fn rle_literal(raw: &[u8]) -> Vec<u8> {
    let mut v = (raw.len() as u32).to_le_bytes().to_vec();
    for c in raw.chunks(128) {
        v.push(0x80 | (c.len() as u8 - 1));
        v.extend_from_slice(c);
    }
    v
}

/// A PTCH/BSD0 file (base = empty file). 64-byte header + RLE(bsdiff40 header).
fn bsd0_patch(patch_data_size: u32, size_after: u32, ctrl: u64, data: u64, new_size: u64) -> Vec<u8> {
    let mut bs = Vec::new();
    bs.extend_from_slice(&0x3034464649445342u64.to_le_bytes()); // "BSDIFF40"
    bs.extend_from_slice(&ctrl.to_le_bytes());
    bs.extend_from_slice(&data.to_le_bytes());
    bs.extend_from_slice(&new_size.to_le_bytes());
    let payload = rle_literal(&bs);

    let mut p = Vec::new();
    p.extend_from_slice(&0x48435450u32.to_le_bytes()); // PTCH
    p.extend_from_slice(&patch_data_size.to_le_bytes());
    p.extend_from_slice(&0u32.to_le_bytes()); // size_before
    p.extend_from_slice(&size_after.to_le_bytes());
    p.extend_from_slice(&0x5f35444du32.to_le_bytes()); // MD5_
    p.extend_from_slice(&40u32.to_le_bytes());
    p.extend_from_slice(&MD5_EMPTY); // md5_before
    p.extend_from_slice(&[0u8; 16]); // md5_after
    p.extend_from_slice(&0x4d524658u32.to_le_bytes()); // XFRM
    p.extend_from_slice(&(12 + payload.len() as u32).to_le_bytes());
    p.extend_from_slice(&0x30445342u32.to_le_bytes()); // BSD0
    p.extend_from_slice(&payload);
    p
}

fn run(bytes: &[u8]) -> wow_mpq::Result<Vec<u8>> {
    let patch = PatchFile::parse(bytes)?;
    apply_patch(&patch, b"")
}

#[test]
fn baseline_bsd0_reaches_bsdiff_logic() {
    // well-formed sizes: ctrl=0,data=0,new=0 -> reaches the final MD5 check (Err: md5_after is zero)
    let b = bsd0_patch(32, 0, 0, 0, 0);
    let o = probe(|| run(&b));
    eprintln!("{o:?} ({} byte patch)", b.len());
    assert!(o.panic.is_none());
    assert!(o.returned.contains("Patched file MD5 mismatch"), "{o:?}");
}

/// ctrl_block_size = 0xFFFF_FFFF_FFFF_FFF0: apply.rs:166 `ctrl_start + ctrl_block_size`
/// (debug: add overflow; release: wraps, then apply.rs:178 slice 32..16 panics)
#[test]
fn bsd0_ctrl_block_size_wraps() {
    let b = bsd0_patch(32, 0, 0xFFFF_FFFF_FFFF_FFF0, 0, 0);
    check("bsd0_ctrl_block_size_wraps", probe(|| run(&b)));
}

/// data_block_size = usize::MAX - 31: apply.rs:167 `data_start + data_block_size`
/// (debug: add overflow; release: extra_start wraps to 0, passes the length check, slice 32..0 panics)
#[test]
fn bsd0_data_block_size_wraps() {
    let b = bsd0_patch(32, 0, 0, u64::MAX - 31, 0);
    check("bsd0_data_block_size_wraps", probe(|| run(&b)));
}

/// PTCH header patch_data_size = 0x4000_0000: compression/algorithms/rle.rs:39 vec![0u8; 1 GiB]
#[test]
fn bsd0_patch_data_size_huge() {
    let b = bsd0_patch(0x4000_0000, 0, 0, 0, 0);
    check("bsd0_patch_data_size_huge", probe(|| run(&b)));
}

/// size_after = new_file_size = 0x4000_0000: apply.rs:185 vec![0u8; 1 GiB]
#[test]
fn bsd0_new_file_size_huge() {
    let b = bsd0_patch(32, 0x4000_0000, 0, 0, 0x4000_0000);
    check("bsd0_new_file_size_huge", probe(|| run(&b)));
}
