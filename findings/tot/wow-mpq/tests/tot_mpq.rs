//! Totality probes for wow-mpq: hostile archives.
//!
//! A small valid archive is produced with `ArchiveBuilder`; then a handful of bytes
//! (MPQ header fields or one encrypted block-table entry) are patched on disk.
//! Every public call must return Ok/Err: no panic, no single allocation > 64 MiB.

use std::alloc::{GlobalAlloc, Layout, System};
use std::panic::{AssertUnwindSafe, catch_unwind};
use std::path::{Path, PathBuf};
use std::sync::Mutex;
use std::sync::atomic::{AtomicUsize, Ordering};

use wow_mpq::crypto::{decrypt_block, encrypt_block, hash_string, hash_type};
use wow_mpq::{Archive, ArchiveBuilder, AttributesOption, FormatVersion, ListfileOption, PatchChain};

const ALLOC_LIMIT: usize = 64 << 20;
const SWEEP_LIMIT: usize = 16 << 20;
const ALLOC_REFUSE: usize = 8 << 30;

struct Recording;
static MAX_REQ: AtomicUsize = AtomicUsize::new(0);

static IN_BT: std::sync::atomic::AtomicBool = std::sync::atomic::AtomicBool::new(false);
/// With TOT_BT=1, print a backtrace of the refused (> 8 GiB) request before the runtime aborts.
fn refused(size: usize) {
    if std::env::var_os("TOT_BT").is_some() && !IN_BT.swap(true, Ordering::SeqCst) {
        eprintln!("REFUSED allocation of {size} bytes at:\n{}", std::backtrace::Backtrace::force_capture());
    }
}

/// Child-process mode: remember the crate frame responsible for the largest request > SWEEP_LIMIT.
static TRACE_BIG: std::sync::atomic::AtomicBool = std::sync::atomic::AtomicBool::new(false);
static BIG_SITE: Mutex<(usize, String)> = Mutex::new((0, String::new()));
fn first_crate_frame(bt: &str) -> String {
    let lines: Vec<&str> = bt.lines().collect();
    for (i, l) in lines.iter().enumerate() {
        if l.contains("wow_mpq::") {
            let at = lines.get(i + 1).map(|s| s.trim()).unwrap_or("");
            return format!("{} {}", l.trim().splitn(2, ": ").nth(1).unwrap_or(l), at);
        }
    }
    "<no crate frame>".into()
}
fn note_big(size: usize) {
    if size > SWEEP_LIMIT && TRACE_BIG.load(Ordering::Relaxed) && !IN_BT.swap(true, Ordering::SeqCst) {
        let bt = std::backtrace::Backtrace::force_capture().to_string();
        let site = first_crate_frame(&bt);
        if size > ALLOC_REFUSE {
            eprintln!("TOT_REFUSED size={size} site={site}");
        }
        if let Ok(mut g) = BIG_SITE.try_lock() {
            if size > g.0 {
                *g = (size, site);
            }
        }
        IN_BT.store(false, Ordering::SeqCst);
    }
}

unsafe impl GlobalAlloc for Recording {
    unsafe fn alloc(&self, l: Layout) -> *mut u8 {
        MAX_REQ.fetch_max(l.size(), Ordering::Relaxed);
        note_big(l.size());
        if l.size() > ALLOC_REFUSE {
            refused(l.size());
            return std::ptr::null_mut();
        }
        unsafe { System.alloc(l) }
    }
    unsafe fn alloc_zeroed(&self, l: Layout) -> *mut u8 {
        MAX_REQ.fetch_max(l.size(), Ordering::Relaxed);
        note_big(l.size());
        if l.size() > ALLOC_REFUSE {
            refused(l.size());
            return std::ptr::null_mut();
        }
        unsafe { System.alloc_zeroed(l) }
    }
    unsafe fn realloc(&self, p: *mut u8, l: Layout, n: usize) -> *mut u8 {
        MAX_REQ.fetch_max(n, Ordering::Relaxed);
        note_big(n);
        if n > ALLOC_REFUSE {
            refused(n);
            return std::ptr::null_mut();
        }
        unsafe { System.realloc(p, l, n) }
    }
    unsafe fn dealloc(&self, p: *mut u8, l: Layout) {
        unsafe { System.dealloc(p, l) }
    }
}

#[global_allocator]
static GLOBAL: Recording = Recording;
static LOCK: Mutex<()> = Mutex::new(());

#[derive(Debug)]
struct Outcome {
    panic: Option<String>,
    max_alloc: usize,
    returned: String,
}

fn probe<T, E: std::fmt::Debug>(f: impl FnOnce() -> Result<T, E>) -> Outcome {
    let _g = LOCK.lock().unwrap_or_else(|e| e.into_inner());
    MAX_REQ.store(0, Ordering::Relaxed);
    let r = catch_unwind(AssertUnwindSafe(|| {
        f().map(|_| ()).map_err(|e| {
            let mut s = format!("{e:?}");
            s.truncate(160);
            s
        })
    }));
    let max_alloc = MAX_REQ.load(Ordering::Relaxed);
    match r {
        Ok(Ok(())) => Outcome { panic: None, max_alloc, returned: "Ok".into() },
        Ok(Err(e)) => Outcome { panic: None, max_alloc, returned: format!("Err({e})") },
        Err(p) => {
            let msg = p
                .downcast_ref::<String>()
                .cloned()
                .or_else(|| p.downcast_ref::<&str>().map(|s| s.to_string()))
                .unwrap_or_else(|| "<non-string panic>".into());
            Outcome { panic: Some(msg), max_alloc, returned: "panic".into() }
        }
    }
}

fn check(name: &str, o: Outcome) {
    eprintln!("{name}: {o:?}");
    assert!(o.panic.is_none(), "{name}: panicked: {:?}", o.panic);
    assert!(
        o.max_alloc <= ALLOC_LIMIT,
        "{name}: single allocation request of {} bytes ({} MiB) from a tiny archive (returned {})",
        o.max_alloc,
        o.max_alloc >> 20,
        o.returned
    );
}

const NAME: &str = "a.txt";

/// Build a small archive containing `a.txt` with the given content; returns the path.
fn build(dir: &Path, tag: &str, version: FormatVersion, content: Vec<u8>, compression: u8, block_size: u16) -> PathBuf {
    let path = dir.join(format!("{tag}.mpq"));
    ArchiveBuilder::new()
        .version(version)
        .block_size(block_size)
        .listfile_option(ListfileOption::Generate)
        .attributes_option(AttributesOption::None)
        .add_file_data_with_options(content, NAME, compression, false, 0)
        .build(&path)
        .expect("build");
    path
}

/// Rewrite the (encrypted) classic block table entry of `a.txt` in place.
/// Entry layout: [file_pos, compressed_size, file_size, flags].
fn patch_block_entry(path: &Path, f: impl FnOnce(&mut [u32; 4])) {
    let (pos, count, block_index) = {
        let a = Archive::open(path).expect("open pristine");
        let fi = a.find_file(NAME).expect("find").expect("present");
        let h = a.header();
        (
            a.archive_offset() + h.get_block_table_pos(),
            h.block_table_size as usize,
            fi.block_index,
        )
    };
    let mut bytes = std::fs::read(path).unwrap();
    let tbl = &mut bytes[pos as usize..pos as usize + count * 16];
    let mut words: Vec<u32> = tbl
        .chunks_exact(4)
        .map(|c| u32::from_le_bytes([c[0], c[1], c[2], c[3]]))
        .collect();
    let key = hash_string("(block table)", hash_type::FILE_KEY);
    decrypt_block(&mut words, key);
    let mut e = [0u32; 4];
    e.copy_from_slice(&words[block_index * 4..block_index * 4 + 4]);
    f(&mut e);
    words[block_index * 4..block_index * 4 + 4].copy_from_slice(&e);
    encrypt_block(&mut words, key);
    for (c, w) in tbl.chunks_exact_mut(4).zip(&words) {
        c.copy_from_slice(&w.to_le_bytes());
    }
    std::fs::write(path, bytes).unwrap();
}

const FLAG_COMPRESS: u32 = 0x0000_0200;
const FLAG_PATCH_FILE: u32 = 0x0010_0000;
const FLAG_SINGLE_UNIT: u32 = 0x0100_0000;
const FLAG_SECTOR_CRC: u32 = 0x0400_0000;
const FLAG_EXISTS: u32 = 0x8000_0000;

fn open_and_read(path: &Path) -> wow_mpq::Result<Vec<u8>> {
    let mut a = Archive::open(path)?;
    a.read_file(NAME)
}

#[test]
fn baseline_roundtrip() {
    let d = tempfile::tempdir().unwrap();
    for (i, v) in [FormatVersion::V1, FormatVersion::V2, FormatVersion::V3, FormatVersion::V4]
        .into_iter()
        .enumerate()
    {
        let p = build(d.path(), &format!("base{i}"), v, vec![0x41; 100], 0, 3);
        patch_block_entry(&p, |_| {}); // identity patch must keep archive valid (V1/V2 use classic tables)
        let o = probe(|| open_and_read(&p));
        assert_eq!(o.returned, "Ok", "{v:?}: {o:?}");
        eprintln!("baseline {v:?}: size={} {o:?}", std::fs::metadata(&p).unwrap().len());
    }
}

// ---- Archive::read_file -----------------------------------------------------

/// block entry: compressed_size = 0x1000_0000, flags = EXISTS (stored) => archive.rs:1638 vec![0u8; 256 MiB]
#[test]
fn read_file_compressed_size_huge() {
    let d = tempfile::tempdir().unwrap();
    let p = build(d.path(), "csize", FormatVersion::V1, vec![0x41; 100], 0, 3);
    patch_block_entry(&p, |e| {
        e[1] = 0x1000_0000;
        e[3] = FLAG_EXISTS;
    });
    check("read_file_compressed_size_huge", probe(|| open_and_read(&p)));
}

/// block entry: compressed_size = 0, flags = EXISTS|COMPRESS|SINGLE_UNIT|SECTOR_CRC => archive.rs:1667 data[0] on empty Vec
#[test]
fn read_file_single_unit_crc_empty_data_index() {
    let d = tempfile::tempdir().unwrap();
    let p = build(d.path(), "crc0", FormatVersion::V1, vec![0x41; 100], 0, 3);
    patch_block_entry(&p, |e| {
        e[1] = 0;
        e[3] = FLAG_EXISTS | FLAG_COMPRESS | FLAG_SINGLE_UNIT | FLAG_SECTOR_CRC;
    });
    check("read_file_single_unit_crc_empty_data_index", probe(|| open_and_read(&p)));
}

/// header block_size (sector shift, u16 @ +0x0E) = 20 (the maximum accepted by validate_header_security)
/// + a compressed multi-sector file => read_sectored_file archive.rs:2269 vec![0u8; (512<<20)+1024]
#[test]
fn read_file_sector_shift_20() {
    let d = tempfile::tempdir().unwrap();
    let p = build(d.path(), "shift", FormatVersion::V1, vec![0x41; 5000], wow_mpq::compression::flags::ZLIB, 3);
    let mut bytes = std::fs::read(&p).unwrap();
    bytes[0x0E..0x10].copy_from_slice(&20u16.to_le_bytes());
    std::fs::write(&p, bytes).unwrap();
    check("read_file_sector_shift_20", probe(|| open_and_read(&p)));
}

// ---- PatchChain::read_file -> Archive::read_patch_file_raw ---------------------

fn tpatch_info(length: u32, flags: u32, data_size: u32, tail: &[u8]) -> Vec<u8> {
    let mut v = Vec::new();
    v.extend_from_slice(&length.to_le_bytes());
    v.extend_from_slice(&flags.to_le_bytes());
    v.extend_from_slice(&data_size.to_le_bytes());
    v.extend_from_slice(&[0u8; 16]); // md5
    v.extend_from_slice(tail);
    v.resize(v.len().max(64), 0);
    v
}

fn chain_read(path: &Path) -> wow_mpq::Result<Vec<u8>> {
    let mut c = PatchChain::new();
    c.add_archive(path, 0)?;
    c.read_file(NAME)
}

/// PATCH_FILE|SINGLE_UNIT, compressed_size = 4 < TPatchInfo.length = 28
/// => archive.rs:1852 `compressed_size - patch_info_length` underflow
#[test]
fn patch_chain_single_unit_length_underflow() {
    let d = tempfile::tempdir().unwrap();
    let p = build(d.path(), "pu", FormatVersion::V1, tpatch_info(28, 0, 16, &[]), 0, 3);
    patch_block_entry(&p, |e| {
        e[1] = 4;
        e[3] = FLAG_EXISTS | FLAG_PATCH_FILE | FLAG_SINGLE_UNIT;
    });
    check("patch_chain_single_unit_length_underflow", probe(|| chain_read(&p)));
}

/// PATCH_FILE|SINGLE_UNIT|COMPRESS, compressed_size == TPatchInfo.length => empty data, archive.rs:1875 data[0]
#[test]
fn patch_chain_single_unit_empty_data_index() {
    let d = tempfile::tempdir().unwrap();
    let p = build(d.path(), "pi", FormatVersion::V1, tpatch_info(28, 0, 16, &[]), 0, 3);
    patch_block_entry(&p, |e| {
        e[1] = 28;
        e[3] = FLAG_EXISTS | FLAG_PATCH_FILE | FLAG_SINGLE_UNIT | FLAG_COMPRESS;
    });
    check("patch_chain_single_unit_empty_data_index", probe(|| chain_read(&p)));
}

/// PATCH_FILE (sectored), data_size = 1 => 1 sector; offsets [100, 50] => archive.rs:1930 `sector_end - sector_start`
#[test]
fn patch_chain_sectored_offsets_underflow() {
    let d = tempfile::tempdir().unwrap();
    let mut tail = Vec::new();
    tail.extend_from_slice(&100u32.to_le_bytes());
    tail.extend_from_slice(&50u32.to_le_bytes());
    let p = build(d.path(), "so", FormatVersion::V1, tpatch_info(28, 0, 1, &tail), 0, 3);
    patch_block_entry(&p, |e| e[3] = FLAG_EXISTS | FLAG_PATCH_FILE);
    check("patch_chain_sectored_offsets_underflow", probe(|| chain_read(&p)));
}

/// PATCH_FILE (sectored), offsets [8, 8] => zero-length sector, archive.rs:1957 sector_data[0]
#[test]
fn patch_chain_sectored_empty_sector_index() {
    let d = tempfile::tempdir().unwrap();
    let mut tail = Vec::new();
    tail.extend_from_slice(&8u32.to_le_bytes());
    tail.extend_from_slice(&8u32.to_le_bytes());
    let p = build(d.path(), "se", FormatVersion::V1, tpatch_info(28, 0, 1, &tail), 0, 3);
    patch_block_entry(&p, |e| e[3] = FLAG_EXISTS | FLAG_PATCH_FILE);
    check("patch_chain_sectored_empty_sector_index", probe(|| chain_read(&p)));
}

/// PATCH_FILE (sectored), TPatchInfo.data_size = 0x7FFF_FFFF with header sector shift 20
/// => 4 sectors, 20-byte offset table, then archive.rs:1925 Vec::with_capacity(2 GiB)
#[test]
fn patch_chain_sectored_data_size_huge() {
    let d = tempfile::tempdir().unwrap();
    let mut tail = Vec::new();
    for _ in 0..5 {
        tail.extend_from_slice(&20u32.to_le_bytes());
    }
    tail.extend_from_slice(&[0u8; 32]);
    let p = build(d.path(), "sh", FormatVersion::V1, tpatch_info(28, 0, 0x7FFF_FFFF, &tail), 0, 3);
    patch_block_entry(&p, |e| e[3] = FLAG_EXISTS | FLAG_PATCH_FILE);
    let mut bytes = std::fs::read(&p).unwrap();
    bytes[0x0E..0x10].copy_from_slice(&20u16.to_le_bytes());
    std::fs::write(&p, bytes).unwrap();
    check("patch_chain_sectored_data_size_huge", probe(|| chain_read(&p)));
}

// ---- Archive::get_info -> validate_v4_md5_checksums -----------------------------

/// V4 header hash_table_size_64 (u64 @ +0x44) = 0x1000_0000 => archive.rs:830 vec![0u8; 256 MiB]
#[test]
fn get_info_v4_hash_table_size_64_huge() {
    let d = tempfile::tempdir().unwrap();
    let p = build(d.path(), "v4", FormatVersion::V4, vec![0x41; 100], 0, 3);
    let mut bytes = std::fs::read(&p).unwrap();
    assert_eq!(&bytes[0..4], b"MPQ\x1a");
    bytes[0x44..0x4C].copy_from_slice(&0x1000_0000u64.to_le_bytes());
    std::fs::write(&p, bytes).unwrap();
    check(
        "get_info_v4_hash_table_size_64_huge",
        probe(|| {
            let mut a = Archive::open(&p)?;
            a.get_info()
        }),
    );
}

// ---- abort demonstrations (run with --ignored, one at a time; they kill the process) ----

fn header_mutation_demo(version: FormatVersion, off: usize, val: u32) {
    let d = tempfile::tempdir().unwrap();
    let p = build(d.path(), "abort", version, vec![0x41; 5000], wow_mpq::compression::flags::ZLIB, 3);
    let mut b = std::fs::read(&p).unwrap();
    b[off..off + 4].copy_from_slice(&val.to_le_bytes());
    std::fs::write(&p, &b).unwrap();
    let _ = exercise(&p);
}

/// V3 header +0x28 (hash_table_pos_hi:u16, block_table_pos_hi:u16) = 0xFFFF_FFFF
#[test]
#[ignore]
fn abort_demo_v3_table_pos_hi() {
    header_mutation_demo(FormatVersion::V3, 0x28, 0xFFFF_FFFF);
}

// ---- sweeps ------------------------------------------------------------------

fn exercise(path: &Path) -> wow_mpq::Result<()> {
    let mut a = Archive::open(path)?;
    let _ = a.list();
    let _ = a.list_all();
    let _ = a.read_file(NAME);
    let _ = a.get_info();
    let _ = a.verify_signature();
    Ok(())
}

const HOSTILE: [u32; 6] = [0xFFFF_FFFF, 0x7FFF_FFFF, 0x8000_0000, 0x0100_0000, 0x0001_0000, 0];

/// Run one sweep case in a child process (this same test binary, `child_case` test) so that
/// allocation-failure aborts and stack overflows are observed instead of killing the sweep.
/// Returns None if the case is fine, Some(description) otherwise.
fn run_child(case: &str) -> Option<String> {
    let exe = std::env::current_exe().unwrap();
    let out = std::process::Command::new(exe)
        .args(["--exact", "child_case", "--ignored", "--nocapture", "--test-threads=1"])
        .env("TOT_CASE", case)
        .env("RUST_BACKTRACE", "0")
        .output()
        .unwrap();
    let text = format!(
        "{}{}",
        String::from_utf8_lossy(&out.stdout),
        String::from_utf8_lossy(&out.stderr)
    );
    if let Some(l) = text.lines().find(|l| l.contains("TOT_RESULT")) {
        let l = &l[l.find("TOT_RESULT").unwrap()..];
        if l.contains("verdict=ok") { None } else { Some(l.to_string()) }
    } else {
        let last = text
            .lines()
            .filter(|l| l.contains("TOT_REFUSED") || l.contains("memory allocation") || l.contains("overflowed its stack") || l.contains("panicked"))
            .collect::<Vec<_>>()
            .join(" | ");
        Some(format!("PROCESS DIED status={:?}: {last}", out.status))
    }
}

const VERSIONS: [FormatVersion; 4] = [FormatVersion::V1, FormatVersion::V2, FormatVersion::V3, FormatVersion::V4];

/// Child side of the sweeps. TOT_CASE = "hdr:<version idx>:<offset>:<value>" or
/// "blk:<field>:<value>:<flags or 0>".
#[test]
#[ignore]
fn child_case() {
    let Ok(case) = std::env::var("TOT_CASE") else { return };
    let f: Vec<&str> = case.split(':').collect();
    let d = tempfile::tempdir().unwrap();
    let n = |s: &str| s.parse::<u64>().unwrap();
    let p = match f[0] {
        "hdr" => {
            let p = build(d.path(), "c", VERSIONS[n(f[1]) as usize], vec![0x41; 5000], wow_mpq::compression::flags::ZLIB, 3);
            let mut b = std::fs::read(&p).unwrap();
            let off = n(f[2]) as usize;
            b[off..off + 4].copy_from_slice(&(n(f[3]) as u32).to_le_bytes());
            std::fs::write(&p, &b).unwrap();
            p
        }
        "blk" => {
            let p = build(d.path(), "c", FormatVersion::V1, vec![0x41; 5000], wow_mpq::compression::flags::ZLIB, 3);
            patch_block_entry(&p, |e| {
                e[n(f[1]) as usize] = n(f[2]) as u32;
                if n(f[3]) != 0 {
                    e[3] = n(f[3]) as u32;
                }
            });
            p
        }
        _ => unreachable!(),
    };
    static PANIC_AT: Mutex<String> = Mutex::new(String::new());
    std::panic::set_hook(Box::new(|info| {
        if let Some(l) = info.location() {
            let bt = std::backtrace::Backtrace::force_capture().to_string();
            *PANIC_AT.lock().unwrap() = format!("{}:{} via {}", l.file(), l.line(), first_crate_frame(&bt));
        }
    }));
    TRACE_BIG.store(true, Ordering::SeqCst);
    let o = probe(|| exercise(&p));
    TRACE_BIG.store(false, Ordering::SeqCst);
    let verdict = if o.panic.is_some() || o.max_alloc > SWEEP_LIMIT { "BAD" } else { "ok" };
    let site = BIG_SITE.lock().unwrap().1.clone();
    let at = PANIC_AT.lock().unwrap().clone();
    println!(
        "TOT_RESULT verdict={verdict} max_alloc={} MiB alloc_site=[{site}] panic={:?} panic_at=[{at}]",
        o.max_alloc >> 20,
        o.panic
    );
}

/// Replace each u32 of the MPQ header by hostile values, exercise the public read API
/// (open, list, list_all, read_file, get_info, verify_signature).
#[test]
fn header_sweep() {
    let d = tempfile::tempdir().unwrap();
    let mut bad = Vec::new();
    for (vi, v) in VERSIONS.into_iter().enumerate() {
        let p = build(d.path(), &format!("hs{vi}"), v, vec![0x41; 5000], wow_mpq::compression::flags::ZLIB, 3);
        let pristine = std::fs::read(&p).unwrap();
        let hsize = u32::from_le_bytes(pristine[4..8].try_into().unwrap()) as usize;
        for off in (4..hsize.min(0x70)).step_by(4) {
            for val in HOSTILE {
                if let Some(r) = run_child(&format!("hdr:{vi}:{off}:{val}")) {
                    bad.push(format!("{v:?} hdr+{off:#04x}={val:#010x}: {r}"));
                }
            }
        }
    }
    for l in &bad {
        eprintln!("{l}");
    }
    assert!(bad.is_empty(), "{} hostile header mutations", bad.len());
}

/// Replace each u32 of a.txt's block table entry by hostile values, for several flag combinations.
#[test]
fn block_entry_sweep() {
    let mut bad = Vec::new();
    let flag_sets = [
        0,
        FLAG_EXISTS,
        FLAG_EXISTS | FLAG_COMPRESS,
        FLAG_EXISTS | FLAG_COMPRESS | FLAG_SINGLE_UNIT,
        FLAG_EXISTS | FLAG_COMPRESS | FLAG_SINGLE_UNIT | FLAG_SECTOR_CRC,
        FLAG_EXISTS | FLAG_COMPRESS | FLAG_SECTOR_CRC,
        FLAG_EXISTS | 0x0001_0000,
        FLAG_EXISTS | 0x0003_0000 | FLAG_COMPRESS,
    ];
    for flags in flag_sets {
        for field in 0..3 {
            for val in HOSTILE {
                if let Some(r) = run_child(&format!("blk:{field}:{val}:{flags}")) {
                    bad.push(format!("block[{field}]={val:#010x} flags={flags:#010x}: {r}"));
                }
            }
        }
    }
    for l in &bad {
        eprintln!("{l}");
    }
    assert!(bad.is_empty(), "{} hostile block entry mutations", bad.len());
}
