//! Totality probes for wow-m2: hostile M2 / SKIN / ANIM inputs.
//!
//! Every test feeds a tiny crafted byte string to a public parse entry point
//! and asserts that the call (a) does not panic and (b) never requests a single
//! allocation larger than `ALLOC_LIMIT` (64 MiB) - the inputs are < 1 KiB.
//!
//! Tests touching the allocator high-water mark are serialised through `LOCK`.

use std::alloc::{GlobalAlloc, Layout, System};
use std::io::Cursor;
use std::panic::{AssertUnwindSafe, catch_unwind};
use std::sync::Mutex;
use std::sync::atomic::{AtomicUsize, Ordering};

const ALLOC_LIMIT: usize = 64 << 20;
/// Threshold used by the header sweeps (inputs are <= 512 bytes).
const SWEEP_LIMIT: usize = 1 << 20;
/// Requests above this are refused (null => the Rust runtime aborts the process).
const ALLOC_REFUSE: usize = 8 << 30;

struct Recording;
static MAX_REQ: AtomicUsize = AtomicUsize::new(0);

unsafe impl GlobalAlloc for Recording {
    unsafe fn alloc(&self, l: Layout) -> *mut u8 {
        MAX_REQ.fetch_max(l.size(), Ordering::Relaxed);
        if l.size() > ALLOC_REFUSE {
            return std::ptr::null_mut();
        }
        unsafe { System.alloc(l) }
    }
    unsafe fn alloc_zeroed(&self, l: Layout) -> *mut u8 {
        MAX_REQ.fetch_max(l.size(), Ordering::Relaxed);
        if l.size() > ALLOC_REFUSE {
            return std::ptr::null_mut();
        }
        unsafe { System.alloc_zeroed(l) }
    }
    unsafe fn realloc(&self, p: *mut u8, l: Layout, n: usize) -> *mut u8 {
        MAX_REQ.fetch_max(n, Ordering::Relaxed);
        if n > ALLOC_REFUSE {
            return std::ptr::null_mut();
        }
        unsafe { System.realloc(p, l, n) }
    }
    unsafe fn dealloc(&self, p: *mut u8, l: Layout) {
        unsafe { System.dealloc(p, l) }
    }
}

#[global_allocator]
static GLOBAL: Recording = Recording;

static LOCK: Mutex<()> = Mutex::new(());

/// Outcome of one probe.
#[derive(Debug)]
struct Outcome {
    panic: Option<String>,
    max_alloc: usize,
    returned: &'static str,
}

fn probe<T, E>(f: impl FnOnce() -> Result<T, E>) -> Outcome {
    let _g = LOCK.lock().unwrap_or_else(|e| e.into_inner());
    MAX_REQ.store(0, Ordering::Relaxed);
    let r = catch_unwind(AssertUnwindSafe(|| f().map(|_| ()).map_err(|_| ())));
    let max_alloc = MAX_REQ.load(Ordering::Relaxed);
    match r {
        Ok(Ok(())) => Outcome { panic: None, max_alloc, returned: "Ok" },
        Ok(Err(())) => Outcome { panic: None, max_alloc, returned: "Err" },
        Err(p) => {
            let msg = p
                .downcast_ref::<String>()
                .cloned()
                .or_else(|| p.downcast_ref::<&str>().map(|s| s.to_string()))
                .unwrap_or_else(|| "<non-string panic>".into());
            Outcome { panic: Some(msg), max_alloc, returned: "panic" }
        }
    }
}

fn check(name: &str, o: Outcome) {
    eprintln!("{name}: {o:?}");
    assert!(o.panic.is_none(), "{name}: panicked: {:?}", o.panic);
    assert!(
        o.max_alloc <= ALLOC_LIMIT,
        "{name}: single allocation request of {} bytes ({} MiB) from a tiny input (returned {})",
        o.max_alloc,
        o.max_alloc >> 20,
        o.returned
    );
}

fn put_u32(buf: &mut [u8], off: usize, v: u32) {
    buf[off..off + 4].copy_from_slice(&v.to_le_bytes());
}

/// Minimal valid WotLK (version 264) MD20 file: header only, all arrays empty.
fn minimal_m2(version: u32) -> Vec<u8> {
    let mut b = vec![0u8; 0x200];
    b[0..4].copy_from_slice(b"MD20");
    put_u32(&mut b, 4, version);
    b
}

#[test]
fn baseline_minimal_m2_parses() {
    for v in [256u32, 260, 264, 272] {
        let b = minimal_m2(v);
        let o = probe(|| wow_m2::parse_m2(&mut Cursor::new(&b)));
        assert_eq!(o.returned, "Ok", "version {v}: {o:?}");
        assert!(o.max_alloc < (1 << 20));
    }
}

// ---- M2: read_array (common.rs:177) ---------------------------------------

/// name.count (header offset 0x08) = 0x0400_0000 -> Vec::<u8>::with_capacity(64Mi) ... fine,
/// use 0x1000_0000 (256 Mi) to cross the limit.
#[test]
fn m2_name_count_huge() {
    let mut b = minimal_m2(264);
    put_u32(&mut b, 0x08, 0x1000_0000); // name.count
    put_u32(&mut b, 0x0C, 0x0000_0100); // name.offset (inside the file)
    check("m2_name_count_huge", probe(|| wow_m2::parse_m2(&mut Cursor::new(&b))));
}

/// global_sequences.count (header offset 0x14) = 0x0400_0000 -> Vec::<u32>::with_capacity => 256 MiB.
#[test]
fn m2_global_sequences_count_huge() {
    let mut b = minimal_m2(264);
    put_u32(&mut b, 0x14, 0x0400_0000);
    put_u32(&mut b, 0x18, 0x0000_0100);
    check(
        "m2_global_sequences_count_huge",
        probe(|| wow_m2::parse_m2(&mut Cursor::new(&b))),
    );
}

/// Same via `M2Model::parse` directly.
#[test]
fn m2model_parse_global_sequences_count_huge() {
    let mut b = minimal_m2(264);
    put_u32(&mut b, 0x14, 0x0400_0000);
    put_u32(&mut b, 0x18, 0x0000_0100);
    check(
        "m2model_parse_global_sequences_count_huge",
        probe(|| wow_m2::M2Model::parse(&mut Cursor::new(&b))),
    );
}

/// bounding_vertices go through read_raw_bytes (common.rs:202): vec![0u8; count * 12].
/// Header (v264) offset of bounding_vertices M2Array is 0xE0.
#[test]
fn m2_bounding_vertices_count_huge_read_raw_bytes() {
    let mut b = minimal_m2(264);
    put_u32(&mut b, 0xE0, 0x0100_0000); // 16Mi * 12 = 192 MiB zeroed
    put_u32(&mut b, 0xE4, 0x0000_0100);
    check(
        "m2_bounding_vertices_count_huge_read_raw_bytes",
        probe(|| wow_m2::parse_m2(&mut Cursor::new(&b))),
    );
}

/// Sweep: every u32 of the 0x130-byte header set to 0x0020_0000 (2 Mi), one at a time.
/// Lists every header field that yields a panic or a single allocation request >= 1 MiB
/// (the input is 512 bytes).
#[test]
fn m2_header_sweep() {
    let mut bad = Vec::new();
    for version in [256u32, 264] {
        for off in (8..0x130).step_by(4) {
            let mut b = minimal_m2(version);
            put_u32(&mut b, off, 0x0020_0000);
            // If this is a count field the following u32 is its offset: point inside the file.
            put_u32(&mut b, off + 4, 0x0000_0100);
            let o = probe(|| wow_m2::parse_m2(&mut Cursor::new(&b)));
            if o.panic.is_some() || o.max_alloc >= SWEEP_LIMIT {
                bad.push(format!(
                    "v{version} hdr+{off:#05x}=0x00200000: returned={} max_alloc={} MiB panic={:?}",
                    o.returned,
                    o.max_alloc >> 20,
                    o.panic
                ));
            }
        }
    }
    for l in &bad {
        eprintln!("{l}");
    }
    assert!(bad.is_empty(), "{} hostile header fields", bad.len());
}

/// MD21 chunked container: SFID chunk with size 0x4000_0000 -> Vec::<u32>::with_capacity(size/4) = 1 GiB.
#[test]
fn m2_chunked_sfid_size_huge() {
    let mut b = Vec::new();
    b.extend_from_slice(b"MD21");
    b.extend_from_slice(&0x200u32.to_le_bytes());
    b.extend_from_slice(&minimal_m2(272));
    b.extend_from_slice(b"SFID");
    b.extend_from_slice(&0x4000_0000u32.to_le_bytes());
    b.extend_from_slice(&[0u8; 8]);
    check(
        "m2_chunked_sfid_size_huge",
        probe(|| wow_m2::parse_m2(&mut Cursor::new(&b))),
    );
}

/// MD21 chunked container: EXPT chunk with size 0x4000_0000 -> vec![0u8; size] = 1 GiB zeroed.
#[test]
fn m2_chunked_expt_size_huge() {
    let mut b = Vec::new();
    b.extend_from_slice(b"MD21");
    b.extend_from_slice(&0x200u32.to_le_bytes());
    b.extend_from_slice(&minimal_m2(272));
    b.extend_from_slice(b"EXPT");
    b.extend_from_slice(&0x4000_0000u32.to_le_bytes());
    b.extend_from_slice(&[0u8; 8]);
    check(
        "m2_chunked_expt_size_huge",
        probe(|| wow_m2::parse_m2(&mut Cursor::new(&b))),
    );
}

// ---- SKIN ------------------------------------------------------------------

fn minimal_skin_new() -> Vec<u8> {
    // "SKIN" + 5 M2Arrays + bone_count_max (+ padding). second u32 (indices.count)=0 => "new" format
    let mut b = vec![0u8; 0x80];
    b[0..4].copy_from_slice(b"SKIN");
    b
}

#[test]
fn baseline_minimal_skin_parses() {
    let b = minimal_skin_new();
    let o = probe(|| wow_m2::SkinFile::parse(&mut Cursor::new(&b)));
    eprintln!("baseline skin: {o:?}");
    assert!(o.panic.is_none());
}

/// Sweep the SKIN header.
#[test]
fn skin_header_sweep() {
    let mut bad = Vec::new();
    for off in (4..0x34).step_by(4) {
        let mut b = minimal_skin_new();
        put_u32(&mut b, off, 0x0020_0000);
        let o = probe(|| wow_m2::SkinFile::parse(&mut Cursor::new(&b)));
        if o.panic.is_some() || o.max_alloc >= SWEEP_LIMIT {
            bad.push(format!(
                "skin hdr+{off:#04x}=0x00200000: returned={} max_alloc={} MiB panic={:?}",
                o.returned,
                o.max_alloc >> 20,
                o.panic
            ));
        }
    }
    for l in &bad {
        eprintln!("{l}");
    }
    assert!(bad.is_empty(), "{} hostile skin header fields", bad.len());
}

/// Also through the free function `parse_skin`.
#[test]
fn parse_skin_triangles_count_huge() {
    let mut b = minimal_skin_new();
    put_u32(&mut b, 0x14, 0x0800_0000); // a count field of the new-format header (see skin_header_sweep)
    check(
        "parse_skin_triangles_count_huge",
        probe(|| wow_m2::parse_skin(&mut Cursor::new(&b))),
    );
}

// ---- ANIM ------------------------------------------------------------------

fn modern_anim(id_count: u32, entry_size: u32) -> Vec<u8> {
    let mut b = Vec::new();
    b.extend_from_slice(b"MAOF");
    b.extend_from_slice(&1u32.to_le_bytes()); // version
    b.extend_from_slice(&id_count.to_le_bytes());
    b.extend_from_slice(&0u32.to_le_bytes()); // unknown
    b.extend_from_slice(&20u32.to_le_bytes()); // anim_entry_offset
    // one entry: id, offset, size
    b.extend_from_slice(&1u32.to_le_bytes());
    b.extend_from_slice(&32u32.to_le_bytes());
    b.extend_from_slice(&entry_size.to_le_bytes());
    // section header at 32
    b.extend_from_slice(b"AFID");
    b.extend_from_slice(&1u32.to_le_bytes());
    b.extend_from_slice(&0u32.to_le_bytes());
    b.extend_from_slice(&0u32.to_le_bytes());
    b.extend_from_slice(&[0u8; 16]);
    b
}

#[test]
fn baseline_anim_parses() {
    let b = modern_anim(1, 16);
    let o = probe(|| wow_m2::AnimFile::parse(&mut Cursor::new(&b)));
    assert_eq!(o.returned, "Ok", "{o:?}");
}

/// id_count = 0x0800_0000 -> Vec::<AnimEntry>::with_capacity => 12 * 128Mi = 1.5 GiB
#[test]
fn anim_id_count_huge() {
    let b = modern_anim(0x0800_0000, 16);
    check(
        "anim_id_count_huge",
        probe(|| wow_m2::AnimFile::parse(&mut Cursor::new(&b))),
    );
}

/// entry.size = 4 (< 16) -> `size - header_size` underflows in AnimSection::parse (anim.rs:293).
#[test]
fn anim_entry_size_underflow() {
    let b = modern_anim(1, 4);
    check(
        "anim_entry_size_underflow",
        probe(|| wow_m2::AnimFile::parse(&mut Cursor::new(&b))),
    );
}

/// entry.size = 0x4000_0010 -> bone_count = 0x1000_0000 -> Vec::<u32>::with_capacity => 1 GiB
#[test]
fn anim_entry_size_huge() {
    let b = modern_anim(1, 0x4000_0010);
    check(
        "anim_entry_size_huge",
        probe(|| wow_m2::AnimFile::parse(&mut Cursor::new(&b))),
    );
}

// ---- abort demonstrations (run manually with --ignored; these kill the test process) ----

/// animations.count = 0xFFFF_FFFF -> Vec::<M2Animation>::with_capacity(4Gi) => hundreds of GiB:
/// refused by the allocator => `memory allocation of N bytes failed` + SIGABRT (not catchable).
#[test]
#[ignore]
fn abort_demo_m2_animations_count_ffffffff() {
    let mut b = minimal_m2(264);
    put_u32(&mut b, 0x1C, 0xFFFF_FFFF);
    put_u32(&mut b, 0x20, 0x0000_0100);
    let _ = wow_m2::parse_m2(&mut Cursor::new(&b));
}
