//! `MutableArchive` must keep the `(attributes)` special file consistent.
//!
//! After add/replace + flush, every file of the (intact) archive must verify
//! against the checksums stored in `(attributes)`: the entries of untouched
//! files keep their values, the entries of added/replaced files are computed
//! from the new content, and the set of stored attributes (CRC32/MD5) is kept.

use md5::{Digest, Md5};
use tempfile::TempDir;
use wow_mpq::{
    AddFileOptions, Archive, ArchiveBuilder, AttributesOption, FormatVersion, MutableArchive,
    compression::CompressionMethod,
};

const KEPT: &[u8] = b"this file is never touched by the modification session";
const REPLACED_OLD: &[u8] = b"old content old content old content old content old content";

fn md5_of(data: &[u8]) -> [u8; 16] {
    let mut hasher = Md5::new();
    hasher.update(data);
    hasher.finalize().into()
}

fn build_source(path: &std::path::Path, version: FormatVersion, option: AttributesOption) {
    ArchiveBuilder::new()
        .version(version)
        .attributes_option(option)
        .add_file_data(KEPT.to_vec(), "data\\kept.txt")
        .add_file_data(REPLACED_OLD.to_vec(), "data\\replaced.txt")
        .add_file_data(vec![0x41; 3000], "data\\kept_big.bin")
        .build(path)
        .unwrap();
}

/// Verify every named file against `(attributes)` the way `SFileVerifyFile` does.
/// Returns the list of mismatches.
fn verify_against_attributes(
    path: &std::path::Path,
    names: &[&str],
    expect_md5: bool,
) -> Vec<String> {
    let mut archive = Archive::open(path).unwrap();
    archive.load_attributes().unwrap();

    let flags = archive.attributes().expect("(attributes) must load").flags;
    let mut problems = Vec::new();
    if !flags.has_crc32() {
        problems.push("CRC32 attribute was dropped".to_string());
    }
    if expect_md5 && !flags.has_md5() {
        problems.push("MD5 attribute was dropped".to_string());
    }

    for name in names {
        let info = archive
            .find_file(name)
            .unwrap()
            .unwrap_or_else(|| panic!("{name} not found"));
        let data = archive.read_file(name).unwrap();
        let attrs = archive
            .get_file_attributes(info.block_index)
            .unwrap_or_else(|| panic!("no attributes entry for {name}"))
            .clone();

        let actual_crc = crc32fast::hash(&data);
        if attrs.crc32 != Some(actual_crc) {
            problems.push(format!(
                "{name}: stored CRC32 {:08X?}, actual {actual_crc:08X}",
                attrs.crc32
            ));
        }
        if expect_md5 {
            let actual_md5 = md5_of(&data);
            if attrs.md5 != Some(actual_md5) {
                problems.push(format!(
                    "{name}: stored MD5 {:02X?}, actual {actual_md5:02X?}",
                    attrs.md5
                ));
            }
        }
    }
    problems
}

fn check(version: FormatVersion, option: AttributesOption, expect_md5: bool) {
    let dir = TempDir::new().unwrap();
    let path = dir.path().join("archive.mpq");
    build_source(&path, version, option);

    // The freshly built archive verifies: the test's verification is sound
    let original = [
        "data\\kept.txt",
        "data\\replaced.txt",
        "data\\kept_big.bin",
        "(listfile)",
    ];
    assert_eq!(
        verify_against_attributes(&path, &original, expect_md5),
        Vec::<String>::new(),
        "freshly built archive must verify"
    );

    // Library modification: add one compressible file (default options: zlib),
    // add one stored file, replace one existing file
    let added_zlib = vec![0x42u8; 5000];
    let added_stored: &[u8] = b"new stored file";
    let replaced_new = vec![0x43u8; 4000];
    {
        let mut mutable = MutableArchive::open(&path).unwrap();
        mutable
            .add_file_data(
                &added_zlib,
                "data\\added_zlib.bin",
                AddFileOptions::default(),
            )
            .unwrap();
        mutable
            .add_file_data(
                added_stored,
                "data\\added_stored.txt",
                AddFileOptions::new().compression(CompressionMethod::None),
            )
            .unwrap();
        mutable
            .add_file_data(
                &replaced_new,
                "data\\replaced.txt",
                AddFileOptions::default(),
            )
            .unwrap();
        mutable.flush().unwrap();
    }

    // The archive is intact: every file reads back with the expected content
    {
        let mut archive = Archive::open(&path).unwrap();
        assert_eq!(archive.read_file("data\\kept.txt").unwrap(), KEPT);
        assert_eq!(
            archive.read_file("data\\kept_big.bin").unwrap(),
            vec![0x41; 3000]
        );
        assert_eq!(
            archive.read_file("data\\replaced.txt").unwrap(),
            replaced_new
        );
        assert_eq!(
            archive.read_file("data\\added_zlib.bin").unwrap(),
            added_zlib
        );
        assert_eq!(
            archive.read_file("data\\added_stored.txt").unwrap(),
            added_stored
        );
    }

    // ... so verification against (attributes) must not report anything
    let all = [
        "data\\kept.txt",
        "data\\kept_big.bin",
        "data\\replaced.txt",
        "data\\added_zlib.bin",
        "data\\added_stored.txt",
        "(listfile)",
    ];
    assert_eq!(
        verify_against_attributes(&path, &all, expect_md5),
        Vec::<String>::new(),
        "intact archive modified through MutableArchive must verify against (attributes)"
    );
}

#[test]
fn attributes_crc32_after_modification_v1() {
    check(FormatVersion::V1, AttributesOption::GenerateCrc32, false);
}

#[test]
fn attributes_full_after_modification_v1() {
    check(FormatVersion::V1, AttributesOption::GenerateFull, true);
}

#[test]
fn attributes_full_after_modification_v2() {
    check(FormatVersion::V2, AttributesOption::GenerateFull, true);
}

/// Two flushes in one session: the second one starts from the `(attributes)`
/// written by the first.
#[test]
fn attributes_full_after_two_flushes_v1() {
    let dir = TempDir::new().unwrap();
    let path = dir.path().join("archive.mpq");
    build_source(&path, FormatVersion::V1, AttributesOption::GenerateFull);

    let first = vec![0x44u8; 2000];
    let second = vec![0x45u8; 2500];
    {
        let mut mutable = MutableArchive::open(&path).unwrap();
        mutable
            .add_file_data(&first, "data\\first.bin", AddFileOptions::default())
            .unwrap();
        mutable.flush().unwrap();
        mutable
            .add_file_data(&second, "data\\second.bin", AddFileOptions::default())
            .unwrap();
        mutable.flush().unwrap();
    }

    let all = [
        "data\\kept.txt",
        "data\\replaced.txt",
        "data\\kept_big.bin",
        "data\\first.bin",
        "data\\second.bin",
        "(listfile)",
    ];
    assert_eq!(
        verify_against_attributes(&path, &all, true),
        Vec::<String>::new()
    );
}
