//! Rebuilding an archive that contains a zero-length file.
//!
//! An empty file is an ordinary listed file: the rebuild copies it, and the
//! summary counts stay consistent (source = listed, extracted = copied,
//! skipped = source - extracted, never negative).

use tempfile::TempDir;
use wow_mpq::{Archive, ArchiveBuilder, FormatVersion, RebuildOptions, rebuild_archive};

fn build_source(dir: &TempDir, version: FormatVersion, name: &str) -> std::path::PathBuf {
    let path = dir.path().join(name);
    ArchiveBuilder::new()
        .version(version)
        .add_file_data(b"first file".to_vec(), "data\\first.txt")
        .add_file_data(Vec::new(), "data\\empty.txt")
        .add_file_data(b"third file, a little longer".to_vec(), "data\\third.txt")
        .build(&path)
        .unwrap();
    path
}

fn check_rebuild(version: FormatVersion, list_only: bool) {
    let dir = TempDir::new().unwrap();
    let source = build_source(&dir, version, "source.mpq");
    let target = dir.path().join("target.mpq");

    // What the source archive lists (this is what the rebuild iterates over)
    let listed = Archive::open(&source).unwrap().list().unwrap();
    assert!(
        listed
            .iter()
            .any(|f| f.name == "data\\empty.txt" && f.size == 0),
        "the empty file must be an ordinary listed file"
    );

    let options = RebuildOptions {
        list_only,
        verify: !list_only,
        ..RebuildOptions::default()
    };
    let summary = rebuild_archive(&source, &target, options, None).unwrap();

    assert_eq!(summary.source_files, listed.len(), "source = listed");
    assert_eq!(summary.extracted_files, listed.len(), "extracted = copied");
    assert_eq!(summary.skipped_files, 0, "nothing was skipped");
    assert_eq!(
        summary.source_files,
        summary.extracted_files + summary.skipped_files
    );

    if !list_only {
        let mut rebuilt = Archive::open(&target).unwrap();
        assert_eq!(rebuilt.read_file("data\\first.txt").unwrap(), b"first file");
        assert_eq!(rebuilt.read_file("data\\empty.txt").unwrap(), b"");
        assert_eq!(
            rebuilt.read_file("data\\third.txt").unwrap(),
            b"third file, a little longer"
        );
    }
}

#[test]
fn rebuild_v1_with_empty_file() {
    check_rebuild(FormatVersion::V1, false);
}

#[test]
fn rebuild_v2_with_empty_file() {
    check_rebuild(FormatVersion::V2, false);
}

#[test]
fn rebuild_v1_with_empty_file_list_only() {
    check_rebuild(FormatVersion::V1, true);
}

#[test]
fn rebuild_v3_with_empty_file() {
    check_rebuild(FormatVersion::V3, false);
}

#[test]
fn rebuild_v4_with_empty_file() {
    check_rebuild(FormatVersion::V4, false);
}

/// A source without any empty file: the counts must be consistent here too.
#[test]
fn rebuild_v1_without_empty_file_counts() {
    let dir = TempDir::new().unwrap();
    let source = dir.path().join("source.mpq");
    ArchiveBuilder::new()
        .version(FormatVersion::V1)
        .add_file_data(b"a".to_vec(), "a.txt")
        .add_file_data(b"b".to_vec(), "b.txt")
        .build(&source)
        .unwrap();
    let target = dir.path().join("target.mpq");

    let listed = Archive::open(&source).unwrap().list().unwrap();
    let summary = rebuild_archive(&source, &target, RebuildOptions::default(), None).unwrap();

    assert_eq!(summary.source_files, listed.len());
    assert_eq!(summary.extracted_files, listed.len());
    assert_eq!(summary.skipped_files, 0);
}
