//! Regression tests for CLI defects in `warcraft-rs mpq`:
//!
//! 1. `mpq validate` must exit non-zero when files in the archive cannot be read.
//! 3. `mpq extract --preserve-paths` must never write outside the output directory,
//!    neither in the plain branch nor in the `--patch` (patch chain) branch.

use std::fs;
use std::path::{Path, PathBuf};
use std::process::{Command, Output};
use tempfile::TempDir;
use wow_mpq::{Archive, ArchiveBuilder, FormatVersion, ListfileOption, compression};

fn cli() -> Command {
    let mut cmd = Command::new(env!("CARGO_BIN_EXE_warcraft-rs"));
    cmd.env("RUST_LOG", "warn");
    cmd
}

fn dump(output: &Output) -> String {
    format!(
        "status: {:?}\n--- stdout ---\n{}\n--- stderr ---\n{}",
        output.status.code(),
        String::from_utf8_lossy(&output.stdout),
        String::from_utf8_lossy(&output.stderr)
    )
}

/// Every regular file below `root`, recursively.
fn files_under(root: &Path) -> Vec<PathBuf> {
    let mut found = Vec::new();
    let mut stack = vec![root.to_path_buf()];
    while let Some(dir) = stack.pop() {
        for entry in fs::read_dir(&dir).unwrap() {
            let path = entry.unwrap().path();
            if path.is_dir() {
                stack.push(path);
            } else {
                found.push(path);
            }
        }
    }
    found.sort();
    found
}

// ---------------------------------------------------------------------------
// Defect 1: `mpq validate` exit status
// ---------------------------------------------------------------------------

/// Sector size selected with `block_size(3)`: `512 << 3`.
const SECTOR_SIZE: usize = 4096;

/// Build an archive with two zlib-compressed multi-sector files and then
/// damage the sector offset table of one of them: its last entry is made to
/// point far behind the end of the archive, as happens with truncated or
/// otherwise damaged archives. Reading that file then fails with an I/O error.
///
/// (Merely overwriting the compressed sector *data* is not enough to make
/// `Archive::read_file` fail: sectors that fail to decompress are silently
/// replaced by zeros and sector CRC validation is disabled.)
fn build_corrupted_archive(dir: &Path) -> PathBuf {
    let archive_path = dir.join("corrupt.mpq");
    let payload: Vec<u8> = (0..20_000u32)
        .flat_map(|i| format!("line {i} of some nicely compressible text\n").into_bytes())
        .collect();

    ArchiveBuilder::new()
        .version(FormatVersion::V1)
        .block_size(3)
        .listfile_option(ListfileOption::Generate)
        .default_compression(compression::flags::ZLIB)
        .add_file_data(payload.clone(), "data\\good.txt")
        .add_file_data(payload, "data\\broken.txt")
        .build(&archive_path)
        .expect("build archive");

    let info = Archive::open(&archive_path)
        .expect("open archive")
        .find_file("data\\broken.txt")
        .expect("find_file")
        .expect("broken.txt is in the archive");
    assert!(info.is_compressed(), "test setup: file must be compressed");
    assert!(
        !info.is_encrypted(),
        "test setup: file must not be encrypted"
    );

    let mut bytes = fs::read(&archive_path).unwrap();
    let sector_count = (info.file_size as usize).div_ceil(SECTOR_SIZE);
    let last_offset_entry = info.file_pos as usize + 4 * sector_count;
    let bogus_end = bytes.len() as u32 + 0x10_0000;
    bytes[last_offset_entry..last_offset_entry + 4].copy_from_slice(&bogus_end.to_le_bytes());
    fs::write(&archive_path, bytes).unwrap();

    // Sanity check through the library: the file really is unreadable now,
    // while the other one is still fine.
    let mut archive = Archive::open(&archive_path).expect("re-open corrupted archive");
    assert!(archive.read_file("data\\good.txt").is_ok());
    assert!(
        archive.read_file("data\\broken.txt").is_err(),
        "test setup: corrupted file must fail to read"
    );

    archive_path
}

#[test]
fn validate_passes_on_intact_archive() {
    let tmp = TempDir::new().unwrap();
    let archive_path = tmp.path().join("ok.mpq");
    ArchiveBuilder::new()
        .listfile_option(ListfileOption::Generate)
        .add_file_data(b"hello".to_vec(), "data\\a.txt")
        .build(&archive_path)
        .unwrap();

    let output = cli()
        .args(["mpq", "validate", archive_path.to_str().unwrap()])
        .output()
        .unwrap();
    assert!(output.status.success(), "{}", dump(&output));
}

#[test]
fn validate_exits_nonzero_when_files_fail_to_read() {
    let tmp = TempDir::new().unwrap();
    let archive_path = build_corrupted_archive(tmp.path());

    let output = cli()
        .args(["mpq", "validate", archive_path.to_str().unwrap()])
        .output()
        .unwrap();
    let text = dump(&output);
    println!("{text}");

    assert!(
        String::from_utf8_lossy(&output.stdout).contains("validation failed"),
        "test setup: the CLI should have detected the unreadable file\n{text}"
    );
    assert!(
        !output.status.success(),
        "`mpq validate` reported a failed validation but exited with success\n{text}"
    );
}

// ---------------------------------------------------------------------------
// Defect 3: path traversal on `mpq extract --preserve-paths`
// ---------------------------------------------------------------------------

struct Sandbox {
    tmp: TempDir,
    /// `<tmp>/work/out`, the directory handed to `--output`
    out: PathBuf,
}

impl Sandbox {
    fn new() -> Self {
        let tmp = TempDir::new().unwrap();
        let out = tmp.path().join("work").join("out");
        fs::create_dir_all(&out).unwrap();
        Self { tmp, out }
    }

    fn root(&self) -> &Path {
        self.tmp.path()
    }

    /// Files that exist in the sandbox but are neither archives we created
    /// ourselves nor located below the output directory.
    fn escaped_files(&self) -> Vec<PathBuf> {
        files_under(self.root())
            .into_iter()
            .filter(|p| !p.starts_with(&self.out))
            .filter(|p| p.extension().and_then(|e| e.to_str()) != Some("mpq"))
            .collect()
    }
}

fn build_archive(path: &Path, entries: &[(&str, &[u8])]) {
    let mut builder = ArchiveBuilder::new()
        .version(FormatVersion::V1)
        .listfile_option(ListfileOption::Generate);
    for (name, data) in entries {
        builder = builder.add_file_data(data.to_vec(), name);
    }
    builder.build(path).expect("build archive");
}

fn assert_contained(sandbox: &Sandbox, output: &Output) {
    let text = dump(output);
    println!("{text}");
    let escaped = sandbox.escaped_files();
    assert!(
        escaped.is_empty(),
        "extraction wrote outside of the output directory {}:\n{:#?}\n{text}",
        sandbox.out.display(),
        escaped
    );
}

#[test]
fn extract_preserve_paths_rejects_parent_dir_components() {
    let sandbox = Sandbox::new();
    let archive_path = sandbox.root().join("traversal.mpq");
    build_archive(
        &archive_path,
        &[
            ("dir\\good.txt", b"good"),
            ("..\\..\\evil_parent.txt", b"escaped via ..\\"),
        ],
    );

    let output = cli()
        .args([
            "mpq",
            "extract",
            archive_path.to_str().unwrap(),
            "--output",
            sandbox.out.to_str().unwrap(),
            "--preserve-paths",
            "--skip-errors",
        ])
        .output()
        .unwrap();

    assert_contained(&sandbox, &output);
}

/// Without `--skip-errors` a rejected entry must make the command fail.
#[test]
fn extract_preserve_paths_traversal_is_an_error_without_skip_errors() {
    let sandbox = Sandbox::new();
    let archive_path = sandbox.root().join("traversal.mpq");
    build_archive(
        &archive_path,
        &[
            ("dir\\good.txt", b"good"),
            ("..\\..\\evil_parent.txt", b"escaped via ..\\"),
        ],
    );

    let output = cli()
        .args([
            "mpq",
            "extract",
            archive_path.to_str().unwrap(),
            "--output",
            sandbox.out.to_str().unwrap(),
            "--preserve-paths",
        ])
        .output()
        .unwrap();

    assert_contained(&sandbox, &output);
    assert!(!output.status.success(), "{}", dump(&output));
}

#[test]
fn extract_preserve_paths_rejects_absolute_names() {
    let sandbox = Sandbox::new();
    let archive_path = sandbox.root().join("absolute.mpq");
    // An absolute name that points into the sandbox (but not into `out`), so a
    // vulnerable binary does not litter the real file system.
    let absolute_target = sandbox.root().join("evil_absolute.txt");
    let absolute_name = absolute_target.to_str().unwrap().replace('/', "\\");
    build_archive(
        &archive_path,
        &[
            ("dir\\good.txt", b"good"),
            (absolute_name.as_str(), b"escaped via absolute path"),
        ],
    );

    let output = cli()
        .args([
            "mpq",
            "extract",
            archive_path.to_str().unwrap(),
            "--output",
            sandbox.out.to_str().unwrap(),
            "--preserve-paths",
            "--skip-errors",
        ])
        .output()
        .unwrap();

    assert_contained(&sandbox, &output);
}

#[test]
fn extract_preserve_paths_with_patch_chain_rejects_traversal() {
    let sandbox = Sandbox::new();
    let base_path = sandbox.root().join("base.mpq");
    let patch_path = sandbox.root().join("patch.mpq");
    build_archive(&base_path, &[("dir\\good.txt", b"good")]);
    build_archive(
        &patch_path,
        &[
            ("dir\\good.txt", b"patched"),
            ("..\\..\\evil_patch.txt", b"escaped via patch chain"),
        ],
    );

    let output = cli()
        .args([
            "mpq",
            "extract",
            base_path.to_str().unwrap(),
            "--output",
            sandbox.out.to_str().unwrap(),
            "--preserve-paths",
            "--skip-errors",
            "--patch",
            patch_path.to_str().unwrap(),
        ])
        .output()
        .unwrap();

    assert_contained(&sandbox, &output);
}

/// Well-behaved archives must keep working: nested names are still extracted
/// below the output directory with their structure intact.
#[test]
fn extract_preserve_paths_still_extracts_regular_nested_files() {
    let sandbox = Sandbox::new();
    let base_path = sandbox.root().join("base.mpq");
    let patch_path = sandbox.root().join("patch.mpq");
    build_archive(&base_path, &[("dir\\sub\\a.txt", b"a"), ("b.txt", b"b")]);
    build_archive(&patch_path, &[("dir\\sub\\a.txt", b"patched")]);

    // plain branch
    let output = cli()
        .args([
            "mpq",
            "extract",
            base_path.to_str().unwrap(),
            "--output",
            sandbox.out.to_str().unwrap(),
            "--preserve-paths",
        ])
        .output()
        .unwrap();
    assert!(output.status.success(), "{}", dump(&output));
    assert_eq!(fs::read(sandbox.out.join("dir/sub/a.txt")).unwrap(), b"a");
    assert_eq!(fs::read(sandbox.out.join("b.txt")).unwrap(), b"b");

    // patch chain branch
    let output = cli()
        .args([
            "mpq",
            "extract",
            base_path.to_str().unwrap(),
            "--output",
            sandbox.out.to_str().unwrap(),
            "--preserve-paths",
            "--patch",
            patch_path.to_str().unwrap(),
        ])
        .output()
        .unwrap();
    assert!(output.status.success(), "{}", dump(&output));
    assert_eq!(
        fs::read(sandbox.out.join("dir/sub/a.txt")).unwrap(),
        b"patched"
    );
    assert!(sandbox.escaped_files().is_empty());
}
