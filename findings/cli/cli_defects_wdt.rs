//! Regression test for the exit status of `warcraft-rs wdt validate`.
//!
//! Expected behaviour: whenever the command reports "N error(s) found" the
//! process must exit with a non-zero status.
//!
//! The test feeds the CLI every kind of finding `WdtFile::validate()` can
//! produce for a file that `WdtReader` accepts, plus a file with a wrong MVER
//! version.

use std::fs::File;
use std::io::BufWriter;
use std::path::Path;
use std::process::{Command, Output};
use tempfile::TempDir;
use wow_wdt::chunks::MphdFlags;
use wow_wdt::version::WowVersion;
use wow_wdt::{WdtFile, WdtWriter};

fn dump(output: &Output) -> String {
    format!(
        "status: {:?}\n--- stdout ---\n{}\n--- stderr ---\n{}",
        output.status.code(),
        String::from_utf8_lossy(&output.stdout),
        String::from_utf8_lossy(&output.stderr)
    )
}

fn write_wdt(path: &Path, wdt: &WdtFile) {
    let file = File::create(path).unwrap();
    WdtWriter::new(BufWriter::new(file)).write(wdt).unwrap();
}

fn validate(path: &Path) -> Output {
    Command::new(env!("CARGO_BIN_EXE_warcraft-rs"))
        .args([
            "wdt",
            "validate",
            path.to_str().unwrap(),
            "--version",
            "WotLK",
            "--warnings",
        ])
        .output()
        .unwrap()
}

#[test]
fn wdt_validate_exits_nonzero_when_errors_are_reported() {
    let tmp = TempDir::new().unwrap();

    let mut cases: Vec<(&str, WdtFile)> = Vec::new();

    // WMO-only map without MWMO and MODF chunks.
    let mut wdt = WdtFile::new(WowVersion::WotLK);
    wdt.mphd.flags |= MphdFlags::WDT_USES_GLOBAL_MAP_OBJ;
    cases.push(("wmo_only_missing_chunks", wdt));

    // Terrain map for WotLK without the expected MWMO chunk.
    cases.push(("terrain_missing_mwmo", WdtFile::new(WowVersion::WotLK)));

    // MAID announced in the header but missing, and not supported by WotLK.
    let mut wdt = WdtFile::new(WowVersion::WotLK);
    wdt.mphd.flags |= MphdFlags::WDT_HAS_MAID;
    cases.push(("maid_flag_without_chunk", wdt));

    // Flags that do not belong to WotLK.
    let mut wdt = WdtFile::new(WowVersion::WotLK);
    wdt.mphd.flags |= MphdFlags::UNK_FIRELANDS | MphdFlags::ADT_HAS_HEIGHT_TEXTURING;
    cases.push(("unexpected_flags", wdt));

    // Wrong MVER version (17 instead of 18).
    let mut wdt = WdtFile::new(WowVersion::WotLK);
    wdt.mver.version = 17;
    cases.push(("bad_mver_version", wdt));

    let mut reported_errors = 0;
    for (name, wdt) in &cases {
        let path = tmp.path().join(format!("{name}.wdt"));
        write_wdt(&path, wdt);
        let output = validate(&path);
        let text = dump(&output);
        println!("===== {name} =====\n{text}");

        let stdout = String::from_utf8_lossy(&output.stdout);
        if stdout.contains("error(s) found") {
            reported_errors += 1;
            assert!(
                !output.status.success(),
                "{name}: `wdt validate` printed errors but exited with success\n{text}"
            );
        }
    }
    println!("cases that reached the \"error(s) found\" branch: {reported_errors}");
}
