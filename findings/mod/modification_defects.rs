//! Reproductions for suspected defects in `MutableArchive` (src/modification.rs).
//!
//! Every test asserts the CORRECT behaviour, so a failing test == a genuine defect.

use std::collections::BTreeMap;
use std::io::{Seek, SeekFrom, Write};
use std::path::{Path, PathBuf};
use std::sync::mpsc;
use std::time::Duration;

use tempfile::TempDir;
use wow_mpq::compression::CompressionMethod;
use wow_mpq::{AddFileOptions, Archive, ArchiveBuilder, FormatVersion, ListfileOption, MutableArchive};

/// Deterministic pseudo-random (incompressible-ish) payload.
fn payload(seed: u32, len: usize) -> Vec<u8> {
    let mut x = seed.wrapping_mul(2654435761).wrapping_add(12345);
    (0..len)
        .map(|_| {
            x ^= x << 13;
            x ^= x >> 17;
            x ^= x << 5;
            (x >> 8) as u8
        })
        .collect()
}

fn stored() -> AddFileOptions {
    AddFileOptions::new().compression(CompressionMethod::None)
}

fn build_once(path: &Path, version: FormatVersion, files: &BTreeMap<String, Vec<u8>>) {
    let mut b = ArchiveBuilder::new().version(version);
    for (n, d) in files {
        b = b.add_file_data(d.clone(), n);
    }
    b.build(path).unwrap();
}

/// Free bytes between the end of the block table and the next 512-byte boundary
/// (that is where `MutableArchive` starts appending file data).
fn gap_after_block_table(path: &Path) -> u64 {
    let a = Archive::open(path).unwrap();
    let h = a.header();
    let end = h.block_table_pos as u64 + h.block_table_size as u64 * 16;
    let end = end.max(h.hash_table_pos as u64 + h.hash_table_size as u64 * 16);
    ((end + 511) & !511) - end
}

/// Build the base archive. If `min_gap > 0` a padding file `zz_pad.bin` is added (and
/// recorded in the model) whose length is tuned so that at least `min_gap` bytes are free
/// after the block table. This keeps the tests for defects 1-3 independent from defect 4
/// (the grown block table overwriting the first appended file).
fn build_base(
    dir: &TempDir,
    version: FormatVersion,
    files: &mut BTreeMap<String, Vec<u8>>,
    min_gap: u64,
) -> PathBuf {
    let path = dir.path().join("base.mpq");
    if min_gap == 0 {
        build_once(&path, version, files);
        return path;
    }
    for pad_len in (16..1200).step_by(16) {
        files.insert("zz_pad.bin".to_string(), payload(99, pad_len));
        build_once(&path, version, files);
        if gap_after_block_table(&path) >= min_gap {
            return path;
        }
    }
    panic!("could not create requested gap");
}

fn count_used_hash_slots(path: &Path) -> (usize, usize) {
    let a = Archive::open(path).unwrap();
    let ht = a.hash_table().expect("classic hash table");
    let used = ht
        .entries()
        .iter()
        .filter(|e| !e.is_empty() && !e.is_deleted())
        .count();
    (used, ht.entries().len())
}

/// Compare archive on disk with the model map. Returns list of discrepancies.
fn diff_against_model(path: &Path, model: &BTreeMap<String, Vec<u8>>) -> Vec<String> {
    let mut problems = Vec::new();
    let mut a = match Archive::open(path) {
        Ok(a) => a,
        Err(e) => return vec![format!("reopen failed: {e}")],
    };
    for (name, want) in model {
        match a.read_file(name) {
            Ok(got) if &got == want => {}
            Ok(got) => problems.push(format!(
                "{name}: content differs (got {} bytes, want {} bytes)",
                got.len(),
                want.len()
            )),
            Err(e) => problems.push(format!("{name}: read error: {e}")),
        }
    }
    match a.list() {
        Ok(list) => {
            let listed: std::collections::BTreeSet<String> = list
                .into_iter()
                .map(|e| e.name)
                .filter(|n| !n.starts_with('('))
                .collect();
            let want: std::collections::BTreeSet<String> = model.keys().cloned().collect();
            for n in want.difference(&listed) {
                problems.push(format!("{n}: missing from list()"));
            }
            for n in listed.difference(&want) {
                problems.push(format!("{n}: unexpected name in list()"));
            }
        }
        Err(e) => problems.push(format!("list failed: {e}")),
    }
    problems
}

// ---------------------------------------------------------------------------
// 1. add_to_hash_table never terminates when the hash table is full
// ---------------------------------------------------------------------------
#[test]
fn defect1_add_when_hash_table_full_must_terminate_with_error() {
    let dir = TempDir::new().unwrap();
    let mut model = BTreeMap::new();
    model.insert("seed.txt".to_string(), b"seed".to_vec());
    let path = build_base(&dir, FormatVersion::V1, &mut model, 400);

    let (used, size) = count_used_hash_slots(&path);
    println!("hash table size {size}, used slots {used}");
    assert_eq!(size, 16, "builder minimum hash table size");

    let mut m = MutableArchive::open(&path).unwrap();
    // Fill every remaining slot.
    for i in 0..(size - used) {
        let name = format!("fill{i:02}.bin");
        let data = payload(i as u32, 40);
        m.add_file_data(&data, &name, stored()).unwrap();
        model.insert(name, data);
    }

    // One more: must return Err, not hang.
    let (tx, rx) = mpsc::channel();
    std::thread::spawn(move || {
        let r = m.add_file_data(b"overflow", "overflow.bin", stored());
        let r = r.map_err(|e| e.to_string());
        // flush + close so the main thread can check the on-disk state
        let f = m.flush().map_err(|e| e.to_string());
        drop(m);
        let _ = tx.send((r, f));
    });

    match rx.recv_timeout(Duration::from_secs(10)) {
        Err(_) => panic!("add_file_data on a full hash table did not terminate within 10 s (hang)"),
        Ok((add_result, flush_result)) => {
            println!("add result: {add_result:?}; flush result: {flush_result:?}");
            assert!(add_result.is_err(), "adding to a full hash table must fail");
            flush_result.unwrap();
            let problems = diff_against_model(&path, &model);
            assert!(problems.is_empty(), "failed add changed the map: {problems:#?}");
        }
    }
}

// ---------------------------------------------------------------------------
// 2. failed replace still deletes the old entry
// ---------------------------------------------------------------------------
#[test]
fn defect2_failed_replace_must_leave_old_file_intact() {
    let dir = TempDir::new().unwrap();
    let mut model = BTreeMap::new();
    model.insert("a.txt".to_string(), b"original content of a".to_vec());
    model.insert("b.txt".to_string(), b"original content of b".to_vec());
    let path = build_base(&dir, FormatVersion::V1, &mut model, 400);

    let mut m = MutableArchive::open(&path).unwrap();

    // Implode *compression* is a stub that always returns Err for non-empty input,
    // so prepare_file_data fails deterministically -- after the old hash entry
    // has already been flagged deleted.
    let bad = AddFileOptions::new().compression(CompressionMethod::Implode);
    let r = m.add_file_data(b"replacement content", "a.txt", bad);
    println!("replace result: {:?}", r.as_ref().map_err(|e| e.to_string()));
    assert!(r.is_err(), "precondition: this replace is expected to fail");

    // In-session view: the file must still exist.
    let in_session = m.find_file("a.txt").unwrap();
    println!("in-session find_file(a.txt) after failed replace: {:?}", in_session.is_some());

    // A later, unrelated, successful operation makes the session dirty so the
    // tables are persisted on flush.
    let c = b"content of c".to_vec();
    m.add_file_data(&c, "c.txt", stored()).unwrap();
    model.insert("c.txt".to_string(), c);
    m.flush().unwrap();
    drop(m);

    let problems = diff_against_model(&path, &model);
    assert!(
        in_session.is_some() && problems.is_empty(),
        "failed replace changed the map: in-session present={}, after reopen: {problems:#?}",
        in_session.is_some()
    );
}

// ---------------------------------------------------------------------------
// 3. compact silently drops files
// ---------------------------------------------------------------------------

/// 3a: a file whose stored bytes are corrupt is dropped, compact returns Ok.
#[test]
fn defect3a_compact_must_not_silently_drop_unreadable_file() {
    let dir = TempDir::new().unwrap();
    let mut model = BTreeMap::new();
    model.insert("good.txt".to_string(), b"good good good".to_vec());
    // highly compressible => stored zlib-compressed
    model.insert("victim.txt".to_string(), b"ABCDEFGH".repeat(200));
    let path = build_base(&dir, FormatVersion::V1, &mut model, 400);

    // Corrupt victim's compressed stream (keep the first two bytes).
    let (pos, csize) = {
        let a = Archive::open(&path).unwrap();
        let fi = a.find_file("victim.txt").unwrap().unwrap();
        (fi.file_pos, fi.compressed_size)
    };
    {
        let mut f = std::fs::OpenOptions::new().write(true).open(&path).unwrap();
        f.seek(SeekFrom::Start(pos + 2)).unwrap();
        f.write_all(&vec![0xFFu8; (csize - 2) as usize]).unwrap();
    }
    {
        let mut a = Archive::open(&path).unwrap();
        let r = a.read_file("victim.txt");
        println!("read of corrupted victim before compact: {:?}", r.as_ref().map(|d| d.len()).map_err(|e| e.to_string()));
        assert!(r.is_err(), "precondition: victim is unreadable");
        assert!(a.find_file("victim.txt").unwrap().is_some());
    }

    let mut m = MutableArchive::open(&path).unwrap();
    let r = m.compact();
    println!("compact result: {:?}", r.as_ref().map_err(|e| e.to_string()));
    drop(m);

    let mut a = Archive::open(&path).unwrap();
    let still_there = a.find_file("victim.txt").unwrap().is_some();
    println!("victim.txt entry present after compact: {still_there}");
    assert_eq!(a.read_file("good.txt").unwrap(), model["good.txt"]);
    assert!(
        r.is_err() || still_there,
        "compact() returned Ok but removed victim.txt from the archive"
    );
}

/// 3b: add + flush + compact in the same session loses the added file.
#[test]
fn defect3b_compact_after_add_and_flush_must_keep_added_file() {
    let dir = TempDir::new().unwrap();
    let mut model = BTreeMap::new();
    model.insert("a.txt".to_string(), b"original content of a".to_vec());
    let path = build_base(&dir, FormatVersion::V1, &mut model, 400);

    let mut m = MutableArchive::open(&path).unwrap();
    let d = payload(7, 300);
    m.add_file_data(&d, "new.bin", stored()).unwrap();
    model.insert("new.bin".to_string(), d);
    m.flush().unwrap();
    let r = m.compact();
    println!("compact result: {:?}", r.as_ref().map_err(|e| e.to_string()));
    r.unwrap();
    drop(m);

    let problems = diff_against_model(&path, &model);
    assert!(problems.is_empty(), "compact lost data: {problems:#?}");
}

/// 3c: archive without (listfile): compact renames everything to FileXXXXXXXX.unknown
/// (and in fact cannot even read them back under that name).
#[test]
fn defect3c_compact_without_listfile_must_keep_files_reachable() {
    let dir = TempDir::new().unwrap();
    let path = dir.path().join("nolist.mpq");
    ArchiveBuilder::new()
        .listfile_option(ListfileOption::None)
        .add_file_data(b"content one".to_vec(), "one.txt")
        .add_file_data(b"content two".to_vec(), "two.txt")
        .build(&path)
        .unwrap();
    {
        let mut a = Archive::open(&path).unwrap();
        assert_eq!(a.read_file("one.txt").unwrap(), b"content one");
    }

    let mut m = MutableArchive::open(&path).unwrap();
    let r = m.compact();
    println!("compact result: {:?}", r.as_ref().map_err(|e| e.to_string()));
    drop(m);

    let mut a = Archive::open(&path).unwrap();
    let one = a.read_file("one.txt");
    let two = a.read_file("two.txt");
    println!(
        "after compact: one.txt -> {:?}, two.txt -> {:?}",
        one.as_ref().map(|d| d.len()).map_err(|e| e.to_string()),
        two.as_ref().map(|d| d.len()).map_err(|e| e.to_string())
    );
    println!("list after compact: {:?}", a.list().map(|l| l.into_iter().map(|e| e.name).collect::<Vec<_>>()).map_err(|e| e.to_string()));
    assert!(
        r.is_err() || (one.is_ok() && two.is_ok()),
        "compact() returned Ok but files are no longer reachable by name"
    );
}

// ---------------------------------------------------------------------------
// 4. block table growth overwrites appended file data
// ---------------------------------------------------------------------------
fn run_growth(version: FormatVersion, n_add: usize) -> Vec<String> {
    let dir = TempDir::new().unwrap();
    let mut model = BTreeMap::new();
    // 40 base files => hash table 128, so hash capacity is not the limiting factor.
    for i in 0..40u32 {
        model.insert(format!("base\\f{i:02}.bin"), payload(1000 + i, 200 + i as usize));
    }
    let path = build_base(&dir, version, &mut model, 0);
    let (used, size) = count_used_hash_slots(&path);
    println!("{version:?}: hash table {used}/{size}");

    let mut m = MutableArchive::open(&path).unwrap();
    for i in 0..n_add as u32 {
        let name = format!("added\\g{i:02}.bin");
        let data = payload(5000 + i, 300 + 7 * i as usize);
        m.add_file_data(&data, &name, stored()).unwrap();
        model.insert(name, data);
    }
    m.flush().unwrap();
    drop(m);
    diff_against_model(&path, &model)
}

#[test]
fn defect4_add_50_files_flush_reopen_reads_everything_v1() {
    let problems = run_growth(FormatVersion::V1, 50);
    assert!(problems.is_empty(), "{} problems: {problems:#?}", problems.len());
}

#[test]
fn defect4_add_50_files_flush_reopen_reads_everything_v2() {
    let problems = run_growth(FormatVersion::V2, 50);
    assert!(problems.is_empty(), "{} problems: {problems:#?}", problems.len());
}

#[test]
fn defect4_add_50_files_flush_reopen_reads_everything_v3() {
    let problems = run_growth(FormatVersion::V3, 50);
    assert!(problems.is_empty(), "{} problems: {problems:#?}", problems.len());
}

#[test]
fn defect4_add_50_files_flush_reopen_reads_everything_v4() {
    let problems = run_growth(FormatVersion::V4, 50);
    assert!(problems.is_empty(), "{} problems: {problems:#?}", problems.len());
}

#[test]
#[ignore = "exploration only"]
fn explore_growth_threshold() {
    for v in [FormatVersion::V1, FormatVersion::V2, FormatVersion::V3, FormatVersion::V4] {
        for n in [1usize, 2, 5, 10, 20, 30, 31, 32, 33, 40, 50] {
            let p = run_growth(v, n);
            println!("{v:?} n={n}: {} problems {:?}", p.len(), p.iter().take(2).collect::<Vec<_>>());
        }
    }
}
