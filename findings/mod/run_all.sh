#!/bin/bash
# Runs the repro test + full suites for: baseline, each fix alone, all fixes combined.
cd /tmp/wt-mod
export CARGO_TARGET_DIR=/tmp/wt-mod/target RUST_BACKTRACE=0
SRC=file-formats/archives/wow-mpq/src
OUT=/tmp/repro/mod/results
mkdir -p $OUT
for v in baseline 1 2 3 4 all; do
  git checkout -- $SRC
  case $v in
    baseline) ;;
    all) for n in 1 2 3 4; do git apply /tmp/repro/mod/fix_$n.diff || echo "APPLY FAIL $n" ; done ;;
    *) git apply /tmp/repro/mod/fix_$v.diff || echo "APPLY FAIL $v" ;;
  esac
  rustfmt --edition 2024 --check $SRC/modification.rs > $OUT/$v.fmt.txt 2>&1; echo "fmt rc=$?" >> $OUT/$v.fmt.txt
  cargo test --offline -p wow-mpq --test modification_defects > $OUT/$v.repro.txt 2>&1
  cargo test --offline -p wow-mpq --no-fail-fast -- --skip defect > $OUT/$v.wow-mpq.txt 2>&1; echo "rc=$?" >> $OUT/$v.wow-mpq.txt
  cargo test --offline -p storm-ffi --no-fail-fast > $OUT/$v.storm-ffi.txt 2>&1; echo "rc=$?" >> $OUT/$v.storm-ffi.txt
done
git checkout -- $SRC
echo DONE
