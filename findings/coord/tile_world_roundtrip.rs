//! C18 reproduction: tile -> world -> tile must return the same tile for all 64x64 tiles.
use wow_wdt::{tile_to_world, world_to_tile};

#[test]
fn every_tile_round_trips_through_world_coordinates() {
    let mut wrong = Vec::new();
    for x in 0..64u32 {
        for y in 0..64u32 {
            let (wx, wy) = tile_to_world(x, y);
            let back = world_to_tile(wx, wy);
            if back != (x, y) {
                wrong.push(((x, y), back));
            }
        }
    }
    assert!(
        wrong.is_empty(),
        "{} of 4096 tiles do not round-trip, e.g. {:?}",
        wrong.len(),
        &wrong[..wrong.len().min(5)]
    );
}

#[test]
fn interior_points_still_map_to_their_tile() {
    const MAP_SIZE: f32 = 533.333_3;
    for x in 0..64u32 {
        for y in 0..64u32 {
            let (wx, wy) = tile_to_world(x, y);
            // a point well inside the tile (world axes decrease with the tile index)
            assert_eq!(world_to_tile(wx - MAP_SIZE * 0.5, wy - MAP_SIZE * 0.5), (x, y));
            assert_eq!(world_to_tile(wx - MAP_SIZE * 0.01, wy - MAP_SIZE * 0.99), (x, y));
        }
    }
}
