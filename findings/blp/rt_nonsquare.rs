//! Claim (A): non-square images WITH mipmaps must survive
//! image_to_blp -> encode_blp -> parse_blp unchanged.
//! Each test prints one OK/FAIL line per (size, target); run with --nocapture.
#![allow(dead_code)]

use image::{DynamicImage, Rgba, RgbaImage};
use wow_blp::convert::{
    AlphaBits, Blp2Format, BlpOldFormat, BlpTarget, DxtAlgorithm, FilterType, blp_to_image,
    image_to_blp,
};
use wow_blp::encode::{encode_blp, encode_blp0};
use wow_blp::parser::{parse_blp, parse_blp_with_externals, preloaded_mipmaps};
use wow_blp::types::{BlpContent, BlpImage, BlpVersion, MipmapLocator};

/// Opaque-ish RGBA gradient, every pixel distinct for the sizes used here.
fn gradient(width: u32, height: u32) -> DynamicImage {
    let mut img = RgbaImage::new(width, height);
    for (x, y, p) in img.enumerate_pixels_mut() {
        *p = Rgba([
            (x * 255 / (width - 1).max(1)) as u8,
            (y * 255 / (height - 1).max(1)) as u8,
            ((x + y) * 7 % 256) as u8,
            if (x + y) % 3 == 0 { 0 } else { 255 },
        ]);
    }
    DynamicImage::ImageRgba8(img)
}

fn dxt1() -> BlpTarget {
    BlpTarget::Blp2(Blp2Format::Dxt1 {
        has_alpha: true,
        compress_algorithm: DxtAlgorithm::RangeFit,
    })
}
fn dxt3() -> BlpTarget {
    BlpTarget::Blp2(Blp2Format::Dxt3 {
        has_alpha: true,
        compress_algorithm: DxtAlgorithm::RangeFit,
    })
}
fn dxt5() -> BlpTarget {
    BlpTarget::Blp2(Blp2Format::Dxt5 {
        has_alpha: true,
        compress_algorithm: DxtAlgorithm::RangeFit,
    })
}
fn blp0_raw1() -> BlpTarget {
    BlpTarget::Blp0(BlpOldFormat::Raw1 {
        alpha_bits: AlphaBits::Bit8,
    })
}
fn blp0_jpeg() -> BlpTarget {
    BlpTarget::Blp0(BlpOldFormat::Jpeg { has_alpha: true })
}
fn blp1_raw1(alpha_bits: AlphaBits) -> BlpTarget {
    BlpTarget::Blp1(BlpOldFormat::Raw1 { alpha_bits })
}
fn blp1_jpeg() -> BlpTarget {
    BlpTarget::Blp1(BlpOldFormat::Jpeg { has_alpha: false })
}
fn blp2_raw1(alpha_bits: AlphaBits) -> BlpTarget {
    BlpTarget::Blp2(Blp2Format::Raw1 { alpha_bits })
}
fn blp2_raw3() -> BlpTarget {
    BlpTarget::Blp2(Blp2Format::Raw3)
}
fn blp2_jpeg() -> BlpTarget {
    BlpTarget::Blp2(Blp2Format::Jpeg { has_alpha: true })
}

/// Number of levels of a chain that halves each dimension down to 1x1.
fn full_chain_len(width: u32, height: u32) -> usize {
    let (mut w, mut h, mut n) = (width, height, 1);
    while w > 1 || h > 1 {
        w = (w / 2).max(1);
        h = (h / 2).max(1);
        n += 1;
    }
    n
}

/// Serialized size of every stored level.
fn level_sizes(blp: &BlpImage) -> Vec<usize> {
    match &blp.content {
        BlpContent::Jpeg(c) => c.images.iter().map(|i| i.len()).collect(),
        BlpContent::Raw1(c) => c.images.iter().map(|i| i.len()).collect(),
        BlpContent::Raw3(c) => c.images.iter().map(|i| i.pixels.len() * 4).collect(),
        BlpContent::Dxt1(c) | BlpContent::Dxt3(c) | BlpContent::Dxt5(c) => {
            c.images.iter().map(|i| i.len()).collect()
        }
    }
}

/// image -> BlpImage -> bytes -> BlpImage, checking that nothing changed.
fn roundtrip(width: u32, height: u32, target: BlpTarget, make_mipmaps: bool) -> Result<(), String> {
    let source = gradient(width, height);
    let encoded: BlpImage = image_to_blp(
        source.clone(),
        make_mipmaps,
        target.clone(),
        FilterType::Nearest,
    )
    .map_err(|e| format!("image_to_blp failed: {e}"))?;

    let (bytes, parsed) = if encoded.header.version == BlpVersion::Blp0 {
        let out = encode_blp0(&encoded).map_err(|e| format!("encode_blp0 failed: {e}"))?;
        let mips = out.blp_mipmaps;
        let parsed = parse_blp_with_externals(&out.blp_bytes, |i| preloaded_mipmaps(&mips, i))
            .map_err(|e| format!("parse error: {e}"))?;
        (out.blp_bytes, parsed)
    } else {
        let bytes = encode_blp(&encoded).map_err(|e| format!("encode_blp failed: {e}"))?;
        let parsed = parse_blp(&bytes).map_err(|e| format!("parse error: {e}"))?;
        (bytes, parsed)
    };

    let mut problems: Vec<String> = vec![];
    if parsed.header != encoded.header {
        problems.push(format!(
            "header differs: parsed {:?} != encoded {:?}",
            parsed.header, encoded.header
        ));
    }
    if parsed.image_count() != encoded.image_count() {
        problems.push(format!(
            "parsed {} images, encoded {}",
            parsed.image_count(),
            encoded.image_count()
        ));
    }
    if parsed.content != encoded.content {
        problems.push(format!(
            "parsed content != encoded content (level byte sizes parsed {:?}, encoded {:?})",
            level_sizes(&parsed),
            level_sizes(&encoded)
        ));
    }

    // Stored (offset, size) pairs lie inside the file and do not overlap.
    if let MipmapLocator::Internal { offsets, sizes } = parsed.header.mipmap_locator {
        let mut spans: Vec<(u32, u32)> = offsets
            .iter()
            .zip(sizes.iter())
            .filter(|(_, s)| **s > 0)
            .map(|(o, s)| (*o, *s))
            .collect();
        if spans.len() != encoded.image_count() {
            problems.push(format!(
                "{} non-empty locator entries for {} images",
                spans.len(),
                encoded.image_count()
            ));
        }
        spans.sort_unstable();
        let mut end = 0u64;
        for (o, s) in spans {
            if (o as u64) < end {
                problems.push(format!(
                    "locator entry at {o} overlaps previous (ends {end})"
                ));
            }
            end = o as u64 + s as u64;
            if end > bytes.len() as u64 {
                problems.push(format!("locator entry {o}+{s} is outside the file"));
            }
        }
    }

    // Raw BGRA is lossless: decoded pixels equal the source pixels.
    if matches!(target, BlpTarget::Blp2(Blp2Format::Raw3)) {
        let decoded = blp_to_image(&parsed, 0).map_err(|e| format!("blp_to_image: {e}"))?;
        if decoded.to_rgba8() != source.to_rgba8() {
            problems.push("raw3 decoded pixels differ from source".to_string());
        }
    }

    // The chain halves each dimension down to 1x1.
    let expected_levels = if make_mipmaps {
        full_chain_len(width, height)
    } else {
        1
    };
    if encoded.image_count() != expected_levels {
        problems.push(format!(
            "converter produced {} levels, a chain down to 1x1 has {}",
            encoded.image_count(),
            expected_levels
        ));
    }
    if problems.is_empty() {
        Ok(())
    } else {
        Err(problems.join("; "))
    }
}

/// Run every (size, target) pair, print one line each, panic listing failures.
fn run_matrix(sizes: &[(u32, u32)], targets: &[(&str, BlpTarget)], make_mipmaps: bool) {
    let mut failures = vec![];
    for &(w, h) in sizes {
        for (name, target) in targets {
            let label = format!("{w}x{h} {name} mipmaps={make_mipmaps}");
            match roundtrip(w, h, target.clone(), make_mipmaps) {
                Ok(()) => println!("OK   {label}"),
                Err(e) => {
                    println!("FAIL {label}: {e}");
                    failures.push(format!("{label}: {e}"));
                }
            }
        }
    }
    assert!(
        failures.is_empty(),
        "{} round-trip failure(s):\n{}",
        failures.len(),
        failures.join("\n")
    );
}

const NONSQUARE: &[(u32, u32)] = &[(16, 4), (8, 2), (4, 16), (2, 1), (10, 5)];

fn raw_targets() -> Vec<(&'static str, BlpTarget)> {
    vec![
        ("BLP1/raw1-a0", blp1_raw1(AlphaBits::NoAlpha)),
        ("BLP1/raw1-a1", blp1_raw1(AlphaBits::Bit1)),
        ("BLP1/raw1-a4", blp1_raw1(AlphaBits::Bit4)),
        ("BLP1/raw1-a8", blp1_raw1(AlphaBits::Bit8)),
        ("BLP2/raw1-a8", blp2_raw1(AlphaBits::Bit8)),
        ("BLP2/raw3", blp2_raw3()),
    ]
}
fn blp0_targets() -> Vec<(&'static str, BlpTarget)> {
    vec![("BLP0/raw1-a8", blp0_raw1()), ("BLP0/jpeg", blp0_jpeg())]
}
fn jpeg_targets() -> Vec<(&'static str, BlpTarget)> {
    vec![("BLP1/jpeg", blp1_jpeg()), ("BLP2/jpeg", blp2_jpeg())]
}
fn dxt_targets() -> Vec<(&'static str, BlpTarget)> {
    vec![
        ("BLP2/dxt1", dxt1()),
        ("BLP2/dxt3", dxt3()),
        ("BLP2/dxt5", dxt5()),
    ]
}
fn all_targets() -> Vec<(&'static str, BlpTarget)> {
    let mut v = blp0_targets();
    v.extend(raw_targets());
    v.extend(jpeg_targets());
    v.extend(dxt_targets());
    v
}

#[test]
fn square_control_with_mipmaps() {
    run_matrix(&[(16, 16), (4, 4), (1, 1)], &all_targets(), true);
}

#[test]
fn nonsquare_control_without_mipmaps() {
    // DXT left out: 8x2 / 2x1 / 10x5 are not multiples of 4 (claim B).
    let mut t = blp0_targets();
    t.extend(raw_targets());
    t.extend(jpeg_targets());
    run_matrix(NONSQUARE, &t, false);
}

#[test]
fn nonsquare_mipmaps_blp0() {
    run_matrix(NONSQUARE, &blp0_targets(), true);
}

#[test]
fn nonsquare_mipmaps_raw() {
    run_matrix(NONSQUARE, &raw_targets(), true);
}

#[test]
fn nonsquare_mipmaps_jpeg() {
    run_matrix(NONSQUARE, &jpeg_targets(), true);
}

/// Also needs the claim (B) fix: the chain of 16x4 contains 8x2, 4x1, ...
#[test]
fn nonsquare_mipmaps_dxt() {
    run_matrix(&[(16, 4), (4, 16), (64, 16)], &dxt_targets(), true);
}
