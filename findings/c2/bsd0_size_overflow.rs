//! C05 (rule C2): BSD0 block sizes taken from the patch must not overflow the offset arithmetic.
use std::panic::{AssertUnwindSafe, catch_unwind};
use wow_mpq::patch::{PatchFile, apply_patch};

const MD5_EMPTY: [u8; 16] = [0xd4, 0x1d, 0x8c, 0xd9, 0x8f, 0x00, 0xb2, 0x04, 0xe9, 0x80, 0x09, 0x98, 0xec, 0xf8, 0x42, 0x7e];

fn rle_literal(raw: &[u8]) -> Vec<u8> {
    let mut v = (raw.len() as u32).to_le_bytes().to_vec();
    for c in raw.chunks(128) {
        v.push(0x80 | (c.len() as u8 - 1));
        v.extend_from_slice(c);
    }
    v
}

/// A PTCH/BSD0 file (base = empty file): 64-byte header + RLE(bsdiff40 header).
fn bsd0_patch(ctrl: u64, data: u64, new_size: u64) -> Vec<u8> {
    let mut bs = Vec::new();
    bs.extend_from_slice(&0x3034464649445342u64.to_le_bytes()); // "BSDIFF40"
    bs.extend_from_slice(&ctrl.to_le_bytes());
    bs.extend_from_slice(&data.to_le_bytes());
    bs.extend_from_slice(&new_size.to_le_bytes());
    let payload = rle_literal(&bs);
    let mut p = Vec::new();
    p.extend_from_slice(&0x48435450u32.to_le_bytes()); // PTCH
    p.extend_from_slice(&32u32.to_le_bytes()); // patch_data_size
    p.extend_from_slice(&0u32.to_le_bytes()); // size_before
    p.extend_from_slice(&0u32.to_le_bytes()); // size_after
    p.extend_from_slice(&0x5f35444du32.to_le_bytes()); // MD5_
    p.extend_from_slice(&40u32.to_le_bytes());
    p.extend_from_slice(&MD5_EMPTY); // md5_before
    p.extend_from_slice(&[0u8; 16]); // md5_after
    p.extend_from_slice(&0x4d524658u32.to_le_bytes()); // XFRM
    p.extend_from_slice(&(12 + payload.len() as u32).to_le_bytes());
    p.extend_from_slice(&0x30445342u32.to_le_bytes()); // BSD0
    p.extend_from_slice(&payload);
    p
}

fn run(bytes: &[u8]) -> std::thread::Result<wow_mpq::Result<Vec<u8>>> {
    catch_unwind(AssertUnwindSafe(|| {
        let patch = PatchFile::parse(bytes)?;
        apply_patch(&patch, b"")
    }))
}

#[test]
fn hostile_block_sizes_are_rejected_not_panicking() {
    for (ctrl, data) in [(0xFFFF_FFFF_FFFF_FFF0u64, 0u64), (0, u64::MAX - 31), (u64::MAX, u64::MAX)] {
        let out = run(&bsd0_patch(ctrl, data, 0));
        assert!(out.is_ok(), "apply_patch panicked for ctrl={ctrl:#x} data={data:#x}");
        assert!(out.unwrap().is_err(), "hostile sizes must be an error");
    }
}
