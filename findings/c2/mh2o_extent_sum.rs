//! C05 reproduction (rule C2; file derived from the rule-F reproduction): an MH2O liquid instance whose `width * height` exceeds 64
//! makes the exists-bitmap reader copy more than 8 bytes into a fixed `[u8; 8]` — index out of bounds
//! panic instead of an error.  A valid WotLK root ADT is produced by `AdtBuilder`; then only the
//! `width` / `height` bytes of one instance are overwritten in the serialized file.

use std::io::Cursor;

use wow_adt::api::ParsedAdt;
use wow_adt::builder::AdtBuilder;
use wow_adt::chunks::mh2o::{
    DepthOnlyVertex, HeightDepthVertex, HeightUvDepthVertex, HeightUvVertex, Mh2oChunk, Mh2oEntry,
    Mh2oHeader, Mh2oInstance, UvMapEntry, VertexDataArray,
};
use wow_adt::{AdtVersion, parse_adt};

fn instance(lvf: u16) -> Mh2oInstance {
    Mh2oInstance {
        liquid_type: 5,
        liquid_object_or_lvf: lvf,
        min_height_level: 10.0,
        max_height_level: 20.0,
        x_offset: 0,
        y_offset: 0,
        width: 2,
        height: 1,
        offset_exists_bitmap: 0,
        offset_vertex_data: 0,
    }
}

fn entry(lvf: u16) -> Mh2oEntry {
    // (width + 1) * (height + 1) = 3 * 2 vertices in the sparse 9x9 grid
    let cells = [0usize, 1, 2, 9, 10, 11];
    let uv = UvMapEntry { u: 1, v: 2 };
    let data = match lvf {
        0 => {
            let mut g: Box<[Option<HeightDepthVertex>; 81]> = Box::new([const { None }; 81]);
            for &c in &cells {
                g[c] = Some(HeightDepthVertex {
                    height: 12.0,
                    depth: 3,
                });
            }
            VertexDataArray::HeightDepth(g)
        }
        1 => {
            let mut g: Box<[Option<HeightUvVertex>; 81]> = Box::new([const { None }; 81]);
            for &c in &cells {
                g[c] = Some(HeightUvVertex { height: 12.0, uv });
            }
            VertexDataArray::HeightUv(g)
        }
        2 => {
            let mut g: Box<[Option<DepthOnlyVertex>; 81]> = Box::new([const { None }; 81]);
            for &c in &cells {
                g[c] = Some(DepthOnlyVertex { depth: 3 });
            }
            VertexDataArray::DepthOnly(g)
        }
        _ => {
            let mut g: Box<[Option<HeightUvDepthVertex>; 81]> = Box::new([const { None }; 81]);
            for &c in &cells {
                g[c] = Some(HeightUvDepthVertex {
                    height: 12.0,
                    uv,
                    depth: 3,
                });
            }
            VertexDataArray::HeightUvDepth(g)
        }
    };

    Mh2oEntry {
        header: Mh2oHeader {
            offset_instances: 0,
            layer_count: 1,
            offset_attributes: 0,
        },
        instances: vec![instance(lvf)],
        vertex_data: vec![Some(data)],
        exists_bitmaps: vec![Some(0x3)],
        attributes: None,
    }
}

/// Serialized WotLK ADT whose MH2O entries 0..=3 use vertex formats 0..=3.
fn adt_with_four_liquid_formats() -> Vec<u8> {
    let mut entries: Vec<Mh2oEntry> = (0..4).map(entry).collect();
    while entries.len() < 256 {
        entries.push(Mh2oEntry::default());
    }

    AdtBuilder::new()
        .with_version(AdtVersion::WotLK)
        .add_texture("terrain/water.blp")
        .add_water_data(Mh2oChunk { entries })
        .build()
        .expect("build ADT")
        .to_bytes()
        .expect("serialize ADT")
}

/// Overwrite the four extent bytes of the (single) instance of MH2O entry `entry_index`.
fn patch_instance(bytes: &mut [u8], entry_index: usize, x_offset: u8, y_offset: u8, width: u8, height: u8) {
    let chunk = bytes.windows(4).position(|w| w == b"O2HM").expect("MH2O chunk present");
    let data_start = chunk + 8;
    let header = data_start + entry_index * 12;
    let offset_instances = u32::from_le_bytes(bytes[header..header + 4].try_into().unwrap()) as usize;
    assert_ne!(offset_instances, 0, "entry has an instance");
    let inst = data_start + offset_instances;
    assert_eq!(bytes[inst + 0x0E], 2, "located the instance (width)");
    bytes[inst + 0x0C] = x_offset;
    bytes[inst + 0x0D] = y_offset;
    bytes[inst + 0x0E] = width;
    bytes[inst + 0x0F] = height;
}

#[test]
fn liquid_instance_extent_sum_past_u8_does_not_crash_the_parser() {
    let pristine = adt_with_four_liquid_formats();
    for entry_index in 0..4 {
        for (x, y, w, h) in [(200u8, 0u8, 100u8, 1u8), (0, 200, 1, 100), (255, 255, 255, 255)] {
            let mut bytes = pristine.clone();
            patch_instance(&mut bytes, entry_index, x, y, w, h);
            let outcome = std::panic::catch_unwind(move || parse_adt(&mut Cursor::new(bytes)).map(|_| ()));
            assert!(outcome.is_ok(), "parse_adt panicked for LVF {entry_index} x={x} y={y} w={w} h={h}");
        }
    }
}
