//! C05: the DBC string block must not be allocated from the header's size before the bytes are known to exist,
//! and a file truncated inside its string block must still be rejected.
use std::io::Cursor;
use wow_cdbc::StringBlock;

#[test]
fn truncated_string_block_is_an_error() {
    let data = b"\0abc\0".to_vec();
    assert!(StringBlock::parse(&mut Cursor::new(data.clone()), 0, 5).is_ok());
    assert!(StringBlock::parse(&mut Cursor::new(data), 0, 6).is_err(), "one byte short must fail");
}

#[test]
fn huge_declared_size_fails_without_a_matching_allocation() {
    // 16 bytes of input, 0xFFFF_FFF0 declared: must fail quickly (this test would abort or take
    // gigabytes if the buffer were allocated from the header value first)
    let data = vec![0u8; 16];
    let r = StringBlock::parse(&mut Cursor::new(data), 0, 0xFFFF_FFF0);
    assert!(r.is_err());
}
