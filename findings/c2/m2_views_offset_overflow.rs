//! C05 (rule C2): the pre-WotLK `views` array offset/count come from the file; offset + index * 44 must not overflow.
use std::io::Cursor;
use std::panic::{AssertUnwindSafe, catch_unwind};

fn put_u32(buf: &mut [u8], off: usize, v: u32) {
    buf[off..off + 4].copy_from_slice(&v.to_le_bytes());
}

#[test]
fn views_offset_near_u32_max_does_not_panic() {
    for version in [256u32, 260] {
        let mut b = vec![0u8; 0x200];
        b[0..4].copy_from_slice(b"MD20");
        put_u32(&mut b, 4, version);
        // locate the `views` M2Array in the header by scanning: set every (count, offset) pair candidate is brittle,
        // so use the documented pre-WotLK layout: views = (count @0x4C, offset @0x50)
        put_u32(&mut b, 0x4C, 3);
        put_u32(&mut b, 0x50, 0xFFFF_FFF0);
        let out = catch_unwind(AssertUnwindSafe(|| wow_m2::parse_m2(&mut Cursor::new(&b)).map(|_| ())));
        assert!(out.is_ok(), "parse_m2 panicked for version {version}");
    }
}
