#!/bin/sh
# usage: runall.sh <label>
cd /tmp/wt-pc
CARGO_TARGET_DIR=/tmp/wt-pc/target RUST_BACKTRACE=0 cargo test --offline --no-fail-fast -p wow-mpq -p warcraft-rs -p storm-ffi 2>&1 \
 | grep -E "^test result|Running|Doc-tests|\.\.\. FAILED|^error|warning: unused|^failures:" > /tmp/repro/pc/fulltest_$1.txt
grep -E "FAILED|^error" /tmp/repro/pc/fulltest_$1.txt
grep -c "^test result: ok" /tmp/repro/pc/fulltest_$1.txt
