//! Reproductions for silently swallowed errors in `PatchChain` and `rebuild_archive`.
//!
//! Every test asserts the CORRECT behaviour. Tests named `control_*` are expected to
//! pass on unfixed code (they show the synthetic fixtures are well-formed); the others
//! fail on unfixed code if the suspected defect is genuine.

use md5::{Digest, Md5};
use std::fs::OpenOptions;
use std::io::{Read, Seek, SeekFrom, Write};
use std::path::{Path, PathBuf};
use tempfile::TempDir;
use wow_mpq::crypto::{decrypt_block, encrypt_block, hash_string, hash_type};
use wow_mpq::{
    Archive, ArchiveBuilder, BlockEntry, FormatVersion, ListfileOption, PatchChain,
    RebuildOptions, rebuild_archive,
};

// ---------------------------------------------------------------------------
// helpers
// ---------------------------------------------------------------------------

fn md5(data: &[u8]) -> [u8; 16] {
    let mut h = Md5::new();
    h.update(data);
    h.finalize().into()
}

/// OR `extra_flags` into the on-disk (encrypted) classic block-table entry of `name`.
fn or_block_flags(archive_path: &Path, name: &str, extra_flags: u32) {
    let (table_pos, table_len, block_index) = {
        let archive = Archive::open(archive_path).unwrap();
        let info = archive.find_file(name).unwrap().expect("file present");
        let h = archive.header();
        (
            h.get_block_table_pos(),
            h.block_table_size as usize,
            info.block_index,
        )
    };

    let mut f = OpenOptions::new()
        .read(true)
        .write(true)
        .open(archive_path)
        .unwrap();
    let mut raw = vec![0u8; table_len * 16];
    f.seek(SeekFrom::Start(table_pos)).unwrap();
    f.read_exact(&mut raw).unwrap();

    let key = hash_string("(block table)", hash_type::FILE_KEY);
    let mut words: Vec<u32> = raw
        .chunks_exact(4)
        .map(|c| u32::from_le_bytes([c[0], c[1], c[2], c[3]]))
        .collect();
    decrypt_block(&mut words, key);
    words[block_index * 4 + 3] |= extra_flags;
    encrypt_block(&mut words, key);

    let out: Vec<u8> = words.iter().flat_map(|w| w.to_le_bytes()).collect();
    f.seek(SeekFrom::Start(table_pos)).unwrap();
    f.write_all(&out).unwrap();
    f.flush().unwrap();
}

/// 28-byte TPatchInfo header that precedes the PTCH payload inside the MPQ.
fn tpatch_info(ptch_len: usize) -> Vec<u8> {
    let mut v = Vec::new();
    v.extend_from_slice(&28u32.to_le_bytes()); // length
    v.extend_from_slice(&0u32.to_le_bytes()); // flags
    v.extend_from_slice(&(ptch_len as u32).to_le_bytes()); // data size
    v.extend_from_slice(&[0u8; 16]); // md5 (unused by the reader)
    v
}

/// A well-formed PTCH/COPY patch turning `before` into `after`.
fn ptch_copy(before: &[u8], after: &[u8], md5_after: [u8; 16]) -> Vec<u8> {
    let mut v = Vec::new();
    v.extend_from_slice(b"PTCH");
    v.extend_from_slice(&((64 + after.len()) as u32).to_le_bytes());
    v.extend_from_slice(&(before.len() as u32).to_le_bytes());
    v.extend_from_slice(&(after.len() as u32).to_le_bytes());
    v.extend_from_slice(b"MD5_");
    v.extend_from_slice(&40u32.to_le_bytes());
    v.extend_from_slice(&md5(before));
    v.extend_from_slice(&md5_after);
    v.extend_from_slice(b"XFRM");
    v.extend_from_slice(&((12 + after.len()) as u32).to_le_bytes());
    v.extend_from_slice(b"COPY");
    v.extend_from_slice(after);
    v
}

const NAME: &str = "data\\file.bin";
const BASE: &[u8] = b"BASE CONTENT - version 1";
const NEW: &[u8] = b"PATCHED CONTENT - version 2 (longer)";

fn build_base(dir: &Path) -> PathBuf {
    let p = dir.join("base.mpq");
    ArchiveBuilder::new()
        .listfile_option(ListfileOption::Generate)
        .add_file_data(BASE.to_vec(), NAME)
        .build(&p)
        .unwrap();
    p
}

/// Build a patch archive whose entry `NAME` carries FLAG_PATCH_FILE and whose stored
/// bytes are exactly `stored` (written uncompressed, unencrypted, single unit).
fn build_patch_archive(dir: &Path, stored: Vec<u8>, extra_flags: u32) -> PathBuf {
    let p = dir.join("patch.mpq");
    ArchiveBuilder::new()
        .listfile_option(ListfileOption::Generate)
        .add_file_data_with_options(stored, NAME, 0, false, 0)
        .build(&p)
        .unwrap();
    or_block_flags(&p, NAME, BlockEntry::FLAG_PATCH_FILE | extra_flags);

    // sanity: the entry is now seen as a patch file
    let a = Archive::open(&p).unwrap();
    let info = a.find_file(NAME).unwrap().unwrap();
    assert!(info.is_patch_file());
    p
}

fn chain(base: &Path, patch: &Path) -> PatchChain {
    let mut c = PatchChain::new();
    c.add_archive(base, 0).unwrap();
    c.add_archive(patch, 100).unwrap();
    assert_eq!(c.find_file_archive(NAME), Some(patch));
    c
}

// ---------------------------------------------------------------------------
// A. PatchChain::read_patched_file swallows read/parse failures of the patch
// ---------------------------------------------------------------------------

/// Control: a well-formed COPY patch is applied and the declared digest matches.
#[test]
fn control_a_valid_copy_patch_is_applied() {
    let t = TempDir::new().unwrap();
    let base = build_base(t.path());
    let ptch = ptch_copy(BASE, NEW, md5(NEW));
    let mut stored = tpatch_info(ptch.len());
    stored.extend_from_slice(&ptch);
    let patch = build_patch_archive(t.path(), stored, 0);

    let got = chain(&base, &patch).read_file(NAME).unwrap();
    assert_eq!(got, NEW);
}

/// Control: a well-formed patch whose declared md5_after is wrong is rejected.
#[test]
fn control_a_digest_mismatch_is_error() {
    let t = TempDir::new().unwrap();
    let base = build_base(t.path());
    let ptch = ptch_copy(BASE, NEW, [0xAA; 16]);
    let mut stored = tpatch_info(ptch.len());
    stored.extend_from_slice(&ptch);
    let patch = build_patch_archive(t.path(), stored, 0);

    let r = chain(&base, &patch).read_file(NAME);
    assert!(r.is_err(), "digest mismatch must be an error, got {r:?}");
}

/// The winning entry is a patch file whose payload does not parse as PTCH
/// (signature bytes damaged). Must be an error, never the unpatched base bytes.
#[test]
fn a1_unparseable_winning_patch_must_not_yield_base_bytes() {
    let t = TempDir::new().unwrap();
    let base = build_base(t.path());
    let mut ptch = ptch_copy(BASE, NEW, md5(NEW));
    ptch[0..4].copy_from_slice(b"XXXX"); // corrupt PTCH signature
    let mut stored = tpatch_info(ptch.len());
    stored.extend_from_slice(&ptch);
    let patch = build_patch_archive(t.path(), stored, 0);

    let r = chain(&base, &patch).read_file(NAME);
    match r {
        Err(e) => println!("OK: error as expected: {e}"),
        Ok(bytes) => panic!(
            "read_file returned Ok({:?}) (== base bytes: {}) although the winning patch entry is unparseable",
            String::from_utf8_lossy(&bytes),
            bytes == BASE
        ),
    }
}

/// The winning entry is a patch file whose stored data cannot even be read
/// (flagged compressed, zlib stream is garbage). Must be an error.
#[test]
fn a2_unreadable_winning_patch_must_not_yield_base_bytes() {
    let t = TempDir::new().unwrap();
    let base = build_base(t.path());
    let mut stored = tpatch_info(200);
    stored.push(0x02); // compression method byte: zlib
    stored.extend_from_slice(&[0xFFu8; 63]); // not a zlib stream
    let patch = build_patch_archive(t.path(), stored, BlockEntry::FLAG_COMPRESS);

    let r = chain(&base, &patch).read_file(NAME);
    match r {
        Err(e) => println!("OK: error as expected: {e}"),
        Ok(bytes) => panic!(
            "read_file returned Ok({:?}) (== base bytes: {}) although the winning patch entry is unreadable",
            String::from_utf8_lossy(&bytes),
            bytes == BASE
        ),
    }
}

// ---------------------------------------------------------------------------
// B. rebuild_file_map silently skips an archive that cannot be listed
// ---------------------------------------------------------------------------

/// An archive that opens but whose tables could not be loaded (hash table offset
/// patched to point at EOF-4 in the header) cannot be listed by `list()` nor `list_all()`.
/// `add_archive` reports Ok and the archive contributes nothing.
#[test]
fn b_unlistable_archive_is_not_silently_skipped() {
    let t = TempDir::new().unwrap();
    let base = build_base(t.path());

    let p = t.path().join("override.mpq");
    ArchiveBuilder::new()
        .listfile_option(ListfileOption::Generate)
        .add_file_data(b"OVERRIDE".to_vec(), NAME)
        .build(&p)
        .unwrap();
    // v1 header: hash_table_pos at 0x10. Point it 4 bytes before EOF: passes header
    // validation (offset < archive_size) but the table read hits EOF, which
    // `Archive::load_tables` only logs.
    let len = std::fs::metadata(&p).unwrap().len() as u32;
    let mut f = OpenOptions::new().write(true).open(&p).unwrap();
    f.seek(SeekFrom::Start(0x10)).unwrap();
    f.write_all(&(len - 4).to_le_bytes()).unwrap();
    drop(f);

    {
        let mut a = Archive::open(&p).expect("archive still opens");
        println!("list()     = {:?}", a.list().map(|v| v.len()));
        println!("list_all() = {:?}", a.list_all().map(|v| v.len()));
    }

    let mut c = PatchChain::new();
    c.add_archive(&base, 0).unwrap();
    let r = c.add_archive(&p, 100);
    println!("add_archive(unlistable) = {r:?}");
    let winner = c.find_file_archive(NAME).map(|p| p.to_path_buf());
    let content = c
        .read_file(NAME)
        .map(|b| String::from_utf8_lossy(&b).into_owned());
    println!("winning archive for {NAME}: {winner:?}; read_file = {content:?}");
    assert!(
        r.is_err(),
        "add_archive returned Ok for an archive whose contents cannot be enumerated; \
         it was silently dropped from the file map"
    );
}

// ---------------------------------------------------------------------------
// C. rebuild_archive silently drops files it cannot read
// ---------------------------------------------------------------------------

fn compressible(tag: &str) -> Vec<u8> {
    format!("{tag}: the quick brown fox jumps over the lazy dog\n")
        .repeat(64)
        .into_bytes()
}

fn build_source(dir: &Path, version: FormatVersion) -> PathBuf {
    let p = dir.join("source.mpq");
    ArchiveBuilder::new()
        .version(version)
        .listfile_option(ListfileOption::Generate)
        .add_file_data(compressible("one"), "one.txt")
        .add_file_data(compressible("two"), "two.txt")
        .add_file_data(compressible("three"), "three.txt")
        .build(&p)
        .unwrap();
    p
}

/// Overwrite the zlib stream of a single-unit compressed file with garbage
/// (the leading compression-method byte is kept).
fn corrupt_file_payload(archive_path: &Path, name: &str) {
    let (pos, csize) = {
        let a = Archive::open(archive_path).unwrap();
        let info = a.find_file(name).unwrap().unwrap();
        assert!(info.is_compressed() && info.is_single_unit());
        (info.file_pos, info.compressed_size)
    };
    let mut f = OpenOptions::new().write(true).open(archive_path).unwrap();
    f.seek(SeekFrom::Start(pos + 1)).unwrap();
    f.write_all(&vec![0xFFu8; csize as usize - 1]).unwrap();
}

#[test]
fn c1_rebuild_must_not_silently_drop_unreadable_file() {
    let t = TempDir::new().unwrap();
    let src = build_source(t.path(), FormatVersion::V1);
    corrupt_file_payload(&src, "two.txt");

    // sanity: the corrupted file really fails to read, the others are fine
    {
        let mut a = Archive::open(&src).unwrap();
        assert!(a.read_file("one.txt").is_ok());
        assert!(a.read_file("three.txt").is_ok());
        println!("source read_file(two.txt) = {:?}", a.read_file("two.txt").map(|d| d.len()));
        assert!(a.read_file("two.txt").is_err());
        let names: Vec<_> = a.list().unwrap().into_iter().map(|e| e.name).collect();
        println!("source listing = {names:?}");
        assert!(names.iter().any(|n| n == "two.txt"));
    }

    let dst = t.path().join("rebuilt.mpq");
    let r = rebuild_archive(&src, &dst, RebuildOptions::default(), None);
    println!("rebuild_archive = {r:?}");

    match r {
        Err(e) => println!("OK: error as expected: {e}"),
        Ok(summary) => {
            let mut target = Archive::open(&dst).unwrap();
            let names: Vec<_> = target.list().unwrap().into_iter().map(|e| e.name).collect();
            println!("target listing = {names:?}");
            let present = target.find_file("two.txt").unwrap().is_some();
            panic!(
                "rebuild_archive returned Ok({summary:?}) but two.txt present in target = {present}; \
                 options did not exclude it"
            );
        }
    }
}

/// Same with `verify: true`: verification re-reads the source, so it does notice, but
/// only after the (incomplete) target has been written. Recorded for completeness.
#[test]
fn c2_rebuild_with_verify_reports_error() {
    let t = TempDir::new().unwrap();
    let src = build_source(t.path(), FormatVersion::V1);
    corrupt_file_payload(&src, "two.txt");
    let dst = t.path().join("rebuilt.mpq");
    let opts = RebuildOptions {
        verify: true,
        ..Default::default()
    };
    let r = rebuild_archive(&src, &dst, opts, None);
    println!("rebuild_archive(verify) = {r:?}");
    assert!(r.is_err());
}

/// Intact V4 (HET/BET) source: every listed file must be present in the target.
#[test]
fn c3_rebuild_intact_v4_source_keeps_all_files() {
    let t = TempDir::new().unwrap();
    let src = build_source(t.path(), FormatVersion::V4);
    let dst = t.path().join("rebuilt.mpq");
    let r = rebuild_archive(&src, &dst, RebuildOptions::default(), None);
    println!("rebuild_archive(v4) = {r:?}");
    let summary = r.expect("intact source rebuilds");
    let mut source = Archive::open(&src).unwrap();
    let mut target = Archive::open(&dst).unwrap();
    for n in ["one.txt", "two.txt", "three.txt"] {
        let s = source.read_file(n).unwrap();
        let d = target.read_file(n);
        assert!(
            d.is_ok(),
            "{n} missing from rebuilt V4 archive ({d:?}); summary = {summary:?}"
        );
        assert_eq!(s, d.unwrap());
    }
}
