//! Reproduction: the lazy DBC reader sizes a record's value vector from the
//! header's `field_count` alone, and formats `record_count - 1` for an empty
//! table.
//!
//! Drop into `file-formats/database/wow-cdbc/tests/`.

use std::alloc::{GlobalAlloc, Layout, System};
use std::io::Cursor;
use std::panic::catch_unwind;
use std::sync::Arc;
use std::sync::atomic::{AtomicUsize, Ordering};

use wow_cdbc::{DbcHeader, LazyDbcParser, StringBlock};

/// Allocator that records the largest single request
struct LargestRequest;

static LARGEST: AtomicUsize = AtomicUsize::new(0);

unsafe impl GlobalAlloc for LargestRequest {
    unsafe fn alloc(&self, layout: Layout) -> *mut u8 {
        LARGEST.fetch_max(layout.size(), Ordering::SeqCst);
        unsafe { System.alloc(layout) }
    }

    unsafe fn dealloc(&self, ptr: *mut u8, layout: Layout) {
        unsafe { System.dealloc(ptr, layout) }
    }

    unsafe fn realloc(&self, ptr: *mut u8, layout: Layout, new_size: usize) -> *mut u8 {
        LARGEST.fetch_max(new_size, Ordering::SeqCst);
        unsafe { System.realloc(ptr, layout, new_size) }
    }
}

#[global_allocator]
static GLOBAL: LargestRequest = LargestRequest;

fn dbc(record_count: u32, field_count: u32, record_size: u32, records: &[u8]) -> Vec<u8> {
    let mut data = Vec::new();
    data.extend_from_slice(b"WDBC");
    data.extend_from_slice(&record_count.to_le_bytes());
    data.extend_from_slice(&field_count.to_le_bytes());
    data.extend_from_slice(&record_size.to_le_bytes());
    data.extend_from_slice(&1u32.to_le_bytes()); // string block size
    data.extend_from_slice(records);
    data.push(0); // string block
    data
}

fn open(data: &[u8]) -> (DbcHeader, Arc<StringBlock>) {
    let mut cursor = Cursor::new(data);
    let header = DbcHeader::parse(&mut cursor).unwrap();
    let strings = StringBlock::parse(
        &mut cursor,
        header.string_block_offset(),
        header.string_block_size,
    )
    .unwrap();
    (header, Arc::new(strings))
}

// One test function: the allocator's counter is process-wide
#[test]
fn lazy_reader_is_total() {
    // 1. A 25-byte file announcing 16M fields per record
    let data = dbc(1, 0x0100_0000, 4, &[1, 0, 0, 0]);
    let (header, strings) = open(&data);
    let parser = LazyDbcParser::new(&data, &header, None, Arc::clone(&strings));

    LARGEST.store(0, Ordering::SeqCst);
    let by_index = parser.get_record(0);
    let by_iterator = parser.record_iterator().next().unwrap();
    let largest = LARGEST.load(Ordering::SeqCst);

    // The record is not there: both must fail, and without reserving room for
    // 16M values first
    assert!(by_index.is_err());
    assert!(by_iterator.is_err());
    assert!(
        largest < 1024 * 1024,
        "a {}-byte file made the lazy reader request {largest} bytes at once",
        data.len()
    );

    // 2. A well-formed record still reads
    let data = dbc(1, 2, 8, &[1, 0, 0, 0, 2, 0, 0, 0]);
    let (header, strings) = open(&data);
    let parser = LazyDbcParser::new(&data, &header, None, Arc::clone(&strings));
    assert_eq!(parser.get_record(0).unwrap().len(), 2);
    assert_eq!(parser.record_iterator().count(), 1);

    // 3. Asking an empty table for a record is an error, not a panic
    let data = dbc(0, 0, 0, &[]);
    let (header, strings) = open(&data);
    let outcome = catch_unwind(|| {
        let parser = LazyDbcParser::new(&data, &header, None, Arc::clone(&strings));
        assert!(parser.get_record(0).is_err());
        assert!(parser.record_iterator().next().is_none());
    });
    assert!(outcome.is_ok(), "get_record(0) on an empty table panicked");
}
