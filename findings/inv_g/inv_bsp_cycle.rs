//! Reproduction: `BspTree::query_point` follows MOBN child indices with no
//! guard. A node that names itself (or an ancestor) as its child recurses
//! until the stack overflows, which kills the process: `catch_unwind` does
//! not help, so every case runs in a subprocess of this test binary.
//!
//! Drop into `file-formats/graphics/wow-wmo/tests/`.

use std::process::Command;

use wow_wmo::{BspTree, Vec3, WmoBspNode, WmoPlane};

const CASE_VAR: &str = "INV_BSP_CASE";

fn node(normal: [f32; 3], children: [i16; 2], num_faces: u16) -> WmoBspNode {
    WmoBspNode {
        plane: WmoPlane {
            normal: Vec3 {
                x: normal[0],
                y: normal[1],
                z: normal[2],
            },
            distance: 0.0,
        },
        children,
        first_face: 0,
        num_faces,
    }
}

const X: [f32; 3] = [1.0, 0.0, 0.0];
const Z: [f32; 3] = [0.0, 0.0, 1.0];

fn run_case(case: &str) {
    let point = [1.0, 2.0, 3.0];

    match case {
        // MOBN entry 0 whose children are entry 0
        "self_cycle" => {
            let tree = BspTree::new(vec![node(X, [0, 0], 0)]);
            assert!(tree.query_point(&point).is_empty());
        }
        // 0 -> 1 -> 0
        "two_cycle" => {
            let tree = BspTree::new(vec![node(X, [1, 1], 0), node(Z, [0, 0], 0)]);
            assert!(tree.query_point(&point).is_empty());
        }
        // No cycle, but every Z-split node names the next one twice: 2^63
        // paths lead to the single leaf
        "shared_children" => {
            let mut nodes: Vec<WmoBspNode> = (0..63).map(|i| node(Z, [i + 1, i + 1], 0)).collect();
            nodes.push(node(X, [-1, -1], 1));
            let tree = BspTree::new(nodes);
            assert_eq!(tree.query_point(&point), vec![63]);
        }
        // A well-formed but degenerate tree: one long chain, as deep as i16
        // indices allow, queried on a thread with the default 2 MiB stack
        "deep_chain" => {
            let last = i16::MAX;
            let mut nodes: Vec<WmoBspNode> = (0..last).map(|i| node(X, [-1, i + 1], 0)).collect();
            nodes.push(node(X, [-1, -1], 1));
            let tree = BspTree::new(nodes);
            let leaves = std::thread::spawn(move || tree.query_point(&point))
                .join()
                .unwrap();
            assert_eq!(leaves, vec![last as usize]);
        }
        other => panic!("unknown case {other}"),
    }
}

#[test]
#[ignore = "helper: runs one case in a subprocess of bsp_queries_terminate"]
fn bsp_case() {
    run_case(&std::env::var(CASE_VAR).expect("case name"));
}

#[test]
fn bsp_queries_terminate() {
    let exe = std::env::current_exe().unwrap();
    let mut failures = Vec::new();

    for case in ["self_cycle", "two_cycle", "shared_children", "deep_chain"] {
        let mut child = Command::new(&exe)
            .args(["--exact", "bsp_case", "--ignored", "--test-threads", "1"])
            .env(CASE_VAR, case)
            .stdout(std::process::Stdio::null())
            .stderr(std::process::Stdio::null())
            .spawn()
            .unwrap();

        // A query over a handful of nodes takes no time: ten seconds means it
        // is not going to end
        let deadline = std::time::Instant::now() + std::time::Duration::from_secs(10);
        let status = loop {
            match child.try_wait().unwrap() {
                Some(status) => break Some(status),
                None if std::time::Instant::now() > deadline => {
                    child.kill().unwrap();
                    child.wait().unwrap();
                    break None;
                }
                None => std::thread::sleep(std::time::Duration::from_millis(20)),
            }
        };

        match status {
            Some(status) if status.success() => {}
            Some(status) => failures.push(format!("{case}: {status}")),
            None => failures.push(format!("{case}: still running after 10 s")),
        }
    }

    assert!(failures.is_empty(), "{failures:#?}");
}
