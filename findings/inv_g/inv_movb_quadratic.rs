//! Reproduction: `WmoParser::parse_root` copies one list out of MOVB for every
//! MOVV offset, and nothing stops all offsets from naming the same bytes: the
//! lists it builds grow with (MOVV size) x (MOVB size).
//!
//! NOT FIXED at the time of writing (see notes.md): this test documents the
//! behaviour and fails on the current code.
//!
//! Drop into `file-formats/graphics/wow-wmo/tests/`.

use std::alloc::{GlobalAlloc, Layout, System};
use std::io::Cursor;
use std::sync::atomic::{AtomicUsize, Ordering};

use wow_wmo::WmoParser;

/// Allocator that records the high-water mark of live heap bytes
struct PeakAlloc;

static LIVE: AtomicUsize = AtomicUsize::new(0);
static PEAK: AtomicUsize = AtomicUsize::new(0);

fn grow(size: usize) {
    let live = LIVE.fetch_add(size, Ordering::SeqCst) + size;
    PEAK.fetch_max(live, Ordering::SeqCst);
}

unsafe impl GlobalAlloc for PeakAlloc {
    unsafe fn alloc(&self, layout: Layout) -> *mut u8 {
        let ptr = unsafe { System.alloc(layout) };
        if !ptr.is_null() {
            grow(layout.size());
        }
        ptr
    }

    unsafe fn dealloc(&self, ptr: *mut u8, layout: Layout) {
        unsafe { System.dealloc(ptr, layout) };
        LIVE.fetch_sub(layout.size(), Ordering::SeqCst);
    }

    unsafe fn realloc(&self, ptr: *mut u8, layout: Layout, new_size: usize) -> *mut u8 {
        let new_ptr = unsafe { System.realloc(ptr, layout, new_size) };
        if !new_ptr.is_null() {
            LIVE.fetch_sub(layout.size(), Ordering::SeqCst);
            grow(new_size);
        }
        new_ptr
    }
}

#[global_allocator]
static GLOBAL: PeakAlloc = PeakAlloc;

fn chunk(out: &mut Vec<u8>, id: &[u8; 4], data: &[u8]) {
    let mut magic = *id;
    magic.reverse();
    out.extend_from_slice(&magic);
    out.extend_from_slice(&(data.len() as u32).to_le_bytes());
    out.extend_from_slice(data);
}

/// Root file with `offsets` MOVV entries, all zero, over `values` MOVB entries
/// that hold no 0xFFFF terminator
fn root_file(offsets: usize, values: usize) -> Vec<u8> {
    let mut file = Vec::new();
    chunk(&mut file, b"MVER", &17u32.to_le_bytes());
    chunk(&mut file, b"MOHD", &[0u8; 64]);
    chunk(&mut file, b"MOVV", &vec![0u8; offsets * 4]);
    chunk(&mut file, b"MOVB", &vec![0u8; values * 2]);
    file
}

fn peak_growth_parsing(file: &[u8]) -> usize {
    let before = LIVE.load(Ordering::SeqCst);
    PEAK.store(before, Ordering::SeqCst);
    let root = WmoParser::new()
        .parse_root(&mut Cursor::new(file))
        .expect("the crafted root file parses");
    let peak = PEAK.load(Ordering::SeqCst);
    drop(root);
    peak.saturating_sub(before)
}

#[test]
fn visible_block_lists_stay_proportional_to_the_file() {
    // Doubling the file must not quadruple what parsing it takes
    let small = root_file(2048, 4096);
    let large = root_file(4096, 8192);

    let small_growth = peak_growth_parsing(&small);
    let large_growth = peak_growth_parsing(&large);

    eprintln!(
        "{} byte file -> {} bytes of heap, {} byte file -> {} bytes of heap",
        small.len(),
        small_growth,
        large.len(),
        large_growth
    );

    assert!(
        large_growth < 64 * large.len(),
        "a {} byte root file took {} bytes of heap to parse ({}x)",
        large.len(),
        large_growth,
        large_growth / large.len()
    );
}
