//! Reproduction: the HET header's `hash_entry_size` (and the BET header's
//! `bet_hash_size`) reach `het_hash` unvalidated; widths below 8 bits make
//! the mask arithmetic underflow.
//!
//! Drop into `file-formats/archives/wow-mpq/tests/`.

use std::panic::catch_unwind;

use tempfile::TempDir;
use wow_mpq::crypto::{decrypt_block, encrypt_block, hash_string, hash_type, het_hash};
use wow_mpq::{Archive, ArchiveBuilder, FormatVersion};

/// Decrypt a table body, overwrite one header word, and encrypt it again
fn patch_table_word(body: &mut [u8], key: u32, word_index: usize, value: u32) {
    let full = (body.len() / 4) * 4;
    let mut words: Vec<u32> = body[..full]
        .chunks_exact(4)
        .map(|c| u32::from_le_bytes([c[0], c[1], c[2], c[3]]))
        .collect();

    decrypt_block(&mut words, key);
    words[word_index] = value;
    encrypt_block(&mut words, key);

    for (i, word) in words.iter().enumerate() {
        body[i * 4..(i + 1) * 4].copy_from_slice(&word.to_le_bytes());
    }
}

/// Build a V3 archive and overwrite the HET header's `hash_entry_size`
fn archive_with_het_hash_bits(dir: &TempDir, hash_bits: u32) -> std::path::PathBuf {
    let path = dir.path().join(format!("het_bits_{hash_bits}.mpq"));

    ArchiveBuilder::new()
        .version(FormatVersion::V3)
        .add_file_data(b"hello world".to_vec(), "a.txt")
        .build(&path)
        .unwrap();

    let (archive_offset, het_pos) = {
        let archive = Archive::open(&path).unwrap();
        (
            archive.archive_offset(),
            archive.header().het_table_pos.unwrap(),
        )
    };

    let mut bytes = std::fs::read(&path).unwrap();
    let table = (archive_offset + het_pos) as usize;
    assert_eq!(&bytes[table..table + 4], b"HET\x1A");
    let data_size = u32::from_le_bytes(bytes[table + 8..table + 12].try_into().unwrap()) as usize;

    // HetHeader word 3 is hash_entry_size
    let key = hash_string("(hash table)", hash_type::FILE_KEY);
    patch_table_word(
        &mut bytes[table + 12..table + 12 + data_size],
        key,
        3,
        hash_bits,
    );

    std::fs::write(&path, bytes).unwrap();
    path
}

#[test]
fn het_hash_is_total_over_hash_bits() {
    for hash_bits in (0..=72).chain([u32::MAX]) {
        let outcome = catch_unwind(|| het_hash("a.txt", hash_bits));
        assert!(
            outcome.is_ok(),
            "het_hash panicked for hash_bits={hash_bits}"
        );
    }
}

#[test]
fn het_hash_keeps_its_values_for_valid_widths() {
    // Widths the formula was already defined for must not change
    let (hash64, name64) = het_hash("a.txt", 64);
    assert_eq!(name64, (hash64 >> 56) as u8);

    let (hash48, name48) = het_hash("a.txt", 48);
    assert_eq!(hash48 >> 48, 0);
    assert_ne!(hash48 & (1 << 47), 0);
    assert_eq!(name48, (hash48 >> 40) as u8);

    let (hash8, name8) = het_hash("a.txt", 8);
    assert_eq!(hash8 >> 8, 0);
    assert_eq!(name8, hash8 as u8);
    assert_ne!(name8 & 0x80, 0);
}

#[test]
fn archive_with_narrow_het_hash_does_not_panic() {
    let dir = TempDir::new().unwrap();

    for hash_bits in [0u32, 1, 7, 65, u32::MAX] {
        let path = archive_with_het_hash_bits(&dir, hash_bits);

        let outcome = catch_unwind(|| {
            let Ok(mut archive) = Archive::open(&path) else {
                return;
            };
            if let Some(het) = archive.het_table() {
                let stored = het.header.hash_entry_size;
                assert_eq!(stored, hash_bits, "the patched header was not read back");
            }
            let _ = archive.find_file("a.txt");
            let _ = archive.read_file("a.txt");
            let _ = archive.list();
        });

        assert!(
            outcome.is_ok(),
            "archive with HET hash_entry_size={hash_bits} panicked"
        );
    }
}
