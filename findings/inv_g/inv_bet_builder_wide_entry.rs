//! Reproduction: `ArchiveBuilder` packs each BET entry into a single `u64`,
//! while the entry width it computes (position + size + compressed size +
//! flag index bits) exceeds 64 bits as soon as the archive holds a few MiB.
//!
//! Drop into `file-formats/archives/wow-mpq/tests/`.

use std::panic::{AssertUnwindSafe, catch_unwind};

use tempfile::TempDir;
use wow_mpq::{Archive, ArchiveBuilder, FormatVersion};

/// Deterministic bytes no compressor can shrink
fn incompressible(len: usize, mut seed: u64) -> Vec<u8> {
    let mut data = Vec::with_capacity(len);
    while data.len() < len {
        // xorshift64*
        seed ^= seed >> 12;
        seed ^= seed << 25;
        seed ^= seed >> 27;
        let word = seed.wrapping_mul(0x2545_F491_4F6C_DD1D);
        data.extend_from_slice(&word.to_le_bytes());
    }
    data.truncate(len);
    data
}

fn build_and_read_back(version: FormatVersion, files: &[(String, Vec<u8>)]) {
    let dir = TempDir::new().unwrap();
    let path = dir.path().join("wide_bet.mpq");

    let mut builder = ArchiveBuilder::new().version(version);
    for (name, data) in files {
        builder = builder.add_file_data(data.clone(), name);
    }

    let built = catch_unwind(AssertUnwindSafe(|| builder.build(&path)));
    let built = built.unwrap_or_else(|_| panic!("building a {version:?} archive panicked"));
    built.unwrap_or_else(|e| panic!("building a {version:?} archive failed: {e}"));

    let mut archive = Archive::open(&path).unwrap();

    let bet = archive.bet_table().expect("BET table is written and loads");
    let entry_bits = bet.header.table_entry_size;
    eprintln!("{version:?}: BET table_entry_size = {entry_bits} bits");

    // Every BET entry must describe the file it was written for
    for (name, data) in files {
        let info = archive
            .find_file(name)
            .unwrap()
            .unwrap_or_else(|| panic!("{name} not found in the {version:?} archive"));
        assert_eq!(info.file_size, data.len() as u64, "{name}: file size");
    }

    for (name, data) in files {
        let read = archive
            .read_file(name)
            .unwrap_or_else(|e| panic!("{name} does not read back from {version:?}: {e}"));
        assert!(
            read == *data,
            "{name}: content differs after the round trip"
        );
    }
}

#[test]
fn bet_entries_wider_than_64_bits_round_trip() {
    let files: Vec<(String, Vec<u8>)> = (0..3)
        .map(|i| {
            (
                format!("data\\blob{i}.bin"),
                incompressible(3 * 1024 * 1024, 0x9E37_79B9_7F4A_7C15 + i),
            )
        })
        .collect();

    for version in [FormatVersion::V3, FormatVersion::V4] {
        build_and_read_back(version, &files);
    }
}

#[test]
fn bet_entries_straddling_nine_bytes_round_trip() {
    // Entry widths between 58 and 64 bits make unaligned entries span nine
    // bytes; sweep sizes so that several such widths occur
    for shift in 14..=19 {
        let files: Vec<(String, Vec<u8>)> = (0..5)
            .map(|i| {
                (
                    format!("f{i}.bin"),
                    incompressible((1usize << shift) + 3 * i as usize, 77 + i),
                )
            })
            .collect();

        build_and_read_back(FormatVersion::V3, &files);
    }
}
