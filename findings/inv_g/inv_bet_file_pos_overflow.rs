//! Reproduction: positions taken from the archive (BET `file_pos`, up to 64
//! bits wide, and the HET/BET table positions in the header) are added to the
//! archive offset without an overflow check.
//!
//! Drop into `file-formats/archives/wow-mpq/tests/`.

use std::panic::catch_unwind;
use std::path::{Path, PathBuf};

use tempfile::TempDir;
use wow_mpq::crypto::{decrypt_block, encrypt_block, hash_string, hash_type};
use wow_mpq::{Archive, ArchiveBuilder, FormatVersion};

const FILE_NAMES: [&str; 8] = [
    "f0.txt", "f1.txt", "f2.txt", "f3.txt", "f4.txt", "f5.txt", "f6.txt", "f7.txt",
];

/// Bytes in front of the MPQ header, so that the archive offset is not zero
const PREFIX: usize = 0x200;

fn build(path: &Path, version: FormatVersion) {
    let mut builder = ArchiveBuilder::new().version(version);
    for (i, name) in FILE_NAMES.iter().enumerate() {
        builder = builder.add_file_data(vec![b'a' + i as u8; 100 + i], name);
    }
    builder.build(path).unwrap();
}

/// Decrypt a table body, let `patch` edit it, and encrypt it again
fn patch_table(body: &mut [u8], key: u32, patch: impl FnOnce(&mut [u8])) {
    let full = (body.len() / 4) * 4;
    let recode = |bytes: &mut [u8], code: fn(&mut [u32], u32)| {
        let mut words: Vec<u32> = bytes
            .chunks_exact(4)
            .map(|c| u32::from_le_bytes([c[0], c[1], c[2], c[3]]))
            .collect();
        code(&mut words, key);
        for (i, word) in words.iter().enumerate() {
            bytes[i * 4..(i + 1) * 4].copy_from_slice(&word.to_le_bytes());
        }
    };

    recode(&mut body[..full], decrypt_block);
    patch(&mut body[..full]);
    recode(&mut body[..full], encrypt_block);
}

/// V3 archive behind a 512-byte prefix whose BET table gives file 0 a 64-bit
/// position of `u64::MAX`
fn archive_with_huge_bet_file_pos(dir: &TempDir) -> PathBuf {
    let path = dir.path().join("bet_file_pos.mpq");
    build(&path, FormatVersion::V3);

    let bet_pos = {
        let archive = Archive::open(&path).unwrap();
        assert_eq!(archive.archive_offset(), 0);
        archive.header().bet_table_pos.unwrap() as usize
    };

    let mut bytes = std::fs::read(&path).unwrap();
    assert_eq!(&bytes[bet_pos..bet_pos + 4], b"BET\x1A");
    let data_size =
        u32::from_le_bytes(bytes[bet_pos + 8..bet_pos + 12].try_into().unwrap()) as usize;

    let key = hash_string("(block table)", hash_type::FILE_KEY);
    patch_table(
        &mut bytes[bet_pos + 12..bet_pos + 12 + data_size],
        key,
        |body| {
            let word = |body: &[u8], i: usize| {
                u32::from_le_bytes(body[i * 4..i * 4 + 4].try_into().unwrap()) as usize
            };
            let file_count = word(body, 1);
            let table_entry_size = word(body, 3);
            let flag_count = word(body, 18);
            assert!(file_count * table_entry_size >= 64);

            // bit_index_file_pos = 0, bit_count_file_pos = 64
            body[4 * 4..4 * 4 + 4].copy_from_slice(&0u32.to_le_bytes());
            body[9 * 4..9 * 4 + 4].copy_from_slice(&64u32.to_le_bytes());

            // File table follows the 19-word header and the flag array
            let file_table = 19 * 4 + flag_count * 4;
            body[file_table..file_table + 8].copy_from_slice(&u64::MAX.to_le_bytes());
        },
    );

    let mut prefixed = vec![0u8; PREFIX];
    prefixed.extend_from_slice(&bytes);
    std::fs::write(&path, prefixed).unwrap();
    path
}

/// Archive behind a 512-byte prefix whose header field at `field_offset`
/// (a 64-bit position or size) is `u64::MAX`
fn archive_with_huge_header_pos(
    dir: &TempDir,
    version: FormatVersion,
    field_offset: usize,
) -> PathBuf {
    let path = dir
        .path()
        .join(format!("header_{version:?}_{field_offset:X}.mpq"));
    build(&path, version);

    let mut bytes = std::fs::read(&path).unwrap();
    bytes[field_offset..field_offset + 8].copy_from_slice(&u64::MAX.to_le_bytes());

    let mut prefixed = vec![0u8; PREFIX];
    prefixed.extend_from_slice(&bytes);
    std::fs::write(&path, prefixed).unwrap();
    path
}

fn exercise(path: &Path) {
    let Ok(mut archive) = Archive::open(path) else {
        return;
    };
    assert_eq!(archive.archive_offset(), PREFIX as u64);

    for name in FILE_NAMES {
        let _ = archive.find_file(name);
        let _ = archive.read_file(name);
    }
    for index in 0..FILE_NAMES.len() {
        let _ = archive.read_file_by_indices(index, None);
    }
    let _ = archive.list();
    let _ = archive.get_info();
    let _ = archive.verify_signature();
}

#[test]
fn bet_file_pos_near_u64_max_does_not_panic() {
    let dir = TempDir::new().unwrap();
    let path = archive_with_huge_bet_file_pos(&dir);

    // The crafted entry must really be what the reader sees
    {
        let archive = Archive::open(&path).unwrap();
        let bet = archive.bet_table().expect("BET table loads");
        assert_eq!(bet.get_file_info(0).unwrap().file_pos, u64::MAX);
    }

    let outcome = catch_unwind(|| exercise(&path));
    assert!(
        outcome.is_ok(),
        "a BET file position of u64::MAX behind an archive offset panicked"
    );
}

#[test]
fn header_table_positions_near_u64_max_do_not_panic() {
    let dir = TempDir::new().unwrap();

    // Header: 0x20 hi-block table, 0x2C archive size, 0x34 BET table, 0x3C HET table
    for version in [FormatVersion::V3, FormatVersion::V4] {
        for field_offset in [0x20, 0x2C, 0x34, 0x3C] {
            let path = archive_with_huge_header_pos(&dir, version, field_offset);
            let outcome = catch_unwind(|| exercise(&path));
            assert!(
                outcome.is_ok(),
                "{version:?} header field 0x{field_offset:X} = u64::MAX behind an archive offset panicked"
            );
        }
    }
}
