//! Reproduction: the zlib and bzip2 decoders expand their whole input before
//! the announced size is compared with what came out, so a few hundred bytes
//! announce 4 KiB and expand to hundreds of MiB (or GiB: the bomb scales with
//! `BOMB_SIZE`, the compressed size barely moves).
//!
//! Drop into `file-formats/archives/wow-mpq/tests/`.

use std::alloc::{GlobalAlloc, Layout, System};
use std::io::Write;
use std::sync::atomic::{AtomicUsize, Ordering};

use wow_mpq::compression::{decompress, flags};

/// Allocator that records the high-water mark of live heap bytes
struct PeakAlloc;

static LIVE: AtomicUsize = AtomicUsize::new(0);
static PEAK: AtomicUsize = AtomicUsize::new(0);

fn grow(size: usize) {
    let live = LIVE.fetch_add(size, Ordering::SeqCst) + size;
    PEAK.fetch_max(live, Ordering::SeqCst);
}

unsafe impl GlobalAlloc for PeakAlloc {
    unsafe fn alloc(&self, layout: Layout) -> *mut u8 {
        let ptr = unsafe { System.alloc(layout) };
        if !ptr.is_null() {
            grow(layout.size());
        }
        ptr
    }

    unsafe fn dealloc(&self, ptr: *mut u8, layout: Layout) {
        unsafe { System.dealloc(ptr, layout) };
        LIVE.fetch_sub(layout.size(), Ordering::SeqCst);
    }

    unsafe fn realloc(&self, ptr: *mut u8, layout: Layout, new_size: usize) -> *mut u8 {
        let new_ptr = unsafe { System.realloc(ptr, layout, new_size) };
        if !new_ptr.is_null() {
            LIVE.fetch_sub(layout.size(), Ordering::SeqCst);
            grow(new_size);
        }
        new_ptr
    }
}

#[global_allocator]
static GLOBAL: PeakAlloc = PeakAlloc;

/// Bytes the bombs expand to
const BOMB_SIZE: usize = 128 * 1024 * 1024;
/// Size the crafted sector announces
const ANNOUNCED: usize = 4096;
/// Heap a decoder may take for a 4 KiB sector (bzip2 alone keeps a few MiB of state)
const HEAP_BUDGET: usize = 32 * 1024 * 1024;

fn feed_zeros<W: Write>(mut encoder: W) -> W {
    let chunk = vec![0u8; 1024 * 1024];
    for _ in 0..BOMB_SIZE / chunk.len() {
        encoder.write_all(&chunk).unwrap();
    }
    encoder
}

fn zlib_bomb() -> Vec<u8> {
    let encoder = flate2::write::ZlibEncoder::new(Vec::new(), flate2::Compression::best());
    feed_zeros(encoder).finish().unwrap()
}

fn bzip2_bomb() -> Vec<u8> {
    let encoder = bzip2::write::BzEncoder::new(Vec::new(), bzip2::Compression::best());
    feed_zeros(encoder).finish().unwrap()
}

/// Heap growth, in bytes, while `f` runs
fn heap_growth_during<T>(f: impl FnOnce() -> T) -> (T, usize) {
    let before = LIVE.load(Ordering::SeqCst);
    PEAK.store(before, Ordering::SeqCst);
    let value = f();
    let peak = PEAK.load(Ordering::SeqCst);
    (value, peak.saturating_sub(before))
}

fn check_bomb_is_refused(name: &str, bomb: &[u8], method: u8) -> Result<(), String> {
    eprintln!(
        "{name}: {} compressed bytes expand to {BOMB_SIZE}",
        bomb.len()
    );

    let (result, growth) = heap_growth_during(|| decompress(bomb, method, ANNOUNCED));

    eprintln!(
        "{name}: heap grew by {growth} bytes, result is_err={}",
        result.is_err()
    );
    if result.is_ok() {
        return Err(format!(
            "{name}: output {}x the announced size was accepted",
            BOMB_SIZE / ANNOUNCED
        ));
    }
    if growth >= HEAP_BUDGET {
        return Err(format!(
            "{name}: decoding a sector announced as {ANNOUNCED} bytes took {growth} bytes of heap"
        ));
    }
    Ok(())
}

// One test function: the allocator's counters are process-wide
#[test]
fn decoders_stop_at_the_announced_size() {
    let failures: Vec<String> = [
        check_bomb_is_refused("bzip2", &bzip2_bomb(), flags::BZIP2),
        check_bomb_is_refused("zlib", &zlib_bomb(), flags::ZLIB),
    ]
    .into_iter()
    .filter_map(Result::err)
    .collect();
    assert!(failures.is_empty(), "{failures:#?}");

    // Honest input still decodes
    let honest = vec![7u8; ANNOUNCED];
    for (method, packed) in [
        (flags::ZLIB, {
            let mut e = flate2::write::ZlibEncoder::new(Vec::new(), flate2::Compression::default());
            e.write_all(&honest).unwrap();
            e.finish().unwrap()
        }),
        (flags::BZIP2, {
            let mut e = bzip2::write::BzEncoder::new(Vec::new(), bzip2::Compression::default());
            e.write_all(&honest).unwrap();
            e.finish().unwrap()
        }),
    ] {
        assert_eq!(decompress(&packed, method, ANNOUNCED).unwrap(), honest);
    }
}
