//! Reproduction: a MAID chunk with zero sections must not make the tile
//! accessors panic.
//!
//! Drop into `file-formats/world-data/wow-wdt/tests/`.

use std::io::Cursor;
use std::panic::catch_unwind;

use wow_wdt::{WdtReader, version::WowVersion};

fn wdt_with_empty_maid() -> Vec<u8> {
    let mut buffer = Vec::new();

    buffer.extend(b"REVM");
    buffer.extend(&4u32.to_le_bytes());
    buffer.extend(&18u32.to_le_bytes());

    buffer.extend(b"DHPM");
    buffer.extend(&32u32.to_le_bytes());
    buffer.extend(&[0u8; 32]);

    buffer.extend(b"NIAM");
    buffer.extend(&((64 * 64 * 8) as u32).to_le_bytes());
    buffer.extend(&vec![0u8; 64 * 64 * 8]);

    // MAID chunk holding zero sections
    buffer.extend(b"DIAM");
    buffer.extend(&0u32.to_le_bytes());

    buffer
}

#[test]
fn empty_maid_chunk_does_not_panic() {
    let data = wdt_with_empty_maid();

    let outcome = catch_unwind(move || {
        let mut reader = WdtReader::new(Cursor::new(data), WowVersion::BfA);
        match reader.read() {
            // Rejecting the chunk is an acceptable outcome
            Err(_) => {}
            Ok(wdt) => {
                let _ = wdt.count_existing_tiles();
                let _ = wdt.get_tile(0, 0);
                let _ = wdt.validate();
                if let Some(ref maid) = wdt.maid {
                    let _ = maid.count_existing_tiles();
                    let _ = maid.get_root_adt_ids();
                    let _ = maid.has_tile(0, 0);
                }
            }
        }
    });

    assert!(
        outcome.is_ok(),
        "reading a WDT with an empty MAID chunk panicked"
    );
}

#[test]
fn maid_chunk_without_sections_has_no_tiles() {
    let outcome = catch_unwind(|| {
        let maid = wow_wdt::chunks::MaidChunk::with_section_count(0);
        assert_eq!(maid.count_existing_tiles(), 0);
        assert!(maid.get_root_adt_ids().is_empty());
        assert!(!maid.has_tile(0, 0));
    });

    assert!(
        outcome.is_ok(),
        "accessors of a MAID chunk without sections panicked"
    );
}
