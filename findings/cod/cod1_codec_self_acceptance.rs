//! Property: everything the compressor emits (for inputs up to the largest
//! configurable sector / single-unit file) is accepted by the decompressor
//! under the default safety limits.

use tempfile::TempDir;
use wow_mpq::compression::flags;
use wow_mpq::{Archive, ArchiveBuilder, ListfileOption};

const KIB: usize = 1024;
const MIB: usize = 1024 * 1024;

/// Level (a): raw codec. `compress()` output (method byte + payload) fed back
/// into `decompress()` exactly as the archive reader does.
fn codec_roundtrip(data: &[u8], method: u8) -> Result<(), String> {
    let packed = wow_mpq::compress(data, method).map_err(|e| format!("compress: {e}"))?;
    if packed == data {
        return Ok(()); // stored raw, nothing to decompress
    }
    assert_eq!(packed[0], method, "method byte prefix");
    let ratio = data.len() / (packed.len() - 1);
    match wow_mpq::decompress(&packed[1..], packed[0], data.len()) {
        Ok(out) if out == data => Ok(()),
        Ok(_) => Err("decompressed bytes differ".into()),
        Err(e) => Err(format!(
            "{} -> {} bytes (ratio {}:1): decompress rejected own output: {e}",
            data.len(),
            packed.len() - 1,
            ratio
        )),
    }
}

#[test]
fn a_compress_then_decompress_constant_input() {
    let mut failures = Vec::new();
    for &(name, method) in &[
        ("zlib", flags::ZLIB),
        ("bzip2", flags::BZIP2),
        ("lzma", flags::LZMA),
        ("sparse", flags::SPARSE),
    ] {
        for &size in &[
            64 * KIB,
            128 * KIB,
            256 * KIB,
            512 * KIB,
            MIB,
            2 * MIB,
            4 * MIB,
        ] {
            for &fill in &[0u8, 0x41] {
                let data = vec![fill; size];
                if let Err(e) = codec_roundtrip(&data, method) {
                    failures.push(format!("{name} fill=0x{fill:02X} size={size}: {e}"));
                }
            }
        }
    }
    assert!(
        failures.is_empty(),
        "decompressor rejected compressor output in {} cases:\n{}",
        failures.len(),
        failures.join("\n")
    );
}

fn build_and_read(
    data: &[u8],
    method: u8,
    block_size: u16,
) -> Result<Vec<u8>, String> {
    let dir = TempDir::new().unwrap();
    let path = dir.path().join("t.mpq");
    ArchiveBuilder::new()
        .block_size(block_size)
        .listfile_option(ListfileOption::None)
        .add_file_data_with_options(data.to_vec(), "big.bin", method, false, 0)
        .build(&path)
        .map_err(|e| format!("build: {e}"))?;
    let mut a = Archive::open(&path).map_err(|e| format!("open: {e}"))?;
    a.read_file("big.bin").map_err(|e| format!("read_file: {e}"))
}

/// Level (b1): single-unit file. block_size 12 => 2 MiB sectors, so a 2 MiB
/// file is stored as one compressed unit.
#[test]
fn b_archive_single_unit_constant_file() {
    let mut failures = Vec::new();
    for &(name, method) in &[
        ("zlib", flags::ZLIB),
        ("bzip2", flags::BZIP2),
        ("lzma", flags::LZMA),
    ] {
        for &(size, bs) in &[(MIB, 11u16), (2 * MIB, 12), (4 * MIB, 13)] {
            let data = vec![0x41u8; size];
            match build_and_read(&data, method, bs) {
                Ok(out) if out == data => {}
                Ok(out) => failures.push(format!(
                    "{name} size={size} block_size={bs}: read_file returned WRONG DATA \
                     (len {}, first byte {:#04x})",
                    out.len(),
                    out.first().copied().unwrap_or(0)
                )),
                Err(e) => failures.push(format!("{name} size={size} block_size={bs}: {e}")),
            }
        }
    }
    assert!(
        failures.is_empty(),
        "archive written by ArchiveBuilder not readable by Archive:\n{}",
        failures.join("\n")
    );
}

/// First sector: mildly compressible pseudo-text (ratio well below any limit),
/// remaining sectors: constant bytes (ratio above the limit). Having one
/// ordinarily-compressed sector keeps the file on the normal "compressed,
/// sectored" path of builder and reader.
fn mixed(size: usize, sector: usize) -> Vec<u8> {
    let mut v = vec![0x41u8; size];
    let mut x: u32 = 1;
    for b in v[..sector].iter_mut() {
        x = x.wrapping_mul(1664525).wrapping_add(1013904223);
        *b = b'a' + ((x >> 24) % 16) as u8;
    }
    v
}

/// Level (b2): sectored file with a large sector size (each constant sector
/// compresses beyond the ratio limit). 1 MiB / 2 MiB sectors.
#[test]
fn b_archive_sectored_file_with_constant_sectors() {
    let mut failures = Vec::new();
    for &(name, method) in &[
        ("zlib", flags::ZLIB),
        ("bzip2", flags::BZIP2),
        ("lzma", flags::LZMA),
    ] {
        for &(size, bs) in &[(4 * MIB, 11u16), (8 * MIB, 12)] {
            let data = mixed(size, 512usize << bs);
            match build_and_read(&data, method, bs) {
                Ok(out) if out == data => {}
                Ok(out) => {
                    let bad = out.iter().zip(&data).filter(|(a, b)| a != b).count();
                    failures.push(format!(
                        "{name} size={size} block_size={bs}: read_file returned Ok with WRONG DATA \
                         (len {}, {} differing bytes, first byte {:#04x})",
                        out.len(),
                        bad,
                        out.first().copied().unwrap_or(0)
                    ))
                }
                Err(e) => failures.push(format!("{name} size={size} block_size={bs}: {e}")),
            }
        }
    }
    assert!(
        failures.is_empty(),
        "archive written by ArchiveBuilder not readable by Archive:\n{}",
        failures.join("\n")
    );
}

/// bzip2 with 64 KiB sectors (`block_size(7)`, listed in the builder docs as a
/// common value "good for large files"): a constant 64 KiB sector compresses
/// to 43 bytes (1524:1) and is rejected on read.
#[test]
fn b_archive_bzip2_64k_sectors() {
    // sectored: 4 sectors of 64 KiB (first one ordinary, three constant)
    let mut data = mixed(256 * KIB, 64 * KIB);
    data[64 * KIB..].fill(0xFF);
    let out = build_and_read(&data, flags::BZIP2, 7).expect("read_file");
    assert!(
        out == data,
        "sectored bzip2/64KiB: read_file returned Ok with wrong data: byte[65536]={:#04x}, {} differing bytes",
        out[64 * KIB],
        out.iter().zip(&data).filter(|(a, b)| a != b).count()
    );
    // single unit: exactly one 64 KiB sector
    let data = vec![0xFFu8; 64 * KIB];
    let out = build_and_read(&data, flags::BZIP2, 7).expect("read_file single unit");
    assert!(out == data);
}

/// Default builder settings (16 KiB sectors, zlib): stays far below limits.
#[test]
fn b_archive_default_sector_size_control() {
    let data = vec![0x41u8; 2 * MIB];
    let out = build_and_read(&data, flags::ZLIB, 5).expect("default sector size must work");
    assert_eq!(out, data);
}

/// Every sector constant (8 MiB of 0x41, 2 MiB sectors). On current code this
/// fails because of this defect (read_file returns zeros). With fix_1 alone
/// every sector falls back to "stored", which runs into the separate defect
/// demonstrated in cod4_uncompressed_multisector.rs (offset table written for
/// a file without COMPRESS flag); it passes with fix_1 + fix_4.
#[test]
fn b_archive_sectored_all_constant_file() {
    let data = vec![0x41u8; 8 * MIB];
    let out = build_and_read(&data, flags::ZLIB, 12).expect("read_file");
    assert_eq!(out.len(), data.len(), "length");
    assert!(
        out == data,
        "wrong data: first byte {:#04x}, {} differing bytes",
        out[0],
        out.iter().zip(&data).filter(|(a, b)| a != b).count()
    );
}
