//! Found while triaging item 1 (not in the original list).
//!
//! A file larger than one sector whose sectors are all stored raw (compression
//! disabled, or data incompressible so `compress()` returns the input) is
//! written by `ArchiveBuilder` WITH a sector offset table but WITHOUT the
//! COMPRESS flag. `Archive::read_file` (correctly, per the MPQ format) assumes
//! files without COMPRESS/IMPLODE have no sector offset table, and returns the
//! offset table bytes followed by the data.

use tempfile::TempDir;
use wow_mpq::compression::flags;
use wow_mpq::{Archive, ArchiveBuilder, ListfileOption};

fn pseudo_random(n: usize) -> Vec<u8> {
    let mut x: u32 = 12345;
    (0..n)
        .map(|_| {
            x = x.wrapping_mul(1664525).wrapping_add(1013904223);
            (x >> 24) as u8
        })
        .collect()
}

fn roundtrip(data: &[u8], method: u8, encrypt: bool) -> Vec<u8> {
    let dir = TempDir::new().unwrap();
    let path = dir.path().join("t.mpq");
    ArchiveBuilder::new() // default: 16 KiB sectors
        .listfile_option(ListfileOption::None)
        .add_file_data_with_options(data.to_vec(), "f.bin", method, encrypt, 0)
        .build(&path)
        .unwrap();
    let mut a = Archive::open(&path).unwrap();
    a.read_file("f.bin").unwrap()
}

#[test]
fn incompressible_multisector_file_default_settings() {
    let data = pseudo_random(40_000); // 3 sectors
    let out = roundtrip(&data, flags::ZLIB, false);
    assert_eq!(out.len(), data.len(), "length");
    assert!(out == data, "content differs");
}

#[test]
fn stored_multisector_file() {
    let data = vec![b'a'; 40_000];
    let out = roundtrip(&data, 0, false);
    assert_eq!(out.len(), data.len(), "length");
    assert!(out == data, "content differs");
}

#[test]
fn stored_encrypted_multisector_file() {
    let data = pseudo_random(40_000);
    let out = roundtrip(&data, 0, true);
    assert_eq!(out.len(), data.len(), "length");
    assert!(out == data, "content differs");
}
