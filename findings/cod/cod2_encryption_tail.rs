//! MPQ format rule (StormLib `EncryptMpqBlock` / `DecryptMpqBlock`): only whole
//! 32-bit words of a block are encrypted; the trailing `len % 4` bytes are
//! stored as-is.

use std::fs;
use tempfile::TempDir;
use wow_mpq::crypto::ENCRYPTION_TABLE;
use wow_mpq::{Archive, ArchiveBuilder, ListfileOption, hash_string, hash_type};

/// Independent reference implementation of the MPQ block cipher operating on a
/// byte buffer the way a conformant writer does: `len >> 2` words, tail intact.
fn reference_encrypt(data: &mut [u8], mut key: u32) {
    let mut seed: u32 = 0xEEEE_EEEE;
    for w in data.chunks_exact_mut(4) {
        seed = seed.wrapping_add(ENCRYPTION_TABLE[0x400 + (key & 0xFF) as usize]);
        let plain = u32::from_le_bytes([w[0], w[1], w[2], w[3]]);
        let enc = plain ^ key.wrapping_add(seed);
        w.copy_from_slice(&enc.to_le_bytes());
        key = ((!key) << 0x15).wrapping_add(0x1111_1111) | (key >> 0x0B);
        seed = plain
            .wrapping_add(seed)
            .wrapping_add(seed << 5)
            .wrapping_add(3);
    }
    // chunks_exact_mut leaves the remainder untouched: that IS the format rule.
}

const NAME: &str = "tail.bin";

fn build(plain: &[u8]) -> (TempDir, std::path::PathBuf, u64) {
    let dir = TempDir::new().unwrap();
    let path = dir.path().join("t.mpq");
    ArchiveBuilder::new()
        .listfile_option(ListfileOption::None)
        // compression = 0 (stored), encrypt = true, no FIX_KEY
        .add_file_data_with_options(plain.to_vec(), NAME, 0, true, 0)
        .build(&path)
        .unwrap();
    let a = Archive::open(&path).unwrap();
    let info = a.find_file(NAME).unwrap().expect("file present");
    assert!(info.is_encrypted());
    assert!(!info.is_compressed());
    assert_eq!(info.file_size as usize, plain.len());
    assert_eq!(info.compressed_size as usize, plain.len());
    (dir, path, info.file_pos)
}

/// The builder must store what a conformant writer stores.
#[test]
fn builder_leaves_tail_bytes_unencrypted() {
    for plain in [&b"ABCDE"[..], &b"ABCDEFG"[..], &b"0123456789"[..]] {
        let (_d, path, pos) = build(plain);
        let raw = fs::read(&path).unwrap();
        let stored = &raw[pos as usize..pos as usize + plain.len()];

        let mut expected = plain.to_vec();
        reference_encrypt(&mut expected, hash_string(NAME, hash_type::FILE_KEY));

        let whole = plain.len() / 4 * 4;
        // whole words agree with the reference cipher (sanity: key + cipher are right)
        assert_eq!(&stored[..whole], &expected[..whole], "whole-word part");
        // the tail must be plaintext
        assert_eq!(
            &stored[whole..],
            &plain[whole..],
            "len={}: tail bytes stored by ArchiveBuilder {:02X?} != plaintext tail {:02X?} \
             (conformant encoding {:02X?}, stored {:02X?})",
            plain.len(),
            &stored[whole..],
            &plain[whole..],
            expected,
            stored
        );
    }
}

/// The reader must decode what a conformant writer stores.
#[test]
fn reader_accepts_conformant_tail() {
    for plain in [&b"ABCDE"[..], &b"ABCDEFG"[..], &b"0123456789"[..]] {
        let (_d, path, pos) = build(plain);

        // Replace the stored bytes by the format-conformant encoding.
        let mut raw = fs::read(&path).unwrap();
        let mut conformant = plain.to_vec();
        reference_encrypt(&mut conformant, hash_string(NAME, hash_type::FILE_KEY));
        raw[pos as usize..pos as usize + plain.len()].copy_from_slice(&conformant);
        fs::write(&path, &raw).unwrap();

        let mut a = Archive::open(&path).unwrap();
        let got = a.read_file(NAME).unwrap();
        assert_eq!(
            got, plain,
            "len={}: read_file of conformant archive returned {:02X?}, expected {:02X?}",
            plain.len(),
            got,
            plain
        );
    }
}

/// Same rule on the public helper.
#[test]
fn decrypt_file_data_leaves_tail_untouched() {
    let key = hash_string(NAME, hash_type::FILE_KEY);
    let plain = b"ABCDEFG";
    let mut buf = plain.to_vec();
    reference_encrypt(&mut buf, key);
    wow_mpq::decrypt_file_data(&mut buf, key);
    assert_eq!(&buf[..], &plain[..]);
}
