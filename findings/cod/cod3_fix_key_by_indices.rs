//! Format rule for MPQ_FILE_FIX_KEY: key = (base_key + (u32)file_pos) ^ file_size.
//! `Archive::read_file` and `Archive::read_file_by_indices` must derive the
//! same key for the same block.

use tempfile::TempDir;
use wow_mpq::{Archive, ArchiveBuilder, ListfileOption};

/// `read_file_by_indices` derives the base key from the synthetic name
/// `file_{hash_index:08}.dat`. Find a name of that shape that really lands in
/// hash slot `hash_index`, so the base key is identical on both paths and the
/// only variable left is the FIX_KEY adjustment.
fn build_self_named(
    fix_key: bool,
    data: &[u8],
) -> (TempDir, std::path::PathBuf, String, usize, usize) {
    for h in 0..256usize {
        let name = format!("file_{h:08}.dat");
        let dir = TempDir::new().unwrap();
        let path = dir.path().join("t.mpq");
        // A leading 1000-byte plain file moves the encrypted file away from
        // offset 32 so that the position term of the FIX_KEY formula matters.
        let b = ArchiveBuilder::new()
            .listfile_option(ListfileOption::None)
            .add_file_data_with_options(vec![0x55u8; 1000], "pad.bin", 0, false, 0);
        let b = if fix_key {
            b.add_file_data_with_encryption(data.to_vec(), &name, 0, true, 0)
        } else {
            b.add_file_data_with_options(data.to_vec(), &name, 0, true, 0)
        };
        b.build(&path).unwrap();
        let a = Archive::open(&path).unwrap();
        let info = a.find_file(&name).unwrap().unwrap();
        if info.hash_index == h {
            assert!(info.is_encrypted());
            assert_eq!(info.has_fix_key(), fix_key);
            assert_eq!(info.file_pos, 32 + 1000);
            return (dir, path, name, info.hash_index, info.block_index);
        }
    }
    panic!("no self-referential anonymous name found");
}

const DATA: &[u8] = b"sixteen byte msg"; // multiple of 4: keeps the tail rule out of this test

#[test]
fn control_encrypted_without_fix_key_agrees() {
    let (_d, path, name, hi, bi) = build_self_named(false, DATA);
    let mut a = Archive::open(&path).unwrap();
    assert_eq!(a.read_file(&name).unwrap(), DATA);
    assert_eq!(a.read_file_by_indices(hi, Some(bi)).unwrap(), DATA);
}

#[test]
fn fix_key_file_reads_identically_through_both_apis() {
    let (_d, path, name, hi, bi) = build_self_named(true, DATA);
    let mut a = Archive::open(&path).unwrap();
    let by_name = a.read_file(&name).unwrap();
    assert_eq!(by_name, DATA, "read_file");
    let by_idx = a.read_file_by_indices(hi, Some(bi)).unwrap();
    assert_eq!(
        by_idx, DATA,
        "read_file_by_indices({hi}, Some({bi})) returned {:02X?}, read_file returned {:02X?}",
        by_idx, by_name
    );
}
