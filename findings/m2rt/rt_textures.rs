//! Round-trip of M2 texture filenames through `M2Model::write` -> `M2Model::parse`.

use std::io::Cursor;

use wow_m2::chunks::material::{M2BlendMode, M2Material, M2RenderFlags};
use wow_m2::chunks::texture::{M2Texture, M2TextureFlags, M2TextureType};
use wow_m2::chunks::vertex::M2Vertex;
use wow_m2::common::{C2Vector, C3Vector, FixedString, M2Array, M2ArrayString};
use wow_m2::header::M2Header;
use wow_m2::{M2Model, M2Version};

const NAMES: [&str; 3] = [
    "Creature\\Murloc\\MurlocSkinBlue.blp",
    "",
    "Item\\ObjectComponents\\Weapon\\Sword_2H_Claymore_B_01.blp",
];

/// Build a filename in the same shape `M2ArrayString::parse` produces:
/// `string.data` without the terminator, `array.count` including it.
/// `offset` is whatever the caller has lying around (0 for a texture made from
/// scratch, the offset in the source file for a texture taken from a parsed model).
fn filename(s: &str, offset: u32) -> M2ArrayString {
    if s.is_empty() {
        return M2ArrayString {
            string: FixedString { data: Vec::new() },
            array: M2Array::new(0, 0),
        };
    }
    M2ArrayString {
        string: FixedString {
            data: s.as_bytes().to_vec(),
        },
        array: M2Array::new(s.len() as u32 + 1, offset),
    }
}

fn model(version: M2Version, name: Option<&str>, filename_offset: u32, vertices: u32) -> M2Model {
    let mut header = M2Header::new(version);
    // `M2Header::parse` reads this field for 256..=263; keep the header consistent.
    if version.to_header_version() <= 263 {
        header.playable_animation_lookup = Some(M2Array::new(0, 0));
    }

    let mut textures = vec![
        M2Texture::new(M2TextureType::Hardcoded, filename(NAMES[0], filename_offset)),
        M2Texture::new(M2TextureType::Body, filename(NAMES[1], 0)),
        M2Texture::new(M2TextureType::Hardcoded, filename(NAMES[2], filename_offset)),
    ];
    textures[0].flags = M2TextureFlags::WRAP_X | M2TextureFlags::WRAP_Y;
    textures[2].flags = M2TextureFlags::WRAP_Y;

    let mut m = M2Model {
        header,
        name: name.map(str::to_string),
        textures,
        // Sections the writer places after the textures: they detect a drifting offset.
        materials: vec![
            M2Material {
                flags: M2RenderFlags::UNLIT | M2RenderFlags::NO_ZBUFFER,
                blend_mode: M2BlendMode::ALPHA,
            },
            M2Material {
                flags: M2RenderFlags::DEPTH_WRITE,
                blend_mode: M2BlendMode::MOD2X,
            },
        ],
        ..M2Model::default()
    };
    for i in 0..vertices {
        m.vertices.push(M2Vertex {
            position: C3Vector {
                x: i as f32 + 0.5,
                y: -(i as f32),
                z: 100.0 + i as f32,
            },
            bone_weights: [255, 0, 0, 0],
            bone_indices: [0, 0, 0, 0],
            normal: C3Vector {
                x: 0.0,
                y: 1.0,
                z: 0.0,
            },
            tex_coords: C2Vector {
                x: 0.25,
                y: 0.75 + i as f32,
            },
            tex_coords2: None,
        });
    }
    m.raw_data.texture_lookup_table = vec![2, 0, 1, 0xBEEF];
    m.raw_data.bone_lookup_table = vec![7, 8, 9];
    m
}

fn write(m: &M2Model) -> Vec<u8> {
    let mut cur = Cursor::new(Vec::new());
    m.write(&mut cur).expect("write");
    cur.into_inner()
}

fn check(version: M2Version, name: Option<&str>, filename_offset: u32) {
    check_with_vertices(version, name, filename_offset, 0);
}

fn check_with_vertices(version: M2Version, name: Option<&str>, filename_offset: u32, vertices: u32) {
    let original = model(version, name, filename_offset, vertices);
    let bytes = write(&original);
    let parsed = M2Model::parse(&mut Cursor::new(bytes.clone()))
        .unwrap_or_else(|e| panic!("parse of written bytes failed: {e:?}"));

    assert_eq!(parsed.header.version, version.to_header_version());
    assert_eq!(parsed.name.as_deref(), name, "model name");
    assert_eq!(parsed.vertices.len(), original.vertices.len(), "vertex count");
    for (i, (a, b)) in original.vertices.iter().zip(&parsed.vertices).enumerate() {
        assert_eq!(b.position, a.position, "vertex {i} position");
        assert_eq!(b.normal, a.normal, "vertex {i} normal");
        assert_eq!(b.tex_coords, a.tex_coords, "vertex {i} tex coords");
    }
    assert_eq!(parsed.textures.len(), original.textures.len(), "texture count");
    for (i, (a, b)) in original.textures.iter().zip(&parsed.textures).enumerate() {
        assert_eq!(b.texture_type, a.texture_type, "texture {i} type");
        assert_eq!(b.flags, a.flags, "texture {i} flags");
        assert_eq!(
            b.filename.string.to_string_lossy(),
            a.filename.string.to_string_lossy(),
            "texture {i} filename"
        );
        assert_eq!(
            b.filename.array.count, a.filename.array.count,
            "texture {i} filename length"
        );
    }
    assert_eq!(
        format!("{:?}", parsed.materials),
        format!("{:?}", original.materials),
        "materials (section following the textures)"
    );
    assert_eq!(
        parsed.raw_data.bone_lookup_table, original.raw_data.bone_lookup_table,
        "bone lookup table"
    );
    assert_eq!(
        parsed.raw_data.texture_lookup_table, original.raw_data.texture_lookup_table,
        "texture lookup table"
    );

    let again = write(&parsed);
    assert_eq!(again, bytes, "second write is not byte-identical");
}

// Textures created from scratch: nobody has assigned a file offset yet.
#[test]
fn fresh_textures_vanilla() {
    check(M2Version::Vanilla, Some("RtTexV"), 0);
}
#[test]
fn fresh_textures_tbc() {
    check(M2Version::TBC, Some("RtTexT"), 0);
}
#[test]
fn fresh_textures_wotlk() {
    check(M2Version::WotLK, Some("RtTexW"), 0);
}

// Textures whose `array.offset` is non-zero, as in every model that came out of `parse`.
#[test]
fn offset_textures_vanilla() {
    check(M2Version::Vanilla, Some("RtTexV"), 0x1234);
}
#[test]
fn offset_textures_tbc() {
    check(M2Version::TBC, Some("RtTexT"), 0x1234);
}
#[test]
fn offset_textures_wotlk() {
    check(M2Version::WotLK, Some("RtTexW"), 0x1234);
}

// Same, with no model name (textures are the first thing in the data section).
#[test]
fn offset_textures_wotlk_unnamed() {
    check(M2Version::WotLK, None, 0x1234);
}

// Same, with enough data in front of the textures that the texture table starts
// beyond `size_of::<M2Header>()` (376 on x86_64) in the written file.
#[test]
fn offset_textures_after_vertices_vanilla() {
    check_with_vertices(M2Version::Vanilla, Some("RtTexV"), 0x1234, 4);
}
#[test]
fn offset_textures_after_vertices_wotlk() {
    check_with_vertices(M2Version::WotLK, Some("RtTexW"), 0x1234, 4);
}

// The shape used by the crate's own unit test `test_legacy_model_texture_handling`:
// the terminator is part of `string.data`, `array.count == string.data.len()`.
#[test]
fn terminator_inside_data_tbc() {
    let mut original = model(M2Version::TBC, Some("RtTexT"), 0, 0);
    for t in &mut original.textures {
        if !t.filename.string.data.is_empty() {
            t.filename.string.data.push(0);
            assert_eq!(t.filename.array.count as usize, t.filename.string.data.len());
        }
    }
    let bytes = write(&original);
    let parsed = M2Model::parse(&mut Cursor::new(bytes.clone())).expect("parse");
    for (i, (a, b)) in original.textures.iter().zip(&parsed.textures).enumerate() {
        assert_eq!(
            b.filename.string.to_string_lossy(),
            a.filename.string.to_string_lossy().trim_end_matches('\0'),
            "texture {i} filename"
        );
        assert_eq!(b.filename.array.count, a.filename.array.count, "texture {i} length");
    }
    assert_eq!(
        format!("{:?}", parsed.materials),
        format!("{:?}", original.materials),
        "materials (section following the textures)"
    );
    assert_eq!(
        parsed.raw_data.texture_lookup_table,
        original.raw_data.texture_lookup_table
    );
    assert_eq!(write(&parsed), bytes, "second write is not byte-identical");
}
