//! Round-trip of M2 event tracks (ranges + timestamps) through
//! `M2Model::write` -> `M2Model::parse`.

use std::io::Cursor;

use wow_m2::chunks::event::M2Event;
use wow_m2::common::M2Array;
use wow_m2::header::M2Header;
use wow_m2::model::EventRaw;
use wow_m2::{M2Model, M2Version};

fn le_bytes(values: &[u32]) -> Vec<u8> {
    values.iter().flat_map(|v| v.to_le_bytes()).collect()
}

struct Ev {
    id: [u8; 4],
    data: u32,
    bone: i16,
    pos: [f32; 3],
    global_sequence: i16,
    /// (start, end) pairs; 8 bytes each on disk
    ranges: Vec<(u32, u32)>,
    /// 4 bytes each on disk
    times: Vec<u32>,
}

/// Build a model the way `M2Model::parse` hands it out: every event carries
/// `M2Array { count, offset-in-source-file }` and `raw_data.event_data` carries the bytes
/// that lived at those offsets.
fn model(version: M2Version, evs: &[Ev]) -> M2Model {
    let mut header = M2Header::new(version);
    // `M2Header::parse` reads this field for 256..=263; keep the header consistent.
    if version.to_header_version() <= 263 {
        header.playable_animation_lookup = Some(M2Array::new(0, 0));
    }
    let mut m = M2Model {
        header,
        name: Some("RtEvents".to_string()),
        ..M2Model::default()
    };

    let mut fake_source_offset = 0x5000u32;
    for (i, e) in evs.iter().enumerate() {
        let mut ev = M2Event::new(e.id, e.bone);
        ev.data = e.data;
        ev.position = e.pos;
        ev.global_sequence = e.global_sequence;

        let ranges: Vec<u8> = e
            .ranges
            .iter()
            .flat_map(|&(a, b)| le_bytes(&[a, b]))
            .collect();
        let timestamps = le_bytes(&e.times);

        let mut raw = EventRaw {
            event_index: i,
            ..EventRaw::default()
        };
        if !ranges.is_empty() {
            ev.ranges = M2Array::new(e.ranges.len() as u32, fake_source_offset);
            raw.original_ranges_offset = fake_source_offset;
            fake_source_offset += 0x100;
        }
        if !timestamps.is_empty() {
            ev.times = M2Array::new(e.times.len() as u32, fake_source_offset);
            raw.original_timestamps_offset = fake_source_offset;
            fake_source_offset += 0x100;
        }
        raw.ranges = ranges;
        raw.timestamps = timestamps;

        m.events.push(ev);
        if !raw.ranges.is_empty() || !raw.timestamps.is_empty() {
            m.raw_data.event_data.push(raw);
        }
    }
    // A section the writer emits after the events.
    m.global_sequences = vec![1111, 2222];
    m
}

/// Offset-independent description of the events and their track data.
fn describe(m: &M2Model) -> Vec<String> {
    m.events
        .iter()
        .enumerate()
        .map(|(i, e)| {
            let raw = m.raw_data.event_data.iter().find(|r| r.event_index == i);
            let ranges = raw.map(|r| r.ranges.clone()).unwrap_or_default();
            let times = raw.map(|r| r.timestamps.clone()).unwrap_or_default();
            format!(
                "{} data={} bone={} unk={} pos={:?} interp={} gs={} ranges[{}]={:?} times[{}]={:?}",
                e.identifier_str(),
                e.data,
                e.bone_index,
                e.unknown,
                e.position,
                e.interp_type,
                e.global_sequence,
                e.ranges.count,
                ranges,
                e.times.count,
                times
            )
        })
        .collect()
}

fn write(m: &M2Model) -> Vec<u8> {
    let mut cur = Cursor::new(Vec::new());
    m.write(&mut cur).expect("write");
    cur.into_inner()
}

fn check(version: M2Version, evs: &[Ev]) {
    let original = model(version, evs);
    let bytes = write(&original);
    let parsed = M2Model::parse(&mut Cursor::new(bytes.clone()))
        .unwrap_or_else(|e| panic!("parse of written bytes failed: {e:?}"));

    assert_eq!(parsed.name, original.name, "model name");
    assert_eq!(parsed.global_sequences, original.global_sequences);
    assert_eq!(parsed.events.len(), original.events.len(), "event count");
    let (want, got) = (describe(&original), describe(&parsed));
    for (i, (w, g)) in want.iter().zip(&got).enumerate() {
        assert_eq!(g, w, "event {i}");
    }

    let again = write(&parsed);
    assert_eq!(again, bytes, "second write is not byte-identical");
}

fn times_only() -> Vec<Ev> {
    vec![
        Ev {
            id: *b"$CAH",
            data: 17,
            bone: 3,
            pos: [1.0, 2.0, 3.0],
            global_sequence: -1,
            ranges: vec![],
            times: vec![100, 200, 300],
        },
        Ev {
            id: *b"$HIT",
            data: 0,
            bone: 9,
            pos: [-1.5, 0.0, 4.25],
            global_sequence: 1,
            ranges: vec![],
            times: vec![4242],
        },
    ]
}

fn with_ranges() -> Vec<Ev> {
    vec![
        Ev {
            id: *b"$CAH",
            data: 17,
            bone: 3,
            pos: [1.0, 2.0, 3.0],
            global_sequence: -1,
            ranges: vec![(0, 1), (1, 3)],
            times: vec![100, 200, 300],
        },
        Ev {
            id: *b"$HIT",
            data: 0,
            bone: 9,
            pos: [-1.5, 0.0, 4.25],
            global_sequence: 1,
            ranges: vec![(0, 0)],
            times: vec![4242],
        },
        Ev {
            id: *b"$FSD",
            data: 5,
            bone: 0,
            pos: [0.0, 0.0, 0.0],
            global_sequence: -1,
            ranges: vec![],
            times: vec![7, 8],
        },
    ]
}

// Control: events that only have timestamps.
#[test]
fn times_only_vanilla() {
    check(M2Version::Vanilla, &times_only());
}
#[test]
fn times_only_tbc() {
    check(M2Version::TBC, &times_only());
}
#[test]
fn times_only_wotlk() {
    check(M2Version::WotLK, &times_only());
}

// Events with a ranges block in front of the timestamps (the pre-WotLK track layout).
#[test]
fn ranges_vanilla() {
    check(M2Version::Vanilla, &with_ranges());
}
#[test]
fn ranges_tbc() {
    check(M2Version::TBC, &with_ranges());
}
// The crate uses the same 44-byte event layout (with ranges) for every version.
#[test]
fn ranges_wotlk() {
    check(M2Version::WotLK, &with_ranges());
}

// A single event whose only track data is a ranges block.
#[test]
fn ranges_without_times_tbc() {
    check(
        M2Version::TBC,
        &[Ev {
            id: *b"$CST",
            data: 1,
            bone: 2,
            pos: [0.5, 0.5, 0.5],
            global_sequence: -1,
            ranges: vec![(10, 20), (30, 40)],
            times: vec![],
        }],
    );
}
