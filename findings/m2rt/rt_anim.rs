//! Round-trip of `.anim` files through `AnimFile::write` -> `AnimFile::parse`.

use std::io::Cursor;

use wow_m2::anim::{
    ANIM_MAGIC, AnimBoneAnimation, AnimEntry, AnimFile, AnimFormat, AnimHeader, AnimMetadata,
    AnimRotation, AnimScaling, AnimSection, AnimSectionHeader, AnimTranslation,
};
use wow_m2::common::{C3Vector, Quaternion};

fn v(x: f32, y: f32, z: f32) -> C3Vector {
    C3Vector { x, y, z }
}

fn modern_file(sections: Vec<AnimSection>) -> AnimFile {
    let entries = sections
        .iter()
        .map(|s| AnimEntry {
            id: s.header.id,
            offset: 0,
            size: 0,
        })
        .collect::<Vec<_>>();
    AnimFile {
        format: AnimFormat::Modern,
        metadata: AnimMetadata::Modern {
            header: AnimHeader {
                magic: ANIM_MAGIC,
                version: 3,
                id_count: sections.len() as u32,
                unknown: 0x1122_3344,
                anim_entry_offset: 20,
            },
            entries,
        },
        sections,
    }
}

fn section(id: u32, start: u32, end: u32, bones: Vec<AnimBoneAnimation>) -> AnimSection {
    AnimSection {
        header: AnimSectionHeader {
            magic: *b"AFID",
            id,
            start,
            end,
        },
        bone_animations: bones,
    }
}

fn empty_bone() -> AnimBoneAnimation {
    AnimBoneAnimation {
        bone_id: 0,
        translation: None,
        rotation: None,
        scaling: None,
    }
}

/// Flatten the content of a file to something comparable (the types are not `PartialEq`).
fn content(file: &AnimFile) -> String {
    let mut out = format!("{:?}\n", file.format);
    for s in &file.sections {
        out += &format!("{:?}\n", s.header);
        for b in &s.bone_animations {
            out += &format!("  {:?}\n", b);
        }
    }
    out
}

fn write(file: &AnimFile) -> Vec<u8> {
    let mut cur = Cursor::new(Vec::new());
    file.write(&mut cur).expect("write");
    cur.into_inner()
}

fn check_roundtrip(file: &AnimFile) {
    let bytes = write(file);
    let parsed = AnimFile::parse(&mut Cursor::new(bytes.clone()))
        .unwrap_or_else(|e| panic!("parse of written bytes failed: {e:?}"));

    assert_eq!(
        parsed.sections.len(),
        file.sections.len(),
        "section count changed"
    );
    for (i, (a, b)) in file.sections.iter().zip(&parsed.sections).enumerate() {
        assert_eq!(
            b.bone_animations.len(),
            a.bone_animations.len(),
            "section {i}: bone count changed"
        );
    }
    assert_eq!(content(&parsed), content(file), "content changed");

    let again = write(&parsed);
    assert_eq!(again, bytes, "second write is not byte-identical");
}

/// Control: sections whose bones carry no key-frames at all.
#[test]
fn modern_without_keyframes_roundtrips() {
    let file = modern_file(vec![section(
        7,
        10,
        20,
        vec![empty_bone(), empty_bone(), empty_bone()],
    )]);
    check_roundtrip(&file);
}

/// One section, one bone with a translation track.
#[test]
fn modern_single_bone_translation_roundtrips() {
    let file = modern_file(vec![section(
        42,
        100,
        900,
        vec![AnimBoneAnimation {
            bone_id: 5,
            translation: Some(AnimTranslation {
                timestamps: vec![0, 333],
                translations: vec![v(1.0, 2.0, 3.0), v(4.0, 5.0, 6.0)],
            }),
            rotation: None,
            scaling: None,
        }],
    )]);
    check_roundtrip(&file);
}

/// Two sections, mixed empty / animated bones, all three track kinds.
#[test]
fn modern_full_roundtrips() {
    let file = modern_file(vec![
        section(
            11,
            0,
            1000,
            vec![
                AnimBoneAnimation {
                    bone_id: 3,
                    translation: Some(AnimTranslation {
                        timestamps: vec![0, 500, 1000],
                        translations: vec![v(0.5, 0.25, 0.125), v(1.5, 2.5, 3.5), v(-1.0, -2.0, -3.0)],
                    }),
                    rotation: Some(AnimRotation {
                        timestamps: vec![0, 1000],
                        rotations: vec![
                            Quaternion {
                                x: 0.0,
                                y: 0.0,
                                z: 0.0,
                                w: 1.0,
                            },
                            Quaternion {
                                x: 0.5,
                                y: 0.5,
                                z: 0.5,
                                w: 0.5,
                            },
                        ],
                    }),
                    scaling: Some(AnimScaling {
                        timestamps: vec![250],
                        scalings: vec![v(2.0, 2.0, 2.0)],
                    }),
                },
                empty_bone(),
                AnimBoneAnimation {
                    bone_id: 9,
                    translation: None,
                    rotation: None,
                    scaling: Some(AnimScaling {
                        timestamps: vec![1, 2],
                        scalings: vec![v(1.0, 1.0, 1.0), v(3.0, 3.0, 3.0)],
                    }),
                },
            ],
        ),
        section(
            12,
            1000,
            2000,
            vec![AnimBoneAnimation {
                bone_id: 1,
                translation: None,
                rotation: Some(AnimRotation {
                    timestamps: vec![77],
                    rotations: vec![Quaternion {
                        x: 0.1,
                        y: 0.2,
                        z: 0.3,
                        w: 0.9,
                    }],
                }),
                scaling: None,
            }],
        ),
    ]);
    check_roundtrip(&file);
}

/// Legacy-format file obtained through the public `convert` API.
///
/// Fails on HEAD and is not repairable with a small change: `AnimParser::parse_legacy` is a
/// placeholder that never reads section or bone data (it always returns one empty section
/// with id 1), so nothing `write_legacy` emits can be read back.
/// Run with `-- --include-ignored` to see it.
#[test]
#[ignore = "legacy .anim parsing is a placeholder; written content cannot be read back"]
fn legacy_roundtrips() {
    let modern = modern_file(vec![section(
        42,
        100,
        900,
        vec![AnimBoneAnimation {
            bone_id: 5,
            translation: Some(AnimTranslation {
                timestamps: vec![0, 333],
                translations: vec![v(1.0, 2.0, 3.0), v(4.0, 5.0, 6.0)],
            }),
            rotation: None,
            scaling: None,
        }],
    )]);
    let legacy = modern.convert(wow_m2::M2Version::WotLK);
    assert_eq!(legacy.format, AnimFormat::Legacy);
    check_roundtrip(&legacy);
}
