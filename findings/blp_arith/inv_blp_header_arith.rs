//! BLP2 headers whose mipmap locator or dimensions make u32 arithmetic overflow must be
//! rejected with an error, not panic.

fn blp2(compression: u8, alpha_bits: u8, width: u32, height: u32, offset0: u32, size0: u32) -> Vec<u8> {
    let mut v = Vec::new();
    v.extend_from_slice(b"BLP2");
    v.extend_from_slice(&1u32.to_le_bytes()); // content: direct
    v.push(compression); // 1 = raw1, 2 = dxtc, 3 = raw3
    v.push(alpha_bits);
    v.push(0); // alpha type
    v.push(0); // no mipmaps
    v.extend_from_slice(&width.to_le_bytes());
    v.extend_from_slice(&height.to_le_bytes());
    let mut offsets = [0u32; 16];
    let mut sizes = [0u32; 16];
    offsets[0] = offset0;
    sizes[0] = size0;
    for o in offsets {
        v.extend_from_slice(&o.to_le_bytes());
    }
    for s in sizes {
        v.extend_from_slice(&s.to_le_bytes());
    }
    // palette (read for raw1) + some payload
    v.extend_from_slice(&[0u8; 256 * 4]);
    v.extend_from_slice(&[0u8; 64]);
    v
}

fn must_not_panic(name: &str, bytes: Vec<u8>) {
    let r = std::panic::catch_unwind(|| wow_blp::parser::parse_blp(&bytes).map(|_| ()));
    match r {
        Ok(Ok(())) => panic!("{name}: hostile header was accepted"),
        Ok(Err(_)) => {}
        Err(_) => panic!("{name}: parser panicked instead of returning an error"),
    }
}

#[test]
fn dxt_offset_plus_size_wraps() {
    must_not_panic("dxt", blp2(2, 0, 4, 4, 100, 0xFFFF_FFFF));
}

#[test]
fn raw3_offset_plus_size_wraps() {
    must_not_panic("raw3", blp2(3, 0, 4, 4, 100, 0xFFFF_FFFF));
}

#[test]
fn raw1_offset_plus_size_wraps() {
    must_not_panic("raw1", blp2(1, 8, 4, 4, 100, 0xFFFF_FFFF));
}

#[test]
fn raw3_pixel_count_wraps() {
    must_not_panic("raw3 65536x65536", blp2(3, 0, 0x1_0000, 0x1_0000, 1172, 64));
}

#[test]
fn raw1_pixel_count_wraps() {
    must_not_panic("raw1 65536x65536", blp2(1, 8, 0x1_0000, 0x1_0000, 1172, 64));
}

#[test]
fn raw1_alpha_size_wraps() {
    // 0x2000_0001 pixels x 8 alpha bits does not fit in 32 bits
    must_not_panic("raw1 alpha", blp2(1, 8, 0x2000_0001, 1, 1172, 64));
}
