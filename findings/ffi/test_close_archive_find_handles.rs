//! Closing an archive must invalidate the search handles that were opened on it
//! (and only those), just like it already invalidates the archive's file handles.
//!
//! `storm-ffi` only builds `cdylib`/`staticlib` targets, so the C API cannot be
//! linked as an rlib from an integration test; the library source is included
//! as a module instead and its `extern "C"` functions are called directly.

#[allow(dead_code, clippy::all)]
#[path = "../src/lib.rs"]
mod storm;

use std::ffi::CString;
use std::mem::MaybeUninit;
use std::path::Path;
use std::ptr;

use storm::*;
use wow_mpq::{ArchiveBuilder, FormatVersion, ListfileOption};

const ERROR_INVALID_HANDLE: u32 = 6;

fn build_archive(path: &Path, names: &[&str]) {
    let mut builder = ArchiveBuilder::new()
        .version(FormatVersion::V2)
        .listfile_option(ListfileOption::Generate);
    for name in names {
        builder = builder.add_file_data(format!("content of {name}").into_bytes(), name);
    }
    builder.build(path).unwrap();
}

unsafe fn open(path: &Path) -> HANDLE {
    let c_path = CString::new(path.to_str().unwrap()).unwrap();
    let mut handle: HANDLE = ptr::null_mut();
    assert!(
        SFileOpenArchive(c_path.as_ptr(), 0, 0, &mut handle),
        "SFileOpenArchive failed: {}",
        SFileGetLastError()
    );
    assert!(!handle.is_null());
    handle
}

#[test]
fn close_archive_invalidates_its_find_handles_only() {
    let dir = tempfile::tempdir().unwrap();
    let path_a = dir.path().join("a.mpq");
    let path_b = dir.path().join("b.mpq");
    build_archive(&path_a, &["a1.txt", "a2.txt", "a3.txt"]);
    build_archive(&path_b, &["b1.txt", "b2.txt", "b3.txt"]);

    unsafe {
        let archive_a = open(&path_a);
        let archive_b = open(&path_b);

        let mut data = MaybeUninit::<SFILE_FIND_DATA>::zeroed().assume_init();

        let find_a = SFileFindFirstFile(archive_a, c"*.txt".as_ptr(), &mut data, ptr::null());
        assert!(
            !find_a.is_null(),
            "find on A failed: {}",
            SFileGetLastError()
        );
        let find_b = SFileFindFirstFile(archive_b, c"*.txt".as_ptr(), &mut data, ptr::null());
        assert!(
            !find_b.is_null(),
            "find on B failed: {}",
            SFileGetLastError()
        );

        // A file handle on A, to show the existing file-handle invalidation.
        let mut file_a: HANDLE = ptr::null_mut();
        assert!(SFileOpenFileEx(
            archive_a,
            c"a1.txt".as_ptr(),
            0,
            &mut file_a
        ));

        assert!(SFileCloseArchive(archive_a));

        // File handle of the closed archive is gone (already the case today).
        assert!(
            !SFileCloseFile(file_a),
            "file handle of closed archive still valid"
        );
        assert_eq!(SFileGetLastError(), ERROR_INVALID_HANDLE);

        // Search handle of the closed archive must be gone as well.
        SFileSetLastError(0);
        let next_ok = SFileFindNextFile(find_a, &mut data);
        let next_err = SFileGetLastError();
        assert!(
            !next_ok,
            "SFileFindNextFile succeeded on a search handle whose archive was closed"
        );
        assert_eq!(next_err, ERROR_INVALID_HANDLE);

        SFileSetLastError(0);
        let close_ok = SFileFindClose(find_a);
        let close_err = SFileGetLastError();
        assert!(
            !close_ok,
            "SFileFindClose succeeded on a search handle whose archive was closed"
        );
        assert_eq!(close_err, ERROR_INVALID_HANDLE);

        // Search handle of the other, still open archive is unaffected.
        assert!(
            SFileFindNextFile(find_b, &mut data),
            "search handle of unrelated archive was invalidated: {}",
            SFileGetLastError()
        );
        assert!(SFileFindClose(find_b));
        assert!(SFileCloseArchive(archive_b));
    }
}
