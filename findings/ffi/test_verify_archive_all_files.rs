//! `SFileVerifyArchive(.., SFILE_VERIFY_ALL_FILES)` must return instead of
//! dead-locking on the global archive table.
//!
//! Kept in its own test binary: if the call dead-locks, the archive table mutex
//! stays locked for the rest of the process.
//!
//! `storm-ffi` only builds `cdylib`/`staticlib` targets, so the library source
//! is included as a module and its `extern "C"` functions are called directly.

#[allow(dead_code, clippy::all)]
#[path = "../src/lib.rs"]
mod storm;

use std::ffi::CString;
use std::ptr;
use std::sync::mpsc;
use std::thread;
use std::time::Duration;

use storm::*;
use wow_mpq::{ArchiveBuilder, FormatVersion, ListfileOption};

const SFILE_VERIFY_ALL_FILES: u32 = 0x20;

#[test]
fn verify_archive_all_files_returns() {
    let dir = tempfile::tempdir().unwrap();
    let path = dir.path().join("verify.mpq");
    ArchiveBuilder::new()
        .version(FormatVersion::V2)
        .listfile_option(ListfileOption::Generate)
        .add_file_data(b"hello world".to_vec(), "hello.txt")
        .add_file_data(b"second file".to_vec(), "dir\\second.txt")
        .build(&path)
        .unwrap();

    let c_path = CString::new(path.to_str().unwrap()).unwrap();
    let mut handle: HANDLE = ptr::null_mut();
    unsafe {
        assert!(
            SFileOpenArchive(c_path.as_ptr(), 0, 0, &mut handle),
            "SFileOpenArchive failed: {}",
            SFileGetLastError()
        );
        // Sanity: the archive really lists a regular file, so the per-file
        // verification loop has something to do.
        assert!(SFileHasFile(handle, c"hello.txt".as_ptr()));
    }

    let handle_id = handle as usize;
    let (tx, rx) = mpsc::channel();
    thread::spawn(move || {
        let ok = unsafe { SFileVerifyArchive(handle_id as HANDLE, SFILE_VERIFY_ALL_FILES) };
        let _ = tx.send((ok, SFileGetLastError()));
    });

    match rx.recv_timeout(Duration::from_secs(10)) {
        Ok((ok, err)) => {
            assert!(ok, "SFileVerifyArchive reported failure on an intact archive: {err}");
            assert!(SFileCloseArchive(handle));
        }
        Err(mpsc::RecvTimeoutError::Timeout) => panic!(
            "SFileVerifyArchive(SFILE_VERIFY_ALL_FILES) did not return within 10 s (self-deadlock on ARCHIVES)"
        ),
        Err(mpsc::RecvTimeoutError::Disconnected) => {
            panic!("SFileVerifyArchive panicked in the worker thread")
        }
    }
}
