//! Round-trip test for `SkinG::write`: the section that follows the submeshes
//! (the batches) must be addressed right after the submesh data, i.e. the
//! writer has to account for the real on-disk submesh size (48 bytes).

use std::io::Cursor;

use wow_m2::M2Version;
use wow_m2::skin::{
    OldSkin, OldSkinHeader, Skin, SkinBatch, SkinFile, SkinHeader, SkinSubmesh, parse_skin,
};

fn submesh(seed: u16) -> SkinSubmesh {
    let f = seed as f32;
    SkinSubmesh {
        id: 0x1000 + seed,
        level: 0x0100 + seed,
        vertex_start: 0x2000 + seed,
        vertex_count: 0x3000 + seed,
        triangle_start: 0x4000 + seed,
        triangle_count: 0x5000 + seed,
        bone_count: 0x0600 + seed,
        bone_start: 0x0700 + seed,
        bone_influence: 1 + seed,
        center: [f + 0.25, f + 0.5, f + 0.75],
        sort_center: [-f - 1.25, -f - 1.5, -f - 1.75],
        bounding_radius: 100.0 + f,
    }
}

fn batch(seed: u16) -> SkinBatch {
    SkinBatch {
        flags: 0x10 + seed as u8,
        priority_plane: -(seed as i8) - 3,
        shader_id: 0x8000 + seed,
        skin_section_index: 0x0A00 + seed,
        geoset_index: 0x0B00 + seed,
        color_index: 0x0C00 + seed,
        material_index: 0x0D00 + seed,
        material_layer: 0x0E00 + seed,
        texture_count: 0x0F00 + seed,
        texture_combo_index: 0x1100 + seed,
        texture_coord_combo_index: 0x1200 + seed,
        texture_weight_combo_index: 0x1300 + seed,
        texture_transform_combo_index: 0x1400 + seed,
    }
}

fn assert_submeshes_eq(parsed: &[SkinSubmesh], expected: &[SkinSubmesh]) {
    assert_eq!(parsed.len(), expected.len(), "submesh count");
    for (i, (p, e)) in parsed.iter().zip(expected).enumerate() {
        assert_eq!(p.id, e.id, "submesh[{i}].id");
        assert_eq!(p.level, e.level, "submesh[{i}].level");
        assert_eq!(p.vertex_start, e.vertex_start, "submesh[{i}].vertex_start");
        assert_eq!(p.vertex_count, e.vertex_count, "submesh[{i}].vertex_count");
        assert_eq!(
            p.triangle_start, e.triangle_start,
            "submesh[{i}].triangle_start"
        );
        assert_eq!(
            p.triangle_count, e.triangle_count,
            "submesh[{i}].triangle_count"
        );
        assert_eq!(p.bone_count, e.bone_count, "submesh[{i}].bone_count");
        assert_eq!(p.bone_start, e.bone_start, "submesh[{i}].bone_start");
        assert_eq!(
            p.bone_influence, e.bone_influence,
            "submesh[{i}].bone_influence"
        );
        assert_eq!(p.center, e.center, "submesh[{i}].center");
        assert_eq!(p.sort_center, e.sort_center, "submesh[{i}].sort_center");
        assert_eq!(
            p.bounding_radius, e.bounding_radius,
            "submesh[{i}].bounding_radius"
        );
    }
}

fn assert_batches_eq(parsed: &[SkinBatch], expected: &[SkinBatch]) {
    assert_eq!(parsed.len(), expected.len(), "batch count");
    for (i, (p, e)) in parsed.iter().zip(expected).enumerate() {
        assert_eq!(p.flags, e.flags, "batch[{i}].flags");
        assert_eq!(
            p.priority_plane, e.priority_plane,
            "batch[{i}].priority_plane"
        );
        assert_eq!(p.shader_id, e.shader_id, "batch[{i}].shader_id");
        assert_eq!(
            p.skin_section_index, e.skin_section_index,
            "batch[{i}].skin_section_index"
        );
        assert_eq!(p.geoset_index, e.geoset_index, "batch[{i}].geoset_index");
        assert_eq!(p.color_index, e.color_index, "batch[{i}].color_index");
        assert_eq!(
            p.material_index, e.material_index,
            "batch[{i}].material_index"
        );
        assert_eq!(
            p.material_layer, e.material_layer,
            "batch[{i}].material_layer"
        );
        assert_eq!(p.texture_count, e.texture_count, "batch[{i}].texture_count");
        assert_eq!(
            p.texture_combo_index, e.texture_combo_index,
            "batch[{i}].texture_combo_index"
        );
        assert_eq!(
            p.texture_coord_combo_index, e.texture_coord_combo_index,
            "batch[{i}].texture_coord_combo_index"
        );
        assert_eq!(
            p.texture_weight_combo_index, e.texture_weight_combo_index,
            "batch[{i}].texture_weight_combo_index"
        );
        assert_eq!(
            p.texture_transform_combo_index, e.texture_transform_combo_index,
            "batch[{i}].texture_transform_combo_index"
        );
    }
}

fn new_format_skin(version: M2Version, n_submeshes: u16, n_batches: u16) -> Skin {
    Skin {
        header: SkinHeader::new(version),
        indices: vec![0, 1, 2, 3, 4, 5],
        triangles: vec![0, 1, 2, 3, 4, 5],
        // 4 bone indices per vertex; the header stores len / 4 as the count
        bone_indices: vec![1, 2, 3, 4, 5, 6, 7, 8],
        submeshes: (0..n_submeshes).map(submesh).collect(),
        batches: (0..n_batches).map(batch).collect(),
    }
}

/// Write `skin`, parse the bytes back and compare every section.
fn roundtrip_new(skin: &Skin) {
    let mut cursor = Cursor::new(Vec::new());
    skin.write(&mut cursor).expect("write");
    let bytes = cursor.into_inner();

    let parsed = match parse_skin(&mut Cursor::new(&bytes)).expect("parse") {
        SkinFile::New(s) => s,
        SkinFile::Old(_) => panic!("written new-format skin was detected as old format"),
    };

    assert_eq!(parsed.indices, skin.indices, "indices");
    assert_eq!(parsed.triangles, skin.triangles, "triangles");
    assert_eq!(parsed.bone_indices, skin.bone_indices, "bone_indices");
    assert_submeshes_eq(&parsed.submeshes, &skin.submeshes);

    assert_batches_eq(&parsed.batches, &skin.batches);

    // The batches must start exactly where the submesh data ends.
    if !skin.batches.is_empty() && !skin.submeshes.is_empty() {
        assert_eq!(
            parsed.header.batches.offset,
            parsed.header.submeshes.offset + 48 * skin.submeshes.len() as u32,
            "batches offset must follow {} submeshes of 48 bytes",
            skin.submeshes.len()
        );
    }
}

#[test]
fn new_format_roundtrip_two_submeshes_two_batches() {
    roundtrip_new(&new_format_skin(M2Version::WotLK, 2, 2));
}

#[test]
fn new_format_roundtrip_three_submeshes_three_batches_bfa_header() {
    roundtrip_new(&new_format_skin(M2Version::BfA, 3, 3));
}

/// Control: nothing is laid out after the submeshes, so their size is irrelevant.
#[test]
fn new_format_roundtrip_two_submeshes_no_batches() {
    roundtrip_new(&new_format_skin(M2Version::WotLK, 2, 0));
}

/// Control: no submeshes, so the batches directly follow the bone indices.
#[test]
fn new_format_roundtrip_no_submeshes_two_batches() {
    roundtrip_new(&new_format_skin(M2Version::WotLK, 0, 2));
}

/// The old (WotLK external .skin) flavour goes through the same generic writer.
#[test]
fn old_format_roundtrip_two_submeshes_two_batches() {
    let mut header = OldSkinHeader::new();
    header.bone_count_max = 64;
    let skin = OldSkin {
        header,
        // more than 4 indices so that format detection picks the old format
        indices: vec![0, 1, 2, 3, 4, 5],
        triangles: vec![0, 1, 2, 3, 4, 5],
        bone_indices: vec![1, 2, 3, 4, 5, 6, 7, 8],
        submeshes: (0..2).map(submesh).collect(),
        batches: (0..2).map(batch).collect(),
    };

    let mut cursor = Cursor::new(Vec::new());
    skin.write(&mut cursor).expect("write");
    let bytes = cursor.into_inner();

    let parsed = match SkinFile::parse(&mut Cursor::new(&bytes)).expect("parse") {
        SkinFile::Old(s) => s,
        SkinFile::New(_) => panic!("written old-format skin was detected as new format"),
    };

    assert_eq!(parsed.header.bone_count_max, 64);
    assert_eq!(parsed.indices, skin.indices, "indices");
    assert_eq!(parsed.triangles, skin.triangles, "triangles");
    assert_eq!(parsed.bone_indices, skin.bone_indices, "bone_indices");
    assert_submeshes_eq(&parsed.submeshes, &skin.submeshes);
    assert_batches_eq(&parsed.batches, &skin.batches);
}
