//! A write failure that hits only the last buffered portion of the output (file-size limit reached in the tail)
use std::process::Command;

#[test]
fn wdt_convert_with_tail_write_failure_fails() {
    let dir = tempfile::tempdir().unwrap();
    let input = dir.path().join("in.wdt");
    let wdt = wow_wdt::WdtFile::new(wow_wdt::version::WowVersion::WotLK);
    let mut w = wow_wdt::WdtWriter::new(std::fs::File::create(&input).unwrap());
    w.write(&wdt).unwrap();
    drop(w);
    let bin = env!("CARGO_BIN_EXE_warcraft-rs");
    // reference run: how large is the complete output?
    let full = dir.path().join("full.wdt");
    assert!(Command::new(bin).args(["wdt", "convert"]).arg(&input).arg(&full).args(["-f", "WotLK", "-t", "Cataclysm"]).status().unwrap().success());
    let want = std::fs::metadata(&full).unwrap().len();
    // file-size limit: the largest multiple of 8 KiB below the complete size (ulimit -f counts KiB in bash)
    let limit_kib = (want / 8192) * 8;
    assert!(limit_kib * 1024 < want);
    let out = dir.path().join("cut.wdt");
    let script = format!("trap '' XFSZ; ulimit -f {limit_kib}; exec {bin} wdt convert {} {} -f WotLK -t Cataclysm", input.display(), out.display());
    let r = Command::new("bash").arg("-c").arg(&script).output().unwrap();
    let got = std::fs::metadata(&out).map(|m| m.len()).unwrap_or(0);
    eprintln!("complete output {want} bytes, limit {} bytes, written {got} bytes, exit {:?}", limit_kib * 1024, r.status.code());
    assert!(got < want, "the limit did not bite");
    assert!(!r.status.success(), "wdt convert exited 0 with a truncated output file ({got} of {want} bytes): {}", String::from_utf8_lossy(&r.stdout));
}
