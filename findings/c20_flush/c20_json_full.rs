//! C20f demonstration (CLI level): a `dbc export` that exits 0 has produced its
//! complete output; if the destination cannot take the data (full device) the
//! command must exit non-zero.
//!
//! Uses /dev/full (Linux); the fault-injection tests are skipped where that
//! device does not exist.

use std::fs;
use std::path::{Path, PathBuf};
use std::process::{Command, Output, Stdio};

fn bin() -> &'static str {
    env!("CARGO_BIN_EXE_warcraft-rs")
}

const STRINGS: &[u8] = b"\0Stormwind\0Orgrimmar\0Ironforge\0";

/// A valid WDBC table: 3 records of (id: u32, name: stringref).
fn cities_dbc() -> Vec<u8> {
    let mut d = Vec::new();
    d.extend_from_slice(b"WDBC");
    d.extend_from_slice(&3u32.to_le_bytes()); // records
    d.extend_from_slice(&2u32.to_le_bytes()); // fields
    d.extend_from_slice(&8u32.to_le_bytes()); // record size
    d.extend_from_slice(&(STRINGS.len() as u32).to_le_bytes());
    for (id, off) in [(1u32, 1u32), (2, 11), (3, 21)] {
        d.extend_from_slice(&id.to_le_bytes());
        d.extend_from_slice(&off.to_le_bytes());
    }
    d.extend_from_slice(STRINGS);
    d
}

const SCHEMA: &str = "name: Cities\nfields:\n  - name: ID\n    type_name: uint32\n  - name: Name\n    type_name: string\nkey_field: ID\n";

struct Fixture {
    _tmp: tempfile::TempDir,
    dir: PathBuf,
    dbc: PathBuf,
    schema: PathBuf,
}

fn fixture() -> Fixture {
    let tmp = tempfile::TempDir::new().unwrap();
    let dir = tmp.path().to_path_buf();
    let dbc = dir.join("Cities.dbc");
    let schema = dir.join("Cities.yaml");
    fs::write(&dbc, cities_dbc()).unwrap();
    fs::write(&schema, SCHEMA).unwrap();
    Fixture {
        _tmp: tmp,
        dir,
        dbc,
        schema,
    }
}

fn export_csv(f: &Fixture, output: Option<&Path>, stdout: Stdio) -> Output {
    let mut c = Command::new(bin());
    c.args(["dbc", "export"])
        .arg(&f.dbc)
        .arg("--schema")
        .arg(&f.schema)
        .args(["--format", "json"]);
    if let Some(output) = output {
        c.arg("--output").arg(output);
    }
    c.stdout(stdout).stderr(Stdio::piped());
    c.spawn().unwrap().wait_with_output().unwrap()
}

fn dev_full() -> Option<&'static Path> {
    let p = Path::new("/dev/full");
    if p.exists() {
        Some(p)
    } else {
        eprintln!("/dev/full not available, skipping");
        None
    }
}

const EXPECTED_CSV: &str = "JSONCONTROL";

/// Control: regular destination, file and stdout.
#[test]
fn csv_export_to_regular_destination_is_complete() {
    let f = fixture();
    let out = f.dir.join("Cities.csv");
    let o = export_csv(&f, Some(&out), Stdio::piped());
    assert!(o.status.success(), "{}", String::from_utf8_lossy(&o.stderr));
    assert_eq!(fs::read_to_string(&out).unwrap(), EXPECTED_CSV);

    let o = export_csv(&f, None, Stdio::piped());
    assert!(o.status.success(), "{}", String::from_utf8_lossy(&o.stderr));
    assert_eq!(String::from_utf8_lossy(&o.stdout), EXPECTED_CSV);
}

/// `--output` on a device without space left.
#[test]
fn csv_export_to_full_device_fails() {
    let Some(full) = dev_full() else { return };
    let f = fixture();
    let o = export_csv(&f, Some(full), Stdio::piped());
    assert!(
        !o.status.success(),
        "`dbc export --format csv --output /dev/full` exited 0 although not a single byte \
         of the table could be written; stdout: {}",
        String::from_utf8_lossy(&o.stdout)
    );
}

/// Standard output redirected to a device without space left.
#[test]
fn csv_export_to_full_stdout_fails() {
    let Some(full) = dev_full() else { return };
    let f = fixture();
    let sink = fs::OpenOptions::new().write(true).open(full).unwrap();
    let o = export_csv(&f, None, Stdio::from(sink));
    assert!(
        !o.status.success(),
        "`dbc export --format csv > /dev/full` exited 0 although nothing could be written"
    );
}
