//! Reproduction tests for WmoWriter root-file round trips.
//!
//! Property under test: for any WMO root, in every supported version, parsing the
//! written bytes yields the same content and a second write is byte-identical.
//!
//! * `momt_*`  - MOMT chunk: declared chunk size vs. bytes actually written (pre-MoP).
//! * `mogi_*`  - MOGI chunk: group name offsets into MOGN.

use std::collections::HashMap;
use std::io::Cursor;

use wow_wmo::{
    BoundingBox, Color, ParsedWmo, Vec3, WmoFlags, WmoGroupFlags, WmoGroupInfo, WmoHeader,
    WmoMaterial, WmoMaterialFlags, WmoParser, WmoRoot, WmoVersion, WmoWriter,
    discover_wmo_chunks, parse_wmo,
};

fn materials() -> Vec<WmoMaterial> {
    vec![
        WmoMaterial {
            flags: WmoMaterialFlags::UNLIT,
            shader: 1,
            blend_mode: 0,
            texture1: 0,
            emissive_color: Color { r: 10, g: 20, b: 30, a: 255 },
            sidn_color: Color { r: 40, g: 50, b: 60, a: 255 },
            framebuffer_blend: Color::default(),
            texture2: 0,
            diffuse_color: Color { r: 70, g: 80, b: 90, a: 255 },
            ground_type: 3,
        },
        WmoMaterial {
            flags: WmoMaterialFlags::TWO_SIDED,
            shader: 2,
            blend_mode: 1,
            texture1: 9, // offset of "wall.blp" in MOTX
            emissive_color: Color { r: 11, g: 21, b: 31, a: 255 },
            sidn_color: Color { r: 41, g: 51, b: 61, a: 255 },
            framebuffer_blend: Color::default(),
            texture2: 0,
            diffuse_color: Color { r: 71, g: 81, b: 91, a: 255 },
            ground_type: 5,
        },
    ]
}

fn groups() -> Vec<WmoGroupInfo> {
    vec![
        WmoGroupInfo {
            flags: WmoGroupFlags::INDOOR,
            bounding_box: BoundingBox {
                min: Vec3 { x: -1.0, y: -2.0, z: -3.0 },
                max: Vec3 { x: 1.0, y: 2.0, z: 3.0 },
            },
            name: "Entrance".to_string(),
        },
        WmoGroupInfo {
            flags: WmoGroupFlags::HAS_NORMALS,
            bounding_box: BoundingBox {
                min: Vec3 { x: 10.0, y: 20.0, z: 30.0 },
                max: Vec3 { x: 11.0, y: 22.0, z: 33.0 },
            },
            name: "GreatHall".to_string(),
        },
    ]
}

fn build_root(version: WmoVersion, materials: Vec<WmoMaterial>) -> WmoRoot {
    let groups = groups();
    let textures = vec!["wood.blp".to_string(), "wall.blp".to_string()];
    WmoRoot {
        version,
        header: WmoHeader {
            n_materials: materials.len() as u32,
            n_groups: groups.len() as u32,
            n_portals: 0,
            n_lights: 0,
            n_doodad_names: 0,
            n_doodad_defs: 0,
            n_doodad_sets: 0,
            flags: WmoFlags::empty(),
            ambient_color: Color { r: 1, g: 2, b: 3, a: 255 },
        },
        materials,
        groups,
        portals: vec![],
        portal_references: vec![],
        visible_block_lists: vec![],
        lights: vec![],
        doodad_defs: vec![],
        doodad_sets: vec![],
        bounding_box: BoundingBox {
            min: Vec3 { x: -1.0, y: -2.0, z: -3.0 },
            max: Vec3 { x: 11.0, y: 22.0, z: 33.0 },
        },
        textures,
        texture_offset_index_map: HashMap::new(),
        skybox: None,
        convex_volume_planes: None,
    }
}

fn write(root: &WmoRoot, version: WmoVersion) -> Vec<u8> {
    let mut cur = Cursor::new(Vec::new());
    WmoWriter::new().write_root(&mut cur, root, version).unwrap();
    cur.into_inner()
}

fn chunk_layout(bytes: &[u8]) -> Vec<(String, u32)> {
    let d = discover_wmo_chunks(&mut Cursor::new(bytes)).unwrap();
    d.chunks
        .iter()
        .map(|c| (c.id.as_str().to_string(), c.size))
        .collect()
}

fn assert_material_eq(a: &WmoMaterial, b: &WmoMaterial, i: usize) {
    assert_eq!(a.flags, b.flags, "material {i} flags");
    assert_eq!(a.shader, b.shader, "material {i} shader");
    assert_eq!(a.blend_mode, b.blend_mode, "material {i} blend_mode");
    assert_eq!(a.texture1, b.texture1, "material {i} texture1");
    assert_eq!(a.emissive_color, b.emissive_color, "material {i} emissive");
    assert_eq!(a.sidn_color, b.sidn_color, "material {i} sidn");
    assert_eq!(a.texture2, b.texture2, "material {i} texture2");
    assert_eq!(a.diffuse_color, b.diffuse_color, "material {i} diffuse");
    assert_eq!(a.ground_type, b.ground_type, "material {i} ground_type");
}

// ---------------------------------------------------------------------------
// Defect 1: MOMT declared size vs. written bytes (pre-MoP)
// ---------------------------------------------------------------------------

/// Walking the chunk headers of the written file must yield exactly the chunks
/// the writer emitted, and MOMT must declare 64 bytes per material.
#[test]
fn momt_chunk_walk_is_consistent_classic() {
    let root = build_root(WmoVersion::Classic, materials());
    let bytes = write(&root, WmoVersion::Classic);
    let layout = chunk_layout(&bytes);
    println!("chunk layout (Classic): {layout:?}");
    let ids: Vec<&str> = layout.iter().map(|(id, _)| id.as_str()).collect();
    assert_eq!(ids, ["MVER", "MOHD", "MOTX", "MOMT", "MOGN", "MOGI"]);
    let momt = layout.iter().find(|(id, _)| id == "MOMT").unwrap();
    assert_eq!(momt.1, 2 * 64, "MOMT declared size");
}

/// Same for WotLK.
#[test]
fn momt_chunk_walk_is_consistent_wotlk() {
    let root = build_root(WmoVersion::Wotlk, materials());
    let bytes = write(&root, WmoVersion::Wotlk);
    let layout = chunk_layout(&bytes);
    println!("chunk layout (WotLK): {layout:?}");
    let ids: Vec<&str> = layout.iter().map(|(id, _)| id.as_str()).collect();
    assert_eq!(ids, ["MVER", "MOHD", "MOTX", "MOMT", "MOGN", "MOGI"]);
}

/// Control: for MoP the declared size already matches.
#[test]
fn momt_chunk_walk_is_consistent_mop_control() {
    let root = build_root(WmoVersion::Mop, materials());
    let bytes = write(&root, WmoVersion::Mop);
    let layout = chunk_layout(&bytes);
    let ids: Vec<&str> = layout.iter().map(|(id, _)| id.as_str()).collect();
    assert_eq!(ids, ["MVER", "MOHD", "MOTX", "MOMT", "MOGN", "MOGI"]);
}

/// write -> WmoParser::parse_root: materials and the chunks following MOMT
/// (group table) must survive. Group *names* are deliberately not compared here
/// (see the mogi_* tests) so this isolates the MOMT defect.
#[test]
fn momt_roundtrip_legacy_parser_classic() {
    let root = build_root(WmoVersion::Classic, materials());
    let bytes = write(&root, WmoVersion::Classic);
    let parsed = WmoParser::new()
        .parse_root(&mut Cursor::new(&bytes))
        .expect("written file must parse");

    assert_eq!(parsed.materials.len(), 2, "material count");
    for (i, (a, b)) in root.materials.iter().zip(&parsed.materials).enumerate() {
        assert_material_eq(a, b, i);
    }
    assert_eq!(parsed.textures, root.textures, "textures");
    assert_eq!(
        parsed.groups.len(),
        2,
        "group count (MOGN/MOGI follow MOMT and must still be found)"
    );
    for (a, b) in root.groups.iter().zip(&parsed.groups) {
        assert_eq!(a.flags, b.flags);
        assert_eq!(a.bounding_box, b.bounding_box);
    }
}

/// write -> parse_wmo (binrw based API): same expectations.
#[test]
fn momt_roundtrip_parse_wmo_classic() {
    let root = build_root(WmoVersion::Classic, materials());
    let bytes = write(&root, WmoVersion::Classic);
    let parsed = match parse_wmo(&mut Cursor::new(&bytes)).expect("written file must parse") {
        ParsedWmo::Root(r) => r,
        ParsedWmo::Group(_) => panic!("expected root"),
    };
    assert_eq!(parsed.materials.len(), 2, "material count");
    assert_eq!(parsed.materials[1].shader, 2);
    assert_eq!(parsed.materials[1].ground_type, 5);
    assert_eq!(parsed.group_info.len(), 2, "group info count");
    assert_eq!(parsed.group_names, ["Entrance", "GreatHall"], "MOGN names");
}

/// parse(write(x)) written again must be byte-identical.
#[test]
fn momt_second_write_is_byte_identical_classic() {
    let root = build_root(WmoVersion::Classic, materials());
    let bytes1 = write(&root, WmoVersion::Classic);
    let parsed = WmoParser::new()
        .parse_root(&mut Cursor::new(&bytes1))
        .expect("written file must parse");
    let bytes2 = write(&parsed, WmoVersion::Classic);
    assert_eq!(bytes1.len(), bytes2.len(), "second write length");
    assert!(bytes1 == bytes2, "second write differs from first write");
}

// ---------------------------------------------------------------------------
// Defect 2: MOGI name offset placeholder
// ---------------------------------------------------------------------------

/// No materials => no MOMT chunk is written, so this is independent of defect 1.
#[test]
fn mogi_group_names_survive_roundtrip_classic_no_materials() {
    let root = build_root(WmoVersion::Classic, vec![]);
    let bytes = write(&root, WmoVersion::Classic);
    let parsed = WmoParser::new()
        .parse_root(&mut Cursor::new(&bytes))
        .expect("written file must parse");
    let names: Vec<&str> = parsed.groups.iter().map(|g| g.name.as_str()).collect();
    assert_eq!(names, ["Entrance", "GreatHall"]);
}

/// MoP declares the right MOMT size already, so again independent of defect 1.
#[test]
fn mogi_group_names_survive_roundtrip_mop() {
    let root = build_root(WmoVersion::Mop, materials());
    let bytes = write(&root, WmoVersion::Mop);
    let parsed = WmoParser::new()
        .parse_root(&mut Cursor::new(&bytes))
        .expect("written file must parse");
    let names: Vec<&str> = parsed.groups.iter().map(|g| g.name.as_str()).collect();
    assert_eq!(names, ["Entrance", "GreatHall"]);
}

/// The raw name offsets as seen by the binrw parser must point at the start of
/// each name inside MOGN ("Entrance\0GreatHall\0" => 0 and 9).
#[test]
fn mogi_name_offsets_point_into_mogn() {
    let root = build_root(WmoVersion::Classic, vec![]);
    let bytes = write(&root, WmoVersion::Classic);
    let parsed = match parse_wmo(&mut Cursor::new(&bytes)).unwrap() {
        ParsedWmo::Root(r) => r,
        ParsedWmo::Group(_) => panic!("expected root"),
    };
    let offsets: Vec<i32> = parsed.group_info.iter().map(|g| g.name_offset).collect();
    assert_eq!(offsets, [0, 9]);
}

/// Combined: the full property on a Classic root with 2 materials + 2 named groups.
#[test]
fn full_root_roundtrip_classic() {
    let root = build_root(WmoVersion::Classic, materials());
    let bytes = write(&root, WmoVersion::Classic);
    let parsed = WmoParser::new()
        .parse_root(&mut Cursor::new(&bytes))
        .expect("written file must parse");
    assert_eq!(parsed.materials.len(), 2);
    for (i, (a, b)) in root.materials.iter().zip(&parsed.materials).enumerate() {
        assert_material_eq(a, b, i);
    }
    let names: Vec<&str> = parsed.groups.iter().map(|g| g.name.as_str()).collect();
    assert_eq!(names, ["Entrance", "GreatHall"]);
    let bytes2 = write(&parsed, WmoVersion::Classic);
    assert!(bytes == bytes2, "second write differs");
}
