//! Reproduction test: DbcWriter header `field_count` for schemas with array fields.
//!
//! Property under test: for any table (including array fields), writing the
//! records and parsing them back yields identical values.
//!
//! `RecordSet`/`Record` have no public constructors, so the initial record set
//! is obtained by parsing a hand-assembled, well-formed WDBC image whose header
//! follows the on-disk convention (an array of N counts as N fields) that
//! `Schema::validate` enforces.

use wow_cdbc::{DbcParser, DbcWriter, FieldType, RecordSet, Schema, SchemaField, Value};

fn schema_with_array() -> Schema {
    let mut schema = Schema::new("Repro");
    schema.add_field(SchemaField::new("ID", FieldType::UInt32));
    schema.add_field(SchemaField::new_array("Stats", FieldType::UInt32, 3));
    schema.add_field(SchemaField::new("Name", FieldType::String));
    schema.set_key_field("ID");
    schema
}

fn schema_without_array() -> Schema {
    let mut schema = Schema::new("Control");
    schema.add_field(SchemaField::new("ID", FieldType::UInt32));
    schema.add_field(SchemaField::new("A", FieldType::UInt32));
    schema.add_field(SchemaField::new("B", FieldType::UInt32));
    schema.add_field(SchemaField::new("C", FieldType::UInt32));
    schema.add_field(SchemaField::new("Name", FieldType::String));
    schema.set_key_field("ID");
    schema
}

/// 3 records x (u32 id, u32[3], string ref) = 5 on-disk fields, 20 bytes/record.
fn source_image() -> Vec<u8> {
    // "\0Alpha\0Beta\0Gamma\0"
    let strings = b"\0Alpha\0Beta\0Gamma\0";
    let rows: [[u32; 5]; 3] = [
        [1, 10, 11, 12, 1],  // "Alpha" @1
        [2, 20, 21, 22, 7],  // "Beta"  @7
        [3, 30, 31, 32, 12], // "Gamma" @12
    ];
    let mut data = Vec::new();
    data.extend_from_slice(b"WDBC");
    data.extend_from_slice(&3u32.to_le_bytes()); // record_count
    data.extend_from_slice(&5u32.to_le_bytes()); // field_count (array of 3 counts as 3)
    data.extend_from_slice(&20u32.to_le_bytes()); // record_size
    data.extend_from_slice(&(strings.len() as u32).to_le_bytes());
    for row in rows {
        for v in row {
            data.extend_from_slice(&v.to_le_bytes());
        }
    }
    data.extend_from_slice(strings);
    data
}

/// Flatten a record set into comparable plain data.
fn dump(rs: &RecordSet) -> Vec<(u32, Vec<u32>, String)> {
    rs.records()
        .iter()
        .map(|r| {
            let id = match r.get_value(0) {
                Some(Value::UInt32(v)) => *v,
                other => panic!("unexpected id value {other:?}"),
            };
            let stats = match r.get_value(1) {
                Some(Value::Array(vs)) => vs
                    .iter()
                    .map(|v| match v {
                        Value::UInt32(x) => *x,
                        other => panic!("unexpected array element {other:?}"),
                    })
                    .collect(),
                other => panic!("unexpected stats value {other:?}"),
            };
            let name = match r.get_value(2) {
                Some(Value::StringRef(s)) => rs.get_string(*s).unwrap().to_string(),
                other => panic!("unexpected name value {other:?}"),
            };
            (id, stats, name)
        })
        .collect()
}

fn write(rs: &RecordSet, schema: Schema) -> Vec<u8> {
    let mut out = std::io::Cursor::new(Vec::new());
    DbcWriter::new(&mut out)
        .with_schema(schema)
        .write_records(rs)
        .expect("write_records");
    out.into_inner()
}

#[test]
fn array_schema_write_then_parse_roundtrip() {
    let src = source_image();
    let original = DbcParser::parse_bytes(&src)
        .unwrap()
        .with_schema(schema_with_array())
        .expect("hand-built source image must validate")
        .parse_records()
        .unwrap();
    let expected = vec![
        (1, vec![10, 11, 12], "Alpha".to_string()),
        (2, vec![20, 21, 22], "Beta".to_string()),
        (3, vec![30, 31, 32], "Gamma".to_string()),
    ];
    assert_eq!(dump(&original), expected, "sanity: source parses as intended");

    let written = write(&original, schema_with_array());

    let parser = DbcParser::parse_bytes(&written).expect("written header must parse");
    println!("written header: {:?}", parser.header());
    assert_eq!(
        parser.header().field_count,
        5,
        "header field_count must count each array element (as Schema::validate does)"
    );

    let reparsed = parser
        .with_schema(schema_with_array())
        .expect("file produced by DbcWriter must validate against the schema it was written with")
        .parse_records()
        .unwrap();
    assert_eq!(dump(&reparsed), expected, "values after write -> parse");
    assert_eq!(written, src, "written image must equal the canonical source image");
}

/// The error surfaced to a caller that does not inspect the header.
#[test]
fn array_schema_written_file_validates() {
    let src = source_image();
    let original = DbcParser::parse_bytes(&src)
        .unwrap()
        .with_schema(schema_with_array())
        .unwrap()
        .parse_records()
        .unwrap();
    let written = write(&original, schema_with_array());
    let res = DbcParser::parse_bytes(&written)
        .unwrap()
        .with_schema(schema_with_array());
    if let Err(e) = &res {
        println!("with_schema error: {e}");
    }
    assert!(res.is_ok(), "with_schema rejected the writer's own output");
}

/// Schema-less consumers rely on header.field_count to split a record into
/// 32-bit columns; it must cover the whole record.
#[test]
fn array_schema_written_file_raw_parse_sees_all_columns() {
    let src = source_image();
    let original = DbcParser::parse_bytes(&src)
        .unwrap()
        .with_schema(schema_with_array())
        .unwrap()
        .parse_records()
        .unwrap();
    let written = write(&original, schema_with_array());
    let raw = DbcParser::parse_bytes(&written)
        .unwrap()
        .parse_records()
        .unwrap();
    let row1: Vec<u32> = raw.records()[1]
        .values()
        .iter()
        .map(|v| match v {
            Value::UInt32(x) => *x,
            other => panic!("{other:?}"),
        })
        .collect();
    assert_eq!(row1, [2, 20, 21, 22, 7]);
}

/// Control: same bytes, but described by a schema with no array fields.
#[test]
fn control_flat_schema_roundtrip() {
    let src = source_image();
    let original = DbcParser::parse_bytes(&src)
        .unwrap()
        .with_schema(schema_without_array())
        .unwrap()
        .parse_records()
        .unwrap();
    let written = write(&original, schema_without_array());
    assert_eq!(written, src);
    DbcParser::parse_bytes(&written)
        .unwrap()
        .with_schema(schema_without_array())
        .expect("flat schema validates");
}
