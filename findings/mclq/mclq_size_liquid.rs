//! Round-trip of a legacy liquid (MCLQ) sub-chunk through the public builder API.
//!
//! The MCNK header field `size_liquid` counts the 8-byte MCLQ sub-chunk header
//! (wowdev.wiki ADT/v18: "sizeLiquid: 8 when not used; includes the chunk header").
//! The serializer stores it that way, so the parser must read `size_liquid - 8`
//! payload bytes after the sub-chunk header. Reading `size_liquid` bytes runs 8 bytes
//! past the liquid, which is past the end of the file when MCLQ is the last data in it.

use std::io::Cursor;
use wow_adt::AdtVersion;
use wow_adt::api::{ParsedAdt, parse_adt};
use wow_adt::builder::AdtBuilder;
use wow_adt::chunks::MfboChunk;
use wow_adt::chunks::mcnk::header::{McnkFlags, McnkHeader};
use wow_adt::chunks::mcnk::mcvt::McvtChunk;
use wow_adt::chunks::mcnk::{LiquidType, LiquidVertex, MccvChunk, MclqChunk, McnkChunk};

/// MCNK flag: chunk carries river/water liquid.
const FLAG_LIQUID_RIVER: u32 = 0x04;
/// MCNK flag: chunk carries an MCCV (vertex colour) sub-chunk.
const FLAG_HAS_MCCV: u32 = 0x40;

fn liquid() -> MclqChunk {
    let vertices = (0..MclqChunk::VERTEX_COUNT)
        .map(|i| LiquidVertex {
            union_data: [i as u8, (i * 2) as u8, (i * 3) as u8, 0],
            height: 10.0 + i as f32 * 0.25,
        })
        .collect();
    let mut tile_flags = [0u8; 64];
    for (i, flag) in tile_flags.iter_mut().enumerate() {
        *flag = (i % 16) as u8;
    }
    MclqChunk {
        min_height: 10.0,
        max_height: 30.0,
        vertices,
        tile_flags,
        liquid_type: LiquidType::Water,
    }
}

fn mcnk_with_liquid(index_x: u32, vertex_colors: Option<MccvChunk>) -> McnkChunk {
    let header = McnkHeader {
        flags: McnkFlags {
            value: if vertex_colors.is_some() {
                FLAG_LIQUID_RIVER | FLAG_HAS_MCCV
            } else {
                FLAG_LIQUID_RIVER
            },
        },
        index_x,
        index_y: 0,
        n_layers: 0,
        n_doodad_refs: 0,
        multipurpose_field: McnkHeader::multipurpose_from_offsets(0, 0),
        ofs_layer: 0,
        ofs_refs: 0,
        ofs_alpha: 0,
        size_alpha: 0,
        ofs_shadow: 0,
        size_shadow: 0,
        area_id: 0,
        n_map_obj_refs: 0,
        holes_low_res: 0,
        unknown_but_used: 0,
        pred_tex: [0; 8],
        no_effect_doodad: [0; 8],
        unknown_8bytes: [0; 8],
        ofs_snd_emitters: 0,
        n_snd_emitters: 0,
        ofs_liquid: 0,
        size_liquid: 0,
        position: [0.0, 0.0, 0.0],
        ofs_mccv: 0,
        ofs_mclv: 0,
        unused: 0,
        _padding: [0; 8],
    };

    McnkChunk {
        header,
        heights: Some(McvtChunk {
            heights: vec![5.0; 145],
        }),
        normals: None,
        layers: None,
        materials: None,
        refs: None,
        doodad_refs: None,
        wmo_refs: None,
        alpha: None,
        shadow: None,
        vertex_colors,
        vertex_lighting: None,
        sound_emitters: None,
        liquid: Some(liquid()),
        doodad_disable: None,
        blend_batches: None,
    }
}

fn assert_liquid_survived(parsed: &McnkChunk, what: &str) {
    let expected = liquid();
    let got = parsed
        .liquid
        .as_ref()
        .unwrap_or_else(|| panic!("{what}: liquid lost in build -> serialize -> parse"));

    assert_eq!(got.min_height, expected.min_height, "{what}: min_height");
    assert_eq!(got.max_height, expected.max_height, "{what}: max_height");
    assert_eq!(got.liquid_type, expected.liquid_type, "{what}: liquid_type");
    assert_eq!(
        got.vertices.len(),
        expected.vertices.len(),
        "{what}: vertex count"
    );
    for (i, (g, e)) in got.vertices.iter().zip(&expected.vertices).enumerate() {
        assert_eq!(g.union_data, e.union_data, "{what}: vertex {i} union_data");
        assert_eq!(g.height, e.height, "{what}: vertex {i} height");
    }
    assert_eq!(got.tile_flags, expected.tile_flags, "{what}: tile_flags");
}

fn round_trip(builder: AdtBuilder, what: &str) -> Vec<McnkChunk> {
    let bytes = builder
        .build()
        .unwrap_or_else(|e| panic!("{what}: build failed: {e}"))
        .to_bytes()
        .unwrap_or_else(|e| panic!("{what}: to_bytes failed: {e}"));

    let parsed = parse_adt(&mut Cursor::new(bytes))
        .unwrap_or_else(|e| panic!("{what}: parse of serialized tile failed: {e}"));

    match parsed {
        ParsedAdt::Root(root) => root.mcnk_chunks,
        _ => panic!("{what}: expected a root ADT"),
    }
}

/// MCLQ is the very last data in the file: one terrain chunk, nothing after its liquid.
#[test]
fn mclq_last_in_file_vanilla_early() {
    let chunks = round_trip(
        AdtBuilder::new()
            .with_version(AdtVersion::VanillaEarly)
            .add_texture("terrain/grass.blp")
            .add_mcnk_chunk(mcnk_with_liquid(0, None)),
        "VanillaEarly",
    );
    assert_eq!(chunks.len(), 1);
    assert_liquid_survived(&chunks[0], "VanillaEarly");
}

/// Same for TBC: MFBO is written before the terrain chunks, so MCLQ still ends the file.
#[test]
fn mclq_last_in_file_tbc() {
    let chunks = round_trip(
        AdtBuilder::new()
            .with_version(AdtVersion::TBC)
            .add_texture("terrain/grass.blp")
            .add_flight_bounds(MfboChunk {
                max_plane: [500; 9],
                min_plane: [0; 9],
            })
            .add_mcnk_chunk(mcnk_with_liquid(0, None)),
        "TBC",
    );
    assert_eq!(chunks.len(), 1);
    assert_liquid_survived(&chunks[0], "TBC");
}

/// VanillaLate terrain chunk with vertex colours: MCCV follows MCLQ inside the chunk, so
/// an over-read does not hit end of file here. The liquid must still come back intact.
#[test]
fn mclq_followed_by_mccv_vanilla_late() {
    let chunks = round_trip(
        AdtBuilder::new()
            .with_version(AdtVersion::VanillaLate)
            .add_texture("terrain/grass.blp")
            .add_mcnk_chunk(mcnk_with_liquid(0, Some(MccvChunk::default()))),
        "VanillaLate",
    );
    assert_eq!(chunks.len(), 1);
    assert_liquid_survived(&chunks[0], "VanillaLate");
    assert!(chunks[0].vertex_colors.is_some());
}

/// Several terrain chunks, each ending in MCLQ: only the last one touches end of file.
#[test]
fn mclq_in_every_chunk_last_one_ends_file() {
    let chunks = round_trip(
        AdtBuilder::new()
            .with_version(AdtVersion::VanillaEarly)
            .add_texture("terrain/grass.blp")
            .add_mcnk_chunk(mcnk_with_liquid(0, None))
            .add_mcnk_chunk(mcnk_with_liquid(1, None))
            .add_mcnk_chunk(mcnk_with_liquid(2, None)),
        "three chunks",
    );
    assert_eq!(chunks.len(), 3);
    for (i, chunk) in chunks.iter().enumerate() {
        assert_liquid_survived(chunk, &format!("three chunks, chunk {i}"));
    }
}
