//! Totality probes (pass 2) for wow-wmo: WmoParser::parse_root (legacy parser.rs), Chunk::read_data, group MOGP size.
#![allow(dead_code)]
use std::alloc::{GlobalAlloc, Layout, System};
use std::io::Cursor;
use std::panic::{AssertUnwindSafe, catch_unwind};
use std::sync::Mutex;
use std::sync::atomic::{AtomicUsize, Ordering};

const ALLOC_LIMIT: usize = 64 << 20;
/// Threshold used by the header sweeps (inputs are <= 512 bytes).
const SWEEP_LIMIT: usize = 1 << 20;
/// Requests above this are refused (null => the Rust runtime aborts the process).
const ALLOC_REFUSE: usize = 8 << 30;

struct Recording;
static MAX_REQ: AtomicUsize = AtomicUsize::new(0);

/// When TRACE is on, remember the first crate frame of the largest request >= SWEEP_LIMIT.
static TRACE: std::sync::atomic::AtomicBool = std::sync::atomic::AtomicBool::new(false);
static IN_BT: std::sync::atomic::AtomicBool = std::sync::atomic::AtomicBool::new(false);
static BIG_SITE: Mutex<(usize, String)> = Mutex::new((0, String::new()));
fn note_big(size: usize) {
    if size >= SWEEP_LIMIT && TRACE.load(Ordering::Relaxed) && !IN_BT.swap(true, Ordering::SeqCst) {
        let bt = std::backtrace::Backtrace::force_capture().to_string();
        let lines: Vec<&str> = bt.lines().collect();
        let mut site = String::from("<no crate frame>");
        for (i, l) in lines.iter().enumerate() {
            if l.contains(": wow_") || l.contains(": <wow_") {
                let at = lines.get(i + 1).map(|s| s.trim()).unwrap_or("");
                site = format!("{} {}", l.trim().splitn(2, ": ").nth(1).unwrap_or(l), at);
                break;
            }
        }
        if let Ok(mut g) = BIG_SITE.try_lock() {
            if size > g.0 {
                *g = (size, site);
            }
        }
        IN_BT.store(false, Ordering::SeqCst);
    }
}
/// Run `f` once more with allocation-site tracing and return the site of the largest big request.
fn big_site<T, E>(f: impl FnOnce() -> Result<T, E>) -> String {
    *BIG_SITE.lock().unwrap_or_else(|e| e.into_inner()) = (0, String::new());
    TRACE.store(true, Ordering::SeqCst);
    let _ = catch_unwind(AssertUnwindSafe(|| f().map(|_| ()).map_err(|_| ())));
    TRACE.store(false, Ordering::SeqCst);
    BIG_SITE.lock().unwrap_or_else(|e| e.into_inner()).1.clone()
}

unsafe impl GlobalAlloc for Recording {
    unsafe fn alloc(&self, l: Layout) -> *mut u8 {
        MAX_REQ.fetch_max(l.size(), Ordering::Relaxed);
        note_big(l.size());
        if l.size() > ALLOC_REFUSE {
            return std::ptr::null_mut();
        }
        unsafe { System.alloc(l) }
    }
    unsafe fn alloc_zeroed(&self, l: Layout) -> *mut u8 {
        MAX_REQ.fetch_max(l.size(), Ordering::Relaxed);
        note_big(l.size());
        if l.size() > ALLOC_REFUSE {
            return std::ptr::null_mut();
        }
        unsafe { System.alloc_zeroed(l) }
    }
    unsafe fn realloc(&self, p: *mut u8, l: Layout, n: usize) -> *mut u8 {
        MAX_REQ.fetch_max(n, Ordering::Relaxed);
        note_big(n);
        if n > ALLOC_REFUSE {
            return std::ptr::null_mut();
        }
        unsafe { System.realloc(p, l, n) }
    }
    unsafe fn dealloc(&self, p: *mut u8, l: Layout) {
        unsafe { System.dealloc(p, l) }
    }
}

#[global_allocator]
static GLOBAL: Recording = Recording;

static LOCK: Mutex<()> = Mutex::new(());

/// Outcome of one probe.
#[derive(Debug)]
struct Outcome {
    panic: Option<String>,
    max_alloc: usize,
    returned: &'static str,
    err: String,
}

fn probe<T, E: std::fmt::Debug>(f: impl FnOnce() -> Result<T, E>) -> Outcome {
    let _g = LOCK.lock().unwrap_or_else(|e| e.into_inner());
    MAX_REQ.store(0, Ordering::Relaxed);
    let r = catch_unwind(AssertUnwindSafe(|| f().map(|_| ()).map_err(|e| { format!("{e:?}").chars().take(120).collect::<String>() })));
    let max_alloc = MAX_REQ.load(Ordering::Relaxed);
    match r {
        Ok(Ok(())) => Outcome { panic: None, max_alloc, returned: "Ok", err: String::new() },
        Ok(Err(e)) => Outcome { panic: None, max_alloc, returned: "Err", err: e },
        Err(p) => {
            let msg = p
                .downcast_ref::<String>()
                .cloned()
                .or_else(|| p.downcast_ref::<&str>().map(|s| s.to_string()))
                .unwrap_or_else(|| "<non-string panic>".into());
            Outcome { panic: Some(msg), max_alloc, returned: "panic", err: String::new() }
        }
    }
}

fn check(name: &str, o: Outcome) {
    eprintln!("{name}: {o:?}");
    assert!(o.panic.is_none(), "{name}: panicked: {:?}", o.panic);
    assert!(
        o.max_alloc <= ALLOC_LIMIT,
        "{name}: single allocation request of {} bytes ({} MiB) from a tiny input (returned {})",
        o.max_alloc,
        o.max_alloc >> 20,
        o.returned
    );
}

fn put_u32(buf: &mut [u8], off: usize, v: u32) {
    buf[off..off + 4].copy_from_slice(&v.to_le_bytes());
}


fn chunk(magic: &[u8; 4], data: &[u8]) -> Vec<u8> {
    let mut v = magic.to_vec();
    v.extend_from_slice(&(data.len() as u32).to_le_bytes());
    v.extend_from_slice(data);
    v
}

fn chunk_hdr(magic: &[u8; 4], size: u32) -> Vec<u8> {
    let mut v = magic.to_vec();
    v.extend_from_slice(&size.to_le_bytes());
    v
}

fn legacy_root(b: &[u8]) -> Result<wow_wmo::WmoRoot, wow_wmo::WmoError> {
    wow_wmo::WmoParser::new().parse_root(&mut Cursor::new(b))
}

/// MOHD (64 bytes) with one count field set: 0 nMaterials, 1 nGroups, 2 nPortals, 3 nLights,
/// 4 nDoodadNames, 5 nDoodadDefs, 6 nDoodadSets.
fn root_with(count_index: usize, count: u32, extra: &[(&[u8; 4], usize)]) -> Vec<u8> {
    let mut b = chunk(b"REVM", &17u32.to_le_bytes());
    let mut mohd = vec![0u8; 64];
    put_u32(&mut mohd, count_index * 4, count);
    b.extend(chunk(b"DHOM", &mohd));
    for (m, n) in extra {
        b.extend(chunk(m, &vec![0u8; *n]));
    }
    b
}

fn report(name: &str, b: &[u8]) {
    let site = big_site(|| legacy_root(b));
    eprintln!("{name}: input {} bytes, alloc_site=[{site}]", b.len());
    check(name, probe(|| legacy_root(b)));
}

#[test]
fn baseline_legacy_root() {
    let b = root_with(0, 1, &[(b"TMOM", 64)]);
    let o = probe(|| legacy_root(&b));
    eprintln!("baseline: {o:?}");
    assert_eq!(o.returned, "Ok");
    assert!(o.max_alloc < (1 << 20));
}

/// parser.rs:350 Vec::with_capacity(n_materials) (MOMT chunk present)
#[test]
fn legacy_n_materials() {
    report("legacy_n_materials", &root_with(0, 0x0100_0000, &[(b"TMOM", 64)]));
}
/// parser.rs:434 Vec::with_capacity(n_groups) (MOGN + MOGI present)
#[test]
fn legacy_n_groups() {
    report("legacy_n_groups", &root_with(1, 0x0100_0000, &[(b"NGOM", 4), (b"IGOM", 32)]));
}
/// parser.rs:533 Vec::with_capacity(n_portals) (MOPV + MOPT present)
#[test]
fn legacy_n_portals() {
    report("legacy_n_portals", &root_with(2, 0x0100_0000, &[(b"VPOM", 48), (b"TPOM", 20)]));
}
/// parser.rs:679 Vec::with_capacity(n_lights) (MOLT present)
#[test]
fn legacy_n_lights() {
    report("legacy_n_lights", &root_with(3, 0x0100_0000, &[(b"TLOM", 48)]));
}
/// parser.rs:862 Vec::with_capacity(n_doodad_sets) (MODS present)
#[test]
fn legacy_n_doodad_sets() {
    report("legacy_n_doodad_sets", &root_with(6, 0x0100_0000, &[(b"SDOM", 32)]));
}

/// parser.rs:547 per-portal Vec::with_capacity(n_vertices: u16): each request is <= 65535*12 bytes,
/// so never a single large request (informational: 20-byte record -> 768 KiB reservation each).
#[test]
fn legacy_portal_vertex_count_u16_is_bounded() {
    let mut mopt = Vec::new();
    for _ in 0..8 {
        let mut rec = vec![0u8; 20];
        rec[2..4].copy_from_slice(&0xFFFFu16.to_le_bytes()); // n_vertices
        mopt.extend(rec);
    }
    let mut b = root_with(2, 8, &[(b"VPOM", 48)]);
    b.extend(chunk(b"TPOM", &mopt));
    let o = probe(|| legacy_root(&b));
    eprintln!("legacy_portal_vertex_count_u16: {o:?}");
    assert!(o.panic.is_none());
    assert!(o.max_alloc <= 65535 * 12);
}

/// chunk.rs:106 Chunk::read_data: vec![0; header.size]; read_chunks() seeks past EOF without complaint,
/// so a MOTX header at EOF declaring 0x1000_0000 bytes reaches parse_textures -> read_data.
#[test]
fn legacy_chunk_read_data_size() {
    let mut b = root_with(0, 0, &[]);
    b.extend(chunk_hdr(b"XTOM", 0x1000_0000));
    report("legacy_chunk_read_data_size", &b);
}
/// Same with 0x7FFF_FFFF (no 256 MiB cap on this path, unlike chunk_discovery).
#[test]
fn legacy_chunk_read_data_size_2g() {
    let mut b = root_with(0, 0, &[]);
    b.extend(chunk_hdr(b"XTOM", 0x7FFF_FFFF));
    report("legacy_chunk_read_data_size_2g", &b);
}

/// group_parser.rs:204 `chunk_info.size - 68`: MOGP chunk declaring 4 bytes, followed by >= 68 bytes
/// (all zero = empty dummy chunks for chunk discovery) so that MogpHeader::read succeeds.
#[test]
fn group_mogp_size_smaller_than_header() {
    let mut b = chunk(b"REVM", &17u32.to_le_bytes());
    b.extend(chunk_hdr(b"PGOM", 4));
    b.extend([0u8; 4 + 72]);
    let f = |b: &[u8]| wow_wmo::parse_wmo(&mut Cursor::new(b));
    check("group_mogp_size_smaller_than_header", probe(|| f(&b)));
}
