//! Totality probes (pass 2) for wow-adt: MCNK header sizes (MCLQ / MCAL / scan), root/split chunk buffers.
#![allow(dead_code)]
use std::alloc::{GlobalAlloc, Layout, System};
use std::io::Cursor;
use std::panic::{AssertUnwindSafe, catch_unwind};
use std::sync::Mutex;
use std::sync::atomic::{AtomicUsize, Ordering};

const ALLOC_LIMIT: usize = 64 << 20;
/// Threshold used by the header sweeps (inputs are <= 512 bytes).
const SWEEP_LIMIT: usize = 1 << 20;
/// Requests above this are refused (null => the Rust runtime aborts the process).
const ALLOC_REFUSE: usize = 8 << 30;

struct Recording;
static MAX_REQ: AtomicUsize = AtomicUsize::new(0);

/// When TRACE is on, remember the first crate frame of the largest request >= SWEEP_LIMIT.
static TRACE: std::sync::atomic::AtomicBool = std::sync::atomic::AtomicBool::new(false);
static IN_BT: std::sync::atomic::AtomicBool = std::sync::atomic::AtomicBool::new(false);
static BIG_SITE: Mutex<(usize, String)> = Mutex::new((0, String::new()));
fn note_big(size: usize) {
    if size >= SWEEP_LIMIT && TRACE.load(Ordering::Relaxed) && !IN_BT.swap(true, Ordering::SeqCst) {
        let bt = std::backtrace::Backtrace::force_capture().to_string();
        let lines: Vec<&str> = bt.lines().collect();
        let mut site = String::from("<no crate frame>");
        for (i, l) in lines.iter().enumerate() {
            if l.contains(": wow_") || l.contains(": <wow_") {
                let at = lines.get(i + 1).map(|s| s.trim()).unwrap_or("");
                site = format!("{} {}", l.trim().splitn(2, ": ").nth(1).unwrap_or(l), at);
                break;
            }
        }
        if let Ok(mut g) = BIG_SITE.try_lock() {
            if size > g.0 {
                *g = (size, site);
            }
        }
        IN_BT.store(false, Ordering::SeqCst);
    }
}
/// Run `f` once more with allocation-site tracing and return the site of the largest big request.
fn big_site<T, E>(f: impl FnOnce() -> Result<T, E>) -> String {
    *BIG_SITE.lock().unwrap_or_else(|e| e.into_inner()) = (0, String::new());
    TRACE.store(true, Ordering::SeqCst);
    let _ = catch_unwind(AssertUnwindSafe(|| f().map(|_| ()).map_err(|_| ())));
    TRACE.store(false, Ordering::SeqCst);
    BIG_SITE.lock().unwrap_or_else(|e| e.into_inner()).1.clone()
}

unsafe impl GlobalAlloc for Recording {
    unsafe fn alloc(&self, l: Layout) -> *mut u8 {
        MAX_REQ.fetch_max(l.size(), Ordering::Relaxed);
        note_big(l.size());
        if l.size() > ALLOC_REFUSE {
            return std::ptr::null_mut();
        }
        unsafe { System.alloc(l) }
    }
    unsafe fn alloc_zeroed(&self, l: Layout) -> *mut u8 {
        MAX_REQ.fetch_max(l.size(), Ordering::Relaxed);
        note_big(l.size());
        if l.size() > ALLOC_REFUSE {
            return std::ptr::null_mut();
        }
        unsafe { System.alloc_zeroed(l) }
    }
    unsafe fn realloc(&self, p: *mut u8, l: Layout, n: usize) -> *mut u8 {
        MAX_REQ.fetch_max(n, Ordering::Relaxed);
        note_big(n);
        if n > ALLOC_REFUSE {
            return std::ptr::null_mut();
        }
        unsafe { System.realloc(p, l, n) }
    }
    unsafe fn dealloc(&self, p: *mut u8, l: Layout) {
        unsafe { System.dealloc(p, l) }
    }
}

#[global_allocator]
static GLOBAL: Recording = Recording;

static LOCK: Mutex<()> = Mutex::new(());

/// Outcome of one probe.
#[derive(Debug)]
struct Outcome {
    panic: Option<String>,
    max_alloc: usize,
    returned: &'static str,
    err: String,
}

fn probe<T, E: std::fmt::Debug>(f: impl FnOnce() -> Result<T, E>) -> Outcome {
    let _g = LOCK.lock().unwrap_or_else(|e| e.into_inner());
    MAX_REQ.store(0, Ordering::Relaxed);
    let r = catch_unwind(AssertUnwindSafe(|| f().map(|_| ()).map_err(|e| { format!("{e:?}").chars().take(120).collect::<String>() })));
    let max_alloc = MAX_REQ.load(Ordering::Relaxed);
    match r {
        Ok(Ok(())) => Outcome { panic: None, max_alloc, returned: "Ok", err: String::new() },
        Ok(Err(e)) => Outcome { panic: None, max_alloc, returned: "Err", err: e },
        Err(p) => {
            let msg = p
                .downcast_ref::<String>()
                .cloned()
                .or_else(|| p.downcast_ref::<&str>().map(|s| s.to_string()))
                .unwrap_or_else(|| "<non-string panic>".into());
            Outcome { panic: Some(msg), max_alloc, returned: "panic", err: String::new() }
        }
    }
}

fn check(name: &str, o: Outcome) {
    eprintln!("{name}: {o:?}");
    assert!(o.panic.is_none(), "{name}: panicked: {:?}", o.panic);
    assert!(
        o.max_alloc <= ALLOC_LIMIT,
        "{name}: single allocation request of {} bytes ({} MiB) from a tiny input (returned {})",
        o.max_alloc,
        o.max_alloc >> 20,
        o.returned
    );
}

fn put_u32(buf: &mut [u8], off: usize, v: u32) {
    buf[off..off + 4].copy_from_slice(&v.to_le_bytes());
}


fn chunk(magic: &[u8; 4], data: &[u8]) -> Vec<u8> {
    let mut v = magic.to_vec();
    v.extend_from_slice(&(data.len() as u32).to_le_bytes());
    v.extend_from_slice(data);
    v
}

fn chunk_hdr(magic: &[u8; 4], size: u32) -> Vec<u8> {
    let mut v = magic.to_vec();
    v.extend_from_slice(&size.to_le_bytes());
    v
}

use wow_adt::AdtVersion;
use wow_adt::api::parse_adt;
use wow_adt::builder::AdtBuilder;
use wow_adt::chunks::mcnk::McnkChunk;
use wow_adt::chunks::mcnk::header::{McnkFlags, McnkHeader};
use wow_adt::chunks::mcnk::mcvt::McvtChunk;

/// Helper: Create minimal MCNK chunk with heights
fn create_mcnk_with_heights(base_height: f32) -> McnkChunk {
    let heights = McvtChunk {
        heights: vec![base_height; 145],
    };

    // Create zero-filled MCNK header
    let header = McnkHeader {
        flags: McnkFlags { value: 0 },
        index_x: 0,
        index_y: 0,
        n_layers: 0,
        n_doodad_refs: 0,
        multipurpose_field: McnkHeader::multipurpose_from_offsets(0, 0),
        ofs_layer: 0,
        ofs_refs: 0,
        ofs_alpha: 0,
        size_alpha: 0,
        ofs_shadow: 0,
        size_shadow: 0,
        area_id: 0,
        n_map_obj_refs: 0,
        holes_low_res: 0,
        unknown_but_used: 0,
        pred_tex: [0; 8],
        no_effect_doodad: [0; 8],
        unknown_8bytes: [0; 8],
        ofs_snd_emitters: 0,
        n_snd_emitters: 0,
        ofs_liquid: 0,
        size_liquid: 0,
        position: [0.0, 0.0, 0.0],
        ofs_mccv: 0,
        ofs_mclv: 0,
        unused: 0,
        _padding: [0; 8],
    };

    McnkChunk {
        header,
        heights: Some(heights),
        normals: None,
        layers: None,
        materials: None,
        refs: None,
        doodad_refs: None,
        wmo_refs: None,
        alpha: None,
        shadow: None,
        vertex_colors: None,
        vertex_lighting: None,
        sound_emitters: None,
        liquid: None,
        doodad_disable: None,
        blend_batches: None,
    }
}


fn parse(b: &[u8]) -> wow_adt::Result<wow_adt::api::ParsedAdt> {
    parse_adt(&mut Cursor::new(b))
}

fn minimal_adt(version: AdtVersion) -> Vec<u8> {
    AdtBuilder::new()
        .with_version(version)
        .add_texture("terrain/grass.blp")
        .add_mcnk_chunk(create_mcnk_with_heights(100.0))
        .build()
        .expect("build")
        .to_bytes()
        .expect("to_bytes")
}

fn find(b: &[u8], magic: &[u8; 4]) -> usize {
    b.windows(4).position(|w| w == magic).expect("magic present")
}

fn report(name: &str, b: &[u8]) {
    let site = big_site(|| parse(b));
    eprintln!("{name}: input {} bytes, alloc_site=[{site}]", b.len());
    check(name, probe(|| parse(b)));
}

#[test]
fn baseline() {
    let b = minimal_adt(AdtVersion::VanillaEarly);
    let o = probe(|| parse(&b));
    let m = find(&b, b"KNCM");
    eprintln!("{} bytes, MCNK at {m:#x}, first subchunk {:?}: {o:?}", b.len(), std::str::from_utf8(&b[m + 0x90..m + 0x94]));
    assert_eq!(o.returned, "Ok", "{o:?}");
    // builder layout: 8-byte chunk header + 136-byte MCNK header (128 + 8 padding), MCVT at MCNK+0x90
    assert_eq!(&b[m + 0x90..m + 0x94], b"TVCM");
}

/// chunk.rs:377 MCLQ: `vec![0u8; header.size_liquid]`. MCNK header +0x60 ofs_liquid, +0x64 size_liquid.
/// NOT REPRODUCIBLE beyond 1 MiB: McnkHeader (header.rs) reads both fields through
/// `#[br(map = |x| if x >= 0x100000 { 0 } else { x })]`, so size_liquid <= 0xFFFFF when it reaches the vec!.
#[test]
fn mcnk_size_liquid_is_capped_at_1mib() {
    let mut worst = 0;
    for val in [0xFFFF_FFFFu32, 0x1000_0000, 0x0010_0000, 0x000F_FFFF] {
        let mut b = minimal_adt(AdtVersion::VanillaEarly);
        let h = find(&b, b"KNCM") + 8;
        put_u32(&mut b, h + 0x60, 0x90); // any in-chunk offset (here: the MCVT sub-chunk)
        put_u32(&mut b, h + 0x64, val);
        let site = big_site(|| parse(&b));
        let o = probe(|| parse(&b));
        eprintln!("mcnk_size_liquid={val:#x}: alloc_site=[{site}] {o:?}");
        assert!(o.panic.is_none());
        worst = worst.max(o.max_alloc);
    }
    assert_eq!(worst, 0x000F_FFFF);
}

/// chunk.rs:580 read_subchunk_with_size: `vec![0u8; expected_size]` with expected_size = header.size_alpha
/// (+0x24 ofs_alpha, +0x28 size_alpha); same for size_shadow (+0x2C / +0x30).
#[test]
fn mcnk_size_alpha() {
    let mut b = minimal_adt(AdtVersion::VanillaEarly);
    let h = find(&b, b"KNCM") + 8;
    put_u32(&mut b, h + 0x24, 0x90);
    put_u32(&mut b, h + 0x28, 0x1000_0000);
    report("mcnk_size_alpha", &b);
}
#[test]
fn mcnk_size_shadow() {
    let mut b = minimal_adt(AdtVersion::VanillaEarly);
    let h = find(&b, b"KNCM") + 8;
    put_u32(&mut b, h + 0x2C, 0x90);
    put_u32(&mut b, h + 0x30, 0x1000_0000);
    report("mcnk_size_shadow", &b);
}

/// chunk.rs:621 scan_for_subchunk: ofs_height (+0x14) = 0 => MCVT is searched by magic inside the MCNK;
/// the found sub-chunk header's own size field (here MCVT at MCNK+0x90) is used for `vec![0u8; size]`.
#[test]
fn mcnk_scan_subchunk_size() {
    let mut b = minimal_adt(AdtVersion::VanillaEarly);
    let m = find(&b, b"KNCM");
    let h = m + 8;
    put_u32(&mut b, h + 0x14, 0); // ofs_height = 0 -> scan
    assert_eq!(&b[m + 0x90..m + 0x94], b"TVCM");
    put_u32(&mut b, m + 0x94, 0x1000_0000); // MCVT sub-chunk size
    report("mcnk_scan_subchunk_size", &b);
}

/// root_parser.rs 93..195 / split_parser.rs 74..231: `vec![0u8; chunk_info.size]` for MTEX/MMDX/MMID/
/// MWMO/MWID/MDDF/MODF... `chunk_info` comes from `discover_chunks` on the same reader, which drops any
/// chunk whose end exceeds the file size, and root_parser/split_parser are private modules only called
/// from api::parse_adt with that discovery. So the buffer can never exceed the input length.
/// Demonstration: every top-level chunk size field set to hostile values => largest request stays small.
#[test]
fn top_level_chunk_sizes_are_bounded_by_discovery() {
    let mut worst = 0usize;
    let mut panics = Vec::new();
    // monolithic root (WotLK), plus hand-made split _tex0 / _obj0 files
    let mut files: Vec<(String, Vec<u8>)> = vec![
        ("root-vanilla".into(), minimal_adt(AdtVersion::VanillaEarly)),
        ("root-wotlk".into(), minimal_adt(AdtVersion::WotLK)),
    ];
    let mut tex = chunk(b"REVM", &18u32.to_le_bytes());
    tex.extend(chunk(b"PMAM", &[0u8; 4])); // MAMP
    tex.extend(chunk(b"XETM", b"a.blp\0"));
    tex.extend(chunk(b"KNCM", &[0u8; 16]));
    files.push(("tex0".into(), tex));
    let mut obj = chunk(b"REVM", &18u32.to_le_bytes());
    obj.extend(chunk(b"XDMM", b"a.m2\0"));
    obj.extend(chunk(b"DIMM", &[0u8; 4]));
    obj.extend(chunk(b"OMWM", b"a.wmo\0"));
    obj.extend(chunk(b"DIWM", &[0u8; 4]));
    obj.extend(chunk(b"FDDM", &[0u8; 36]));
    obj.extend(chunk(b"FDOM", &[0u8; 64]));
    obj.extend(chunk(b"KNCM", &[0u8; 16]));
    files.push(("obj0".into(), obj));

    for (name, base) in &files {
        let o = probe(|| parse(base));
        let variant = match parse(base) {
            Ok(wow_adt::api::ParsedAdt::Root(_)) => "Root",
            Ok(wow_adt::api::ParsedAdt::Tex0(_)) | Ok(wow_adt::api::ParsedAdt::Tex1(_)) => "Tex",
            Ok(wow_adt::api::ParsedAdt::Obj0(_)) | Ok(wow_adt::api::ParsedAdt::Obj1(_)) => "Obj",
            Ok(_) => "other",
            Err(_) => "Err",
        };
        eprintln!("{name}: {} bytes, pristine -> {} {} variant={variant} max_alloc={}", base.len(), o.returned, o.err, o.max_alloc);
        assert!(name.starts_with("root") && variant == "Root" || name == "tex0" && variant == "Tex" || name == "obj0" && variant == "Obj");
        // walk the top-level chunk list
        let mut off = 0usize;
        let mut size_fields = Vec::new();
        while off + 8 <= base.len() {
            let sz = u32::from_le_bytes(base[off + 4..off + 8].try_into().unwrap()) as usize;
            size_fields.push(off + 4);
            off += 8 + sz;
        }
        for f in size_fields {
            for val in [0xFFFF_FFFFu32, 0x7FFF_FFFF, 0x1000_0000, 0x0400_0000, base.len() as u32] {
                let mut b = base.clone();
                put_u32(&mut b, f, val);
                let o = probe(|| parse(&b));
                worst = worst.max(o.max_alloc);
                if let Some(p) = o.panic {
                    panics.push(format!("{name} +{f:#x}={val:#x}: {p}"));
                }
            }
        }
    }
    eprintln!("top-level size sweep: worst single allocation {worst} bytes, panics {panics:?}");
    assert!(panics.is_empty());
    assert!(worst < (1 << 20));
}
