//! Totality probes (pass 2) for wow-m2: MD21 chunk parsers, FixedString.
//!
//! Every test feeds a tiny crafted byte string to a public parse entry point
//! and asserts that the call (a) does not panic and (b) never requests a single
//! allocation larger than `ALLOC_LIMIT` (64 MiB) - the inputs are < 1 KiB.
//!
//! Tests touching the allocator high-water mark are serialised through `LOCK`.

use std::alloc::{GlobalAlloc, Layout, System};
use std::io::Cursor;
use std::panic::{AssertUnwindSafe, catch_unwind};
use std::sync::Mutex;
use std::sync::atomic::{AtomicUsize, Ordering};

const ALLOC_LIMIT: usize = 64 << 20;
/// Threshold used by the header sweeps (inputs are <= 512 bytes).
const SWEEP_LIMIT: usize = 1 << 20;
/// Requests above this are refused (null => the Rust runtime aborts the process).
const ALLOC_REFUSE: usize = 8 << 30;

struct Recording;
static MAX_REQ: AtomicUsize = AtomicUsize::new(0);

unsafe impl GlobalAlloc for Recording {
    unsafe fn alloc(&self, l: Layout) -> *mut u8 {
        MAX_REQ.fetch_max(l.size(), Ordering::Relaxed);
        if l.size() > ALLOC_REFUSE {
            return std::ptr::null_mut();
        }
        unsafe { System.alloc(l) }
    }
    unsafe fn alloc_zeroed(&self, l: Layout) -> *mut u8 {
        MAX_REQ.fetch_max(l.size(), Ordering::Relaxed);
        if l.size() > ALLOC_REFUSE {
            return std::ptr::null_mut();
        }
        unsafe { System.alloc_zeroed(l) }
    }
    unsafe fn realloc(&self, p: *mut u8, l: Layout, n: usize) -> *mut u8 {
        MAX_REQ.fetch_max(n, Ordering::Relaxed);
        if n > ALLOC_REFUSE {
            return std::ptr::null_mut();
        }
        unsafe { System.realloc(p, l, n) }
    }
    unsafe fn dealloc(&self, p: *mut u8, l: Layout) {
        unsafe { System.dealloc(p, l) }
    }
}

#[global_allocator]
static GLOBAL: Recording = Recording;

static LOCK: Mutex<()> = Mutex::new(());

/// Outcome of one probe.
#[derive(Debug)]
struct Outcome {
    panic: Option<String>,
    max_alloc: usize,
    returned: &'static str,
}

fn probe<T, E>(f: impl FnOnce() -> Result<T, E>) -> Outcome {
    let _g = LOCK.lock().unwrap_or_else(|e| e.into_inner());
    MAX_REQ.store(0, Ordering::Relaxed);
    let r = catch_unwind(AssertUnwindSafe(|| f().map(|_| ()).map_err(|_| ())));
    let max_alloc = MAX_REQ.load(Ordering::Relaxed);
    match r {
        Ok(Ok(())) => Outcome { panic: None, max_alloc, returned: "Ok" },
        Ok(Err(())) => Outcome { panic: None, max_alloc, returned: "Err" },
        Err(p) => {
            let msg = p
                .downcast_ref::<String>()
                .cloned()
                .or_else(|| p.downcast_ref::<&str>().map(|s| s.to_string()))
                .unwrap_or_else(|| "<non-string panic>".into());
            Outcome { panic: Some(msg), max_alloc, returned: "panic" }
        }
    }
}

fn check(name: &str, o: Outcome) {
    eprintln!("{name}: {o:?}");
    assert!(o.panic.is_none(), "{name}: panicked: {:?}", o.panic);
    assert!(
        o.max_alloc <= ALLOC_LIMIT,
        "{name}: single allocation request of {} bytes ({} MiB) from a tiny input (returned {})",
        o.max_alloc,
        o.max_alloc >> 20,
        o.returned
    );
}

fn put_u32(buf: &mut [u8], off: usize, v: u32) {
    buf[off..off + 4].copy_from_slice(&v.to_le_bytes());
}

/// Minimal valid WotLK (version 264) MD20 file: header only, all arrays empty.
fn minimal_m2(version: u32) -> Vec<u8> {
    let mut b = vec![0u8; 0x200];
    b[0..4].copy_from_slice(b"MD20");
    put_u32(&mut b, 4, version);
    b
}

/// MD21 container: MD21 chunk (minimal v272 MD20) followed by one extra chunk whose
/// header declares `declared` bytes and which carries `payload`.
fn chunked(magic: &[u8; 4], declared: u32, payload: &[u8]) -> Vec<u8> {
    let mut b = Vec::new();
    b.extend_from_slice(b"MD21");
    b.extend_from_slice(&0x200u32.to_le_bytes());
    b.extend_from_slice(&minimal_m2(272));
    b.extend_from_slice(magic);
    b.extend_from_slice(&declared.to_le_bytes());
    b.extend_from_slice(payload);
    b
}

fn honest(magic: &[u8; 4], payload: &[u8]) -> Vec<u8> {
    chunked(magic, payload.len() as u32, payload)
}

fn u32s(v: &[u32]) -> Vec<u8> {
    v.iter().flat_map(|x| x.to_le_bytes()).collect()
}

fn run_m2(b: &[u8]) -> Outcome {
    probe(|| wow_m2::parse_m2(&mut Cursor::new(b)))
}

#[test]
fn baseline_chunked_parses() {
    let b = honest(b"RPID", &u32s(&[1, 2, 3, 4]));
    let o = run_m2(&b);
    assert_eq!(o.returned, "Ok", "{o:?}");
    assert!(o.max_alloc < (1 << 20));
}

// ---- counts stored INSIDE an honest, tiny chunk ----------------------------------------

/// PADC: weight_count (first u32 of payload) -> Vec::<TextureWeight>::with_capacity (r_e.rs:426)
#[test]
fn padc_weight_count() {
    let b = honest(b"PADC", &u32s(&[0x0100_0000, 0, 0, 0]));
    check("padc_weight_count", run_m2(&b));
}
/// PADC: mode_count (second count; weight_count = 0) (r_e.rs:438)
#[test]
fn padc_mode_count() {
    let b = honest(b"PADC", &u32s(&[0, 0x0100_0000, 0, 0]));
    check("padc_mode_count", run_m2(&b));
}
/// EDGF: distance_count (r_e.rs:649)
#[test]
fn edgf_distance_count() {
    let b = honest(b"EDGF", &u32s(&[0x0400_0000, 0, 0, 0]));
    check("edgf_distance_count", run_m2(&b));
}
/// EDGF: factor_count (r_e.rs:656)
#[test]
fn edgf_factor_count() {
    let b = honest(b"EDGF", &u32s(&[0, 0x0400_0000, 0, 0]));
    check("edgf_factor_count", run_m2(&b));
}
/// TXAC: count (r_e.rs:844)
#[test]
fn txac_count() {
    let b = honest(b"TXAC", &u32s(&[0x0100_0000, 0, 0, 0]));
    check("txac_count", run_m2(&b));
}
/// DPIV: vertex_pos_count / face_norm_count / index_count / flags_count (r_e.rs:1162/1174/1186/1193)
#[test]
fn dpiv_counts() {
    let mut failures = Vec::new();
    for (i, name) in ["vertex_pos", "face_norm", "index", "flags"].iter().enumerate() {
        let mut w = [0u32; 8];
        w[2 * i] = 0x0800_0000; // count
        for k in 0..4 {
            w[2 * k + 1] = 32; // offsets: end of the 32-byte header
        }
        let b = honest(b"DPIV", &u32s(&w));
        let o = run_m2(&b);
        eprintln!("dpiv_{name}_count: {o:?}");
        if o.panic.is_some() || o.max_alloc > ALLOC_LIMIT {
            failures.push(format!("{name}: {} MiB", o.max_alloc >> 20));
        }
    }
    assert!(failures.is_empty(), "DPIV: {failures:?}");
}
/// PCOL: vertex_count / face_count / material_count (r_e.rs:1404/1413/1425)
#[test]
fn pcol_counts() {
    let mut failures = Vec::new();
    for (i, name) in ["vertex", "face", "material"].iter().enumerate() {
        let mut w = [0u32; 4];
        w[i] = 0x0800_0000;
        let b = honest(b"PCOL", &u32s(&w));
        let o = run_m2(&b);
        eprintln!("pcol_{name}_count: {o:?}");
        if o.panic.is_some() || o.max_alloc > ALLOC_LIMIT {
            failures.push(format!("{name}: {} MiB", o.max_alloc >> 20));
        }
    }
    assert!(failures.is_empty(), "PCOL: {failures:?}");
}
/// PEDC: entry { event_id, data_size, timestamp } -> vec![0u8; data_size] (r_e.rs:1341)
#[test]
fn pedc_data_size() {
    let b = honest(b"PEDC", &u32s(&[1, 0x1000_0000, 0, 0]));
    check("pedc_data_size", run_m2(&b));
}
/// EXPT: unknown emitter type (2) -> skip_size u32 -> vec![0u8; skip_size] (r_e.rs:57)
#[test]
fn expt_skip_size() {
    let mut p = vec![2u8];
    p.extend_from_slice(&0x1000_0000u32.to_le_bytes());
    p.extend_from_slice(&[0u8; 3]);
    let b = honest(b"EXPT", &p);
    check("expt_skip_size", run_m2(&b));
}

// ---- parsers whose count is derived from the chunk size --------------------------------
// PABC / RPID / GPID / PGD1 / DBOC / AFRA: `reader.chunk_size()` / N.

/// Through parse_m2 the inner allocation cannot exceed the payload actually present:
/// parse_chunked first does `vec![0u8; header.size]` + read_exact (model.rs), which is the
/// site that blows up (already-known pattern M2-5), and the inner parser only runs when the
/// whole payload was really read. Expect: honest chunk -> small; lying chunk -> the OUTER
/// request == declared size exactly and Err (inner parser never reached).
#[test]
fn size_derived_parsers_via_parse_m2() {
    for magic in [b"PABC", b"RPID", b"GPID", b"PGD1", b"DBOC", b"AFRA"] {
        let name = String::from_utf8_lossy(magic).to_string();
        let o = run_m2(&honest(magic, &[0u8; 64]));
        eprintln!("{name} honest(64): {o:?}");
        assert_eq!(o.returned, "Ok");
        assert!(o.max_alloc < (1 << 20), "{name}: inner allocation out of proportion");
        let o = run_m2(&chunked(magic, 0x0812_3450, &[0u8; 64]));
        eprintln!("{name} lying(0x08123450): {o:?}");
        assert_eq!(o.returned, "Err");
        // exactly the outer vec![0u8; header.size]; nothing bigger (u16/u32 element Vecs of the
        // inner parser would be the same byte size, but they are never reached: Err above)
        assert_eq!(o.max_alloc, 0x0812_3450);
    }
}

/// Outer `vec![0u8; header.size]` of parse_chunked for every remaining magic
/// (model.rs 2683..2971): key parse_chunked|from_elem.
#[test]
fn parse_chunked_outer_alloc_all_magics() {
    let mut bad = Vec::new();
    for magic in [
        b"EXP2", b"PABC", b"PADC", b"WFV1", b"WFV2", b"WFV3", b"EDGF", b"NERF", b"DETL", b"RPID",
        b"GPID", b"TXAC", b"PGD1", b"DBOC", b"AFRA", b"DPIV", b"PSBC", b"PEDC", b"PCOL", b"PFDC",
    ] {
        let o = run_m2(&chunked(magic, 0x1000_0000, &[0u8; 8]));
        let name = String::from_utf8_lossy(magic).to_string();
        eprintln!("{name} size=0x10000000: {o:?}");
        if o.panic.is_some() || o.max_alloc > ALLOC_LIMIT {
            bad.push(format!("{name}:{}MiB", o.max_alloc >> 20));
        }
    }
    assert!(bad.is_empty(), "{bad:?}");
}

/// Direct use of the public chunk API: ChunkHeader::read + ChunkReader::new + X::parse on a
/// 16-byte stream whose header declares 1 GiB.
#[test]
fn size_derived_parsers_direct_public_api() {
    use wow_m2::chunks::infrastructure::{ChunkHeader, ChunkReader};
    use wow_m2::chunks::rendering_enhancements::*;
    let mut bad = Vec::new();
    macro_rules! direct {
        ($magic:expr, $ty:ty) => {{
            let mut b = Vec::new();
            b.extend_from_slice($magic);
            b.extend_from_slice(&0x4000_0000u32.to_le_bytes());
            b.extend_from_slice(&[0u8; 8]);
            let o = probe(|| {
                let mut c = Cursor::new(&b);
                let h = ChunkHeader::read(&mut c)?;
                let mut r = ChunkReader::new(c, h)?;
                <$ty>::parse(&mut r)
            });
            eprintln!("direct {}: {o:?}", stringify!($ty));
            if o.panic.is_some() || o.max_alloc > ALLOC_LIMIT {
                bad.push(format!("{}:{}MiB", stringify!($ty), o.max_alloc >> 20));
            }
        }};
    }
    direct!(b"PABC", ParentAnimationBlacklist);
    direct!(b"RPID", RecursiveParticleIds);
    direct!(b"GPID", GeometryParticleIds);
    direct!(b"PGD1", ParticleGeosetData);
    direct!(b"DBOC", DbocChunk);
    direct!(b"AFRA", AfraChunk);
    assert!(bad.is_empty(), "{bad:?}");
}

// ---- FixedString::parse (common.rs:323) via M2Texture.filename -------------------------

/// v264 header: textures M2Array at +0x50. One texture record at 0x180:
/// { type u32, flags u32, filename.count u32, filename.offset u32 }.
#[test]
fn fixed_string_texture_filename_count() {
    let mut b = minimal_m2(264);
    put_u32(&mut b, 0x50, 1);
    put_u32(&mut b, 0x54, 0x180);
    put_u32(&mut b, 0x180 + 8, 0x1000_0000); // filename.count
    put_u32(&mut b, 0x180 + 12, 0x1C0); // filename.offset
    check("fixed_string_texture_filename_count", run_m2(&b));
}
