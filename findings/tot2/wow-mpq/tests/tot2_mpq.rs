//! Totality probes (pass 2) for wow-mpq: sectored reads, BET header, attributes, patch sectors.
//!
//! A small valid archive is produced with `ArchiveBuilder`; then a handful of bytes
//! (MPQ header fields or one encrypted block-table entry) are patched on disk.
//! Every public call must return Ok/Err: no panic, no single allocation > 64 MiB.

use std::alloc::{GlobalAlloc, Layout, System};
use std::panic::{AssertUnwindSafe, catch_unwind};
use std::path::{Path, PathBuf};
use std::sync::Mutex;
use std::sync::atomic::{AtomicUsize, Ordering};

use wow_mpq::crypto::{decrypt_block, encrypt_block, hash_string, hash_type};
use wow_mpq::{Archive, ArchiveBuilder, AttributesOption, FormatVersion, ListfileOption, PatchChain};

const ALLOC_LIMIT: usize = 64 << 20;
const SWEEP_LIMIT: usize = 16 << 20;
const ALLOC_REFUSE: usize = 8 << 30;

struct Recording;
static MAX_REQ: AtomicUsize = AtomicUsize::new(0);

static IN_BT: std::sync::atomic::AtomicBool = std::sync::atomic::AtomicBool::new(false);
/// With TOT_BT=1, print a backtrace of the refused (> 8 GiB) request before the runtime aborts.
fn refused(size: usize) {
    if std::env::var_os("TOT_BT").is_some() && !IN_BT.swap(true, Ordering::SeqCst) {
        eprintln!("REFUSED allocation of {size} bytes at:\n{}", std::backtrace::Backtrace::force_capture());
    }
}

/// Child-process mode: remember the crate frame responsible for the largest request > SWEEP_LIMIT.
static TRACE_BIG: std::sync::atomic::AtomicBool = std::sync::atomic::AtomicBool::new(false);
static BIG_SITE: Mutex<(usize, String)> = Mutex::new((0, String::new()));
fn first_crate_frame(bt: &str) -> String {
    let lines: Vec<&str> = bt.lines().collect();
    for (i, l) in lines.iter().enumerate() {
        if l.contains("wow_mpq::") {
            let at = lines.get(i + 1).map(|s| s.trim()).unwrap_or("");
            return format!("{} {}", l.trim().splitn(2, ": ").nth(1).unwrap_or(l), at);
        }
    }
    "<no crate frame>".into()
}
fn note_big(size: usize) {
    if size > SWEEP_LIMIT && TRACE_BIG.load(Ordering::Relaxed) && !IN_BT.swap(true, Ordering::SeqCst) {
        let bt = std::backtrace::Backtrace::force_capture().to_string();
        let site = first_crate_frame(&bt);
        if size > ALLOC_REFUSE {
            eprintln!("TOT_REFUSED size={size} site={site}");
        }
        if let Ok(mut g) = BIG_SITE.try_lock() {
            if size > g.0 {
                *g = (size, site);
            }
        }
        IN_BT.store(false, Ordering::SeqCst);
    }
}

unsafe impl GlobalAlloc for Recording {
    unsafe fn alloc(&self, l: Layout) -> *mut u8 {
        MAX_REQ.fetch_max(l.size(), Ordering::Relaxed);
        note_big(l.size());
        if l.size() > ALLOC_REFUSE {
            refused(l.size());
            return std::ptr::null_mut();
        }
        unsafe { System.alloc(l) }
    }
    unsafe fn alloc_zeroed(&self, l: Layout) -> *mut u8 {
        MAX_REQ.fetch_max(l.size(), Ordering::Relaxed);
        note_big(l.size());
        if l.size() > ALLOC_REFUSE {
            refused(l.size());
            return std::ptr::null_mut();
        }
        unsafe { System.alloc_zeroed(l) }
    }
    unsafe fn realloc(&self, p: *mut u8, l: Layout, n: usize) -> *mut u8 {
        MAX_REQ.fetch_max(n, Ordering::Relaxed);
        note_big(n);
        if n > ALLOC_REFUSE {
            refused(n);
            return std::ptr::null_mut();
        }
        unsafe { System.realloc(p, l, n) }
    }
    unsafe fn dealloc(&self, p: *mut u8, l: Layout) {
        unsafe { System.dealloc(p, l) }
    }
}

#[global_allocator]
static GLOBAL: Recording = Recording;
static LOCK: Mutex<()> = Mutex::new(());

#[derive(Debug)]
struct Outcome {
    panic: Option<String>,
    max_alloc: usize,
    returned: String,
    alloc_site: String,
}

fn probe<T, E: std::fmt::Debug>(f: impl FnOnce() -> Result<T, E>) -> Outcome {
    let _g = LOCK.lock().unwrap_or_else(|e| e.into_inner());
    MAX_REQ.store(0, Ordering::Relaxed);
    *BIG_SITE.lock().unwrap() = (0, String::new());
    TRACE_BIG.store(true, Ordering::SeqCst);
    let r = catch_unwind(AssertUnwindSafe(|| {
        f().map(|_| ()).map_err(|e| {
            let mut s = format!("{e:?}");
            s.truncate(160);
            s
        })
    }));
    TRACE_BIG.store(false, Ordering::SeqCst);
    let max_alloc = MAX_REQ.load(Ordering::Relaxed);
    let alloc_site = BIG_SITE.lock().unwrap().1.clone();
    match r {
        Ok(Ok(())) => Outcome { panic: None, max_alloc, returned: "Ok".into(), alloc_site },
        Ok(Err(e)) => Outcome { panic: None, max_alloc, returned: format!("Err({e})"), alloc_site },
        Err(p) => {
            let msg = p
                .downcast_ref::<String>()
                .cloned()
                .or_else(|| p.downcast_ref::<&str>().map(|s| s.to_string()))
                .unwrap_or_else(|| "<non-string panic>".into());
            Outcome { panic: Some(msg), max_alloc, returned: "panic".into(), alloc_site }
        }
    }
}

fn check(name: &str, o: Outcome) {
    eprintln!("{name}: {o:?}");
    assert!(o.panic.is_none(), "{name}: panicked: {:?}", o.panic);
    assert!(
        o.max_alloc <= ALLOC_LIMIT,
        "{name}: single allocation request of {} bytes ({} MiB) from a tiny archive (returned {})",
        o.max_alloc,
        o.max_alloc >> 20,
        o.returned
    );
}

const NAME: &str = "a.txt";

/// Build a small archive containing `a.txt` with the given content; returns the path.
fn build(dir: &Path, tag: &str, version: FormatVersion, content: Vec<u8>, compression: u8, block_size: u16) -> PathBuf {
    let path = dir.join(format!("{tag}.mpq"));
    ArchiveBuilder::new()
        .version(version)
        .block_size(block_size)
        .listfile_option(ListfileOption::Generate)
        .attributes_option(AttributesOption::None)
        .add_file_data_with_options(content, NAME, compression, false, 0)
        .build(&path)
        .expect("build");
    path
}

/// Rewrite the (encrypted) classic block table entry of `a.txt` in place.
/// Entry layout: [file_pos, compressed_size, file_size, flags].
fn patch_block_entry(path: &Path, f: impl FnOnce(&mut [u32; 4])) {
    let (pos, count, block_index) = {
        let a = Archive::open(path).expect("open pristine");
        let fi = a.find_file(NAME).expect("find").expect("present");
        let h = a.header();
        (
            a.archive_offset() + h.get_block_table_pos(),
            h.block_table_size as usize,
            fi.block_index,
        )
    };
    let mut bytes = std::fs::read(path).unwrap();
    let tbl = &mut bytes[pos as usize..pos as usize + count * 16];
    let mut words: Vec<u32> = tbl
        .chunks_exact(4)
        .map(|c| u32::from_le_bytes([c[0], c[1], c[2], c[3]]))
        .collect();
    let key = hash_string("(block table)", hash_type::FILE_KEY);
    decrypt_block(&mut words, key);
    let mut e = [0u32; 4];
    e.copy_from_slice(&words[block_index * 4..block_index * 4 + 4]);
    f(&mut e);
    words[block_index * 4..block_index * 4 + 4].copy_from_slice(&e);
    encrypt_block(&mut words, key);
    for (c, w) in tbl.chunks_exact_mut(4).zip(&words) {
        c.copy_from_slice(&w.to_le_bytes());
    }
    std::fs::write(path, bytes).unwrap();
}

const FLAG_COMPRESS: u32 = 0x0000_0200;
const FLAG_PATCH_FILE: u32 = 0x0010_0000;
const FLAG_SINGLE_UNIT: u32 = 0x0100_0000;
const FLAG_SECTOR_CRC: u32 = 0x0400_0000;
const FLAG_EXISTS: u32 = 0x8000_0000;

fn open_and_read(path: &Path) -> wow_mpq::Result<Vec<u8>> {
    let mut a = Archive::open(path)?;
    a.read_file(NAME)
}

fn set_sector_shift(path: &Path, shift: u16) {
    let mut bytes = std::fs::read(path).unwrap();
    assert_eq!(&bytes[0..4], b"MPQ\x1a");
    bytes[0x0E..0x10].copy_from_slice(&shift.to_le_bytes());
    std::fs::write(path, bytes).unwrap();
}

#[test]
fn baseline_v1_v3() {
    let d = tempfile::tempdir().unwrap();
    for (i, v) in [FormatVersion::V1, FormatVersion::V3].into_iter().enumerate() {
        let p = build(d.path(), &format!("b{i}"), v, vec![0x41; 5000], wow_mpq::compression::flags::ZLIB, 3);
        let o = probe(|| open_and_read(&p));
        eprintln!("baseline {v:?}: size={} {o:?}", std::fs::metadata(&p).unwrap().len());
        assert_eq!(o.returned, "Ok");
        assert!(o.max_alloc < (1 << 20));
    }
}

// ---- read_sectored_file -----------------------------------------------------------------

/// archive.rs:2275 `Vec::with_capacity(file_info.file_size)`.
/// block entry file_size = 0x1000_0000 (256 MiB), flags = EXISTS|COMPRESS (multi sector),
/// header sector shift = 15 (16 MiB sectors) => 16 sectors, 68-byte offset table is read fine from the
/// old file content, the 16 MiB+1 KiB sector buffer is below the limit, and the output Vec is
/// reserved with the full declared size.
#[test]
fn sectored_with_capacity_file_size() {
    let d = tempfile::tempdir().unwrap();
    let p = build(d.path(), "wc", FormatVersion::V1, vec![0u8; 200], 0, 3);
    patch_block_entry(&p, |e| {
        e[2] = 0x1000_0000;
        e[3] = FLAG_EXISTS | FLAG_COMPRESS;
    });
    set_sector_shift(&p, 15);
    check("sectored_with_capacity_file_size", probe(|| open_and_read(&p)));
}

/// archive.rs:2199 `vec![0u8; (sector_count + 1) * 4]` with classic (32-bit) block entries:
/// file_size = 0xFFFF_FFFF and the smallest sector size (shift 0 => 512 B) => 8 388 608 sectors
/// => 32 MiB + 4. This is the worst case reachable through classic tables.
#[test]
fn sectored_offset_table_classic_worst_case() {
    let d = tempfile::tempdir().unwrap();
    let p = build(d.path(), "ot", FormatVersion::V1, vec![0u8; 200], 0, 3);
    patch_block_entry(&p, |e| {
        e[2] = 0xFFFF_FFFF;
        e[3] = FLAG_EXISTS | FLAG_COMPRESS;
    });
    set_sector_shift(&p, 0);
    let o = probe(|| open_and_read(&p));
    eprintln!("sectored_offset_table_classic_worst_case: {o:?}");
    assert!(o.panic.is_none());
    // informational: 32 MiB + 4 zeroed request from a ~3 KiB archive (below the 64 MiB criterion)
    assert_eq!(o.max_alloc, (0xFFFF_FFFFusize.div_ceil(512) + 1) * 4);
}

fn lcg_bytes(n: usize) -> Vec<u8> {
    let mut s = 0x1234_5678u32;
    (0..n)
        .map(|_| {
            s = s.wrapping_mul(1664525).wrapping_add(1013904223);
            ((s >> 24) & 0x0F) as u8
        })
        .collect()
}

fn zlib_sector(plain: &[u8]) -> Vec<u8> {
    use std::io::Write;
    let mut e = flate2::write::ZlibEncoder::new(Vec::new(), flate2::Compression::default());
    e.write_all(plain).unwrap();
    let mut v = vec![0x02u8]; // MPQ compression mask: ZLIB
    v.extend_from_slice(&e.finish().unwrap());
    v
}

/// archive.rs:2297 `file_info.file_size as usize - decompressed_data.len()`.
/// `compression::decompress` accepts outputs up to 10% larger than `expected_size`
/// (validate_decompression_result tolerance), and read_sectored_file appends whatever came back.
/// file_size = 8193 (3 sectors of 4096): sector 0 inflates to 4500 bytes (expected 4096),
/// sector 1 to 4050 bytes (expected 8193-4500 = 3693, +10% = 4062) => 8550 > 8193 before sector 2.
#[test]
fn sectored_remaining_underflow() {
    let s0 = zlib_sector(&lcg_bytes(4500));
    let s1 = zlib_sector(&lcg_bytes(4050));
    let s2 = zlib_sector(&lcg_bytes(1));
    assert!(s0.len() < 4096 && s1.len() < 3693);
    let table_len = 16u32;
    let mut offs = vec![table_len];
    for s in [&s0, &s1, &s2] {
        offs.push(offs.last().unwrap() + s.len() as u32);
    }
    let mut content = Vec::new();
    for o in &offs {
        content.extend_from_slice(&o.to_le_bytes());
    }
    for s in [&s0, &s1, &s2] {
        content.extend_from_slice(s);
    }
    let clen = content.len() as u32;
    let d = tempfile::tempdir().unwrap();
    let p = build(d.path(), "ru", FormatVersion::V1, content, 0, 3);
    patch_block_entry(&p, |e| {
        e[1] = clen;
        e[2] = 8193;
        e[3] = FLAG_EXISTS | FLAG_COMPRESS;
    });
    eprintln!("archive size = {}", std::fs::metadata(&p).unwrap().len());
    // NOT REPRODUCIBLE: DecompressionMonitor::check_progress(result.len()) rejects any output larger
    // than `expected_size` before the 10% tolerance check is even reached, so every sector contributes
    // at most `expected_size` bytes and decompressed_data.len() <= file_size always holds.
    let o = probe(|| open_and_read(&p));
    eprintln!("sectored_remaining_underflow: {o:?}");
    assert!(o.panic.is_none());
    assert!(o.returned.contains("ResourceExhaustion"), "{o:?}");
}

// ---- read_patch_file_raw: vec![0u8; sector_end - sector_start] (archive.rs:1951) ----------

fn tpatch_info(length: u32, flags: u32, data_size: u32, tail: &[u8]) -> Vec<u8> {
    let mut v = Vec::new();
    v.extend_from_slice(&length.to_le_bytes());
    v.extend_from_slice(&flags.to_le_bytes());
    v.extend_from_slice(&data_size.to_le_bytes());
    v.extend_from_slice(&[0u8; 16]); // md5
    v.extend_from_slice(tail);
    v.resize(v.len().max(64), 0);
    v
}

fn chain_read(path: &Path) -> wow_mpq::Result<Vec<u8>> {
    let mut c = PatchChain::new();
    c.add_archive(path, 0)?;
    c.read_file(NAME)
}

/// PATCH_FILE (sectored), data_size = 1 => 1 sector; sector table [8, 0x1000_0008]
#[test]
fn patch_chain_sector_size_huge() {
    let d = tempfile::tempdir().unwrap();
    let mut tail = Vec::new();
    tail.extend_from_slice(&8u32.to_le_bytes());
    tail.extend_from_slice(&0x1000_0008u32.to_le_bytes());
    let p = build(d.path(), "ps", FormatVersion::V1, tpatch_info(28, 0, 1, &tail), 0, 3);
    patch_block_entry(&p, |e| e[3] = FLAG_EXISTS | FLAG_PATCH_FILE);
    check("patch_chain_sector_size_huge", probe(|| chain_read(&p)));
}

/// archive.rs:1911 offset table of the patch path: TPatchInfo.data_size = 0xFFFF_FFFF, shift 0 => 32 MiB + 4.
#[test]
fn patch_chain_offset_table_worst_case() {
    let d = tempfile::tempdir().unwrap();
    let p = build(d.path(), "po", FormatVersion::V1, tpatch_info(28, 0, 0xFFFF_FFFF, &[]), 0, 3);
    patch_block_entry(&p, |e| e[3] = FLAG_EXISTS | FLAG_PATCH_FILE);
    set_sector_shift(&p, 0);
    let o = probe(|| chain_read(&p));
    eprintln!("patch_chain_offset_table_worst_case: {o:?}");
    assert!(o.panic.is_none());
    assert_eq!(o.max_alloc, (0xFFFF_FFFFusize.div_ceil(512) + 1) * 4);
}

// ---- BetTable::read (tables/bet.rs 186/194/199) ---------------------------------------------

/// Decrypt the BET table of a V3 archive (key = hash("(block table)")), let `f` edit the 19 u32 of the
/// BetHeader (index 0 = table_size, 1 = file_count, 3 = table_entry_size, 17 = bet_hash_array_size,
/// 18 = flag_count ...), re-encrypt.
///
/// NOTE: `ArchiveBuilder` writes the V3 header fields as (het_table_pos, bet_table_pos) while
/// `MpqHeader::read` (and the MPQ format: BetTablePos64 @+0x34, HetTablePos64 @+0x3C) expects
/// (bet, het). On a builder-made V3 archive the reader therefore finds "HET" at the BET offset, skips
/// both tables and silently falls back to the classic tables. We first put the two u64 in the
/// on-disk order the reader expects, so that HET/BET are really loaded (as for any real V3 archive).
fn patch_bet_header(path: &Path, f: impl FnOnce(&mut [u32])) {
    {
        let mut b = std::fs::read(path).unwrap();
        assert_eq!(&b[0..4], b"MPQ\x1a");
        let at = u64::from_le_bytes(b[0x34..0x3C].try_into().unwrap()) as usize;
        if &b[at..at + 4] == b"HET\x1a" {
            let (x, y) = (b[0x34..0x3C].to_vec(), b[0x3C..0x44].to_vec());
            b[0x34..0x3C].copy_from_slice(&y);
            b[0x3C..0x44].copy_from_slice(&x);
            std::fs::write(path, b).unwrap();
        }
    }
    let (pos, size) = {
        let a = Archive::open(path).expect("open pristine");
        let h = a.header();
        let bet = h.bet_table_pos.expect("bet pos");
        (a.archive_offset() + bet, (h.get_hash_table_pos() - bet) as usize)
    };
    let mut bytes = std::fs::read(path).unwrap();
    assert_eq!(&bytes[pos as usize..pos as usize + 4], b"BET\x1a");
    let body = &mut bytes[pos as usize + 12..pos as usize + size];
    let full = body.len() / 4 * 4;
    let mut words: Vec<u32> = body[..full]
        .chunks_exact(4)
        .map(|c| u32::from_le_bytes([c[0], c[1], c[2], c[3]]))
        .collect();
    let key = hash_string("(block table)", hash_type::FILE_KEY);
    decrypt_block(&mut words, key);
    eprintln!("BET header (pristine): {:?}", &words[..19]);
    f(&mut words[..]);
    encrypt_block(&mut words, key);
    for (c, w) in body[..full].chunks_exact_mut(4).zip(&words) {
        c.copy_from_slice(&w.to_le_bytes());
    }
    std::fs::write(path, bytes).unwrap();
}

#[test]
fn bet_header_identity_patch_keeps_archive_valid() {
    let d = tempfile::tempdir().unwrap();
    let p = build(d.path(), "bi", FormatVersion::V3, vec![0x41; 5000], wow_mpq::compression::flags::ZLIB, 3);
    patch_bet_header(&p, |_| {});
    let o = probe(|| {
        let mut a = Archive::open(&p)?;
        assert!(a.het_table().is_some() && a.bet_table().is_some(), "HET/BET must be loaded");
        assert!(a.find_file(NAME)?.is_some());
        a.read_file(NAME)
    });
    assert_eq!(o.returned, "Ok", "{o:?}");
}

fn bet_case(tag: &str, f: impl FnOnce(&mut [u32])) -> Outcome {
    let d = tempfile::tempdir().unwrap();
    let p = build(d.path(), tag, FormatVersion::V3, vec![0x41; 5000], wow_mpq::compression::flags::ZLIB, 3);
    patch_bet_header(&p, f);
    probe(|| Archive::open(&p).map(|_| ()))
}

/// flag_count = 0x0400_0000 => Vec::<u32>::with_capacity => 256 MiB (bet.rs:186)
#[test]
fn bet_flag_count_huge() {
    check("bet_flag_count_huge", bet_case("bf", |h| h[18] = 0x0400_0000));
}
/// file_count = 0x1000_0000 (entry size kept) => vec![0u8; file_count*entry_bits/8] (bet.rs:194)
#[test]
fn bet_file_count_huge() {
    check("bet_file_count_huge", bet_case("bc", |h| h[1] = 0x1000_0000));
}
/// table_entry_size = 0x1000_0000 bits => same site (bet.rs:194)
#[test]
fn bet_table_entry_size_huge() {
    check("bet_table_entry_size_huge", bet_case("be", |h| h[3] = 0x1000_0000));
}
/// bet_hash_array_size = 0x4000_0000 => Vec::<u64>::with_capacity(size/8) => 1 GiB (bet.rs:199)
#[test]
fn bet_hash_array_size_huge() {
    check("bet_hash_array_size_huge", bet_case("bh", |h| h[17] = 0x4000_0000));
}

// ---- Attributes::parse via Archive::load_attributes -----------------------------------------

/// Hostile "(attributes)" file content; block_count is chosen by load_attributes from the number of
/// block-table entries actually loaded, so every size in Attributes::parse is bounded by it.
#[test]
fn attributes_hostile_content_sweep() {
    let d = tempfile::tempdir().unwrap();
    let mut worst = 0usize;
    let mut panics = Vec::new();
    let mut n = 0;
    for version in [FormatVersion::V1, FormatVersion::V3] {
        for flags in 0u32..=0x1F {
            for len in [8usize, 9, 12, 16, 40, 200] {
                for fill in [0u8, 0xFF] {
                    let mut content = vec![fill; len];
                    content[0..4].copy_from_slice(&100u32.to_le_bytes());
                    content[4..8].copy_from_slice(&flags.to_le_bytes());
                    let path = d.path().join(format!("at{n}.mpq"));
                    n += 1;
                    ArchiveBuilder::new()
                        .version(version)
                        .listfile_option(ListfileOption::Generate)
                        .attributes_option(AttributesOption::None)
                        .add_file_data_with_options(vec![0x41; 100], NAME, 0, false, 0)
                        .add_file_data_with_options(content, "(attributes)", 0, false, 0)
                        .build(&path)
                        .expect("build");
                    let o = probe(|| {
                        let mut a = Archive::open(&path)?;
                        a.load_attributes()?;
                        let _ = a.get_file_attributes(0);
                        Ok::<(), wow_mpq::Error>(())
                    });
                    worst = worst.max(o.max_alloc);
                    if let Some(p) = &o.panic {
                        panics.push(format!("{version:?} flags={flags:#x} len={len} fill={fill:#x}: {p}"));
                    }
                    let _ = std::fs::remove_file(&path);
                }
            }
        }
    }
    eprintln!("attributes sweep: {n} cases, worst single allocation = {worst} bytes, panics = {panics:?}");
    assert!(panics.is_empty());
    assert!(worst < (1 << 20));
}

/// Direct public call: the only way to get a large request is to pass a large `block_count`
/// argument, which is a caller-chosen parameter, not part of the input bytes.
#[test]
fn attributes_parse_direct_sizes_follow_block_count_argument() {
    let mut content = vec![0u8; 8];
    content[0..4].copy_from_slice(&100u32.to_le_bytes());
    let data = bytes::Bytes::from(content);
    let o = probe(|| wow_mpq::special_files::Attributes::parse(&data, 3));
    eprintln!("attributes direct block_count=3: {o:?}");
    assert!(o.max_alloc < 4096);
}

// ---- read_sectored_file offset table through the HET/BET path (64-bit file_size) -------------

/// Layout of the (decrypted) BET body of the 2-file builder archive, in u32 words:
/// [0..19) BetHeader, [19..21) flag table (flag_count = 2), [21..23) bit-packed file table
/// (2 entries x 29 bits), [23..27) two u64 BET hashes.
/// `ArchiveBuilder` stores BET hashes that `BetTable::verify_file_hash` does not accept (even on a
/// pristine archive `find_file` silently falls back to the classic tables), so store the hash the
/// reader expects for a.txt (entry 0): jenkins hashlittle2 masked to bet_hash_size (64) bits.
fn fix_bet_hash_entry0(w: &mut [u32]) {
    assert_eq!((w[1], w[3], w[16], w[17], w[18]), (2, 29, 64, 16, 2), "unexpected BET layout");
    let (h, _) = wow_mpq::crypto::het_hash(NAME, 64);
    w[23] = h as u32;
    w[24] = (h >> 32) as u32;
}

#[test]
fn het_bet_lookup_works_after_hash_fix() {
    let d = tempfile::tempdir().unwrap();
    let p = build(d.path(), "hb", FormatVersion::V3, vec![0x41; 5000], wow_mpq::compression::flags::ZLIB, 3);
    patch_bet_header(&p, fix_bet_hash_entry0);
    let a = Archive::open(&p).expect("open");
    let bet = a.bet_table().expect("bet");
    assert!(bet.verify_file_hash(0, NAME));
    let o = probe(|| open_and_read(&p));
    assert_eq!(o.returned, "Ok", "{o:?}");
}

/// archive.rs:2199 `vec![0u8; (sector_count + 1) * 4]`, sector_count = file_size / sector_size.
/// With classic tables file_size is 32 bit (worst case 32 MiB, see above). Through BET the field width is
/// chosen by the BET header: widen bit_count_file_size (BetHeader word 10) from 13 to 40 bits (bits 8..48
/// of entry 0) and store file_pos = 68 (unchanged), file_size = 2^38 in the bit-packed file table
/// (cmp_size / flag-index bits 21..29 stay 0 => flags[0] = EXISTS|COMPRESS as before)
/// => 2^26 sectors of 4 KiB (default sector shift untouched) => 256 MiB + 4 offset table.
#[test]
fn sectored_offset_table_via_bet_wide_file_size() {
    let d = tempfile::tempdir().unwrap();
    let p = build(d.path(), "bw", FormatVersion::V3, vec![0x41; 5000], wow_mpq::compression::flags::ZLIB, 3);
    patch_bet_header(&p, |w| {
        fix_bet_hash_entry0(w);
        w[10] = 40;
        w[21] = 68; // file_pos bits 0..8
        w[22] = 1 << (8 + 38 - 32); // file_size bit 38
    });
    {
        let a = Archive::open(&p).expect("open");
        let fi = a.find_file(NAME).expect("find").expect("present");
        eprintln!("a.txt via BET: pos={} file_size={} csize={} flags={:#x}", fi.file_pos, fi.file_size, fi.compressed_size, fi.flags);
        assert!(fi.file_size > u32::MAX as u64);
    }
    check("sectored_offset_table_via_bet_wide_file_size", probe(|| open_and_read(&p)));
}

// ---- archive.rs:1624 `file_info.file_pos - self.archive_offset` (FIX_KEY path of read_file) ---

/// NOT REPRODUCIBLE: every FileInfo producer computes file_pos = archive_offset + <table value> in u64
/// (archive.rs 1221/1286/2035/2053) with a 32-bit (+16-bit hi) table value, so the subtraction gives
/// the table value back. Archive embedded at offset 0x200 so that archive_offset != 0;
/// block entry flags = EXISTS|ENCRYPTED|FIX_KEY, file_pos swept over hostile values.
#[test]
fn fix_key_file_pos_sub_never_underflows() {
    let d = tempfile::tempdir().unwrap();
    for (i, pos) in [0u32, 1, 0x7FFF_FFFF, 0x8000_0000, 0xFFFF_FFFF].into_iter().enumerate() {
        let p = build(d.path(), &format!("fk{i}"), FormatVersion::V1, vec![0x41; 100], 0, 3);
        patch_block_entry(&p, |e| {
            e[0] = pos;
            e[3] = FLAG_EXISTS | 0x0001_0000 | 0x0002_0000; // ENCRYPTED | FIX_KEY
        });
        let mut b = vec![0u8; 0x200];
        b.extend_from_slice(&std::fs::read(&p).unwrap());
        std::fs::write(&p, b).unwrap();
        let o = probe(|| {
            let mut a = Archive::open(&p)?;
            assert_eq!(a.archive_offset(), 0x200);
            a.read_file(NAME)
        });
        eprintln!("fix_key file_pos={pos:#x}: {o:?}");
        assert!(o.panic.is_none(), "{o:?}");
    }
}
