//! Totality probes (pass 2) for wow-cdbc: StringBlock::parse, parse_record_with_schema.
#![allow(dead_code)]
use std::alloc::{GlobalAlloc, Layout, System};
use std::io::Cursor;
use std::panic::{AssertUnwindSafe, catch_unwind};
use std::sync::Mutex;
use std::sync::atomic::{AtomicUsize, Ordering};

const ALLOC_LIMIT: usize = 64 << 20;
/// Threshold used by the header sweeps (inputs are <= 512 bytes).
const SWEEP_LIMIT: usize = 1 << 20;
/// Requests above this are refused (null => the Rust runtime aborts the process).
const ALLOC_REFUSE: usize = 8 << 30;

struct Recording;
static MAX_REQ: AtomicUsize = AtomicUsize::new(0);

/// When TRACE is on, remember the first crate frame of the largest request >= SWEEP_LIMIT.
static TRACE: std::sync::atomic::AtomicBool = std::sync::atomic::AtomicBool::new(false);
static IN_BT: std::sync::atomic::AtomicBool = std::sync::atomic::AtomicBool::new(false);
static BIG_SITE: Mutex<(usize, String)> = Mutex::new((0, String::new()));
fn note_big(size: usize) {
    if size >= SWEEP_LIMIT && TRACE.load(Ordering::Relaxed) && !IN_BT.swap(true, Ordering::SeqCst) {
        let bt = std::backtrace::Backtrace::force_capture().to_string();
        let lines: Vec<&str> = bt.lines().collect();
        let mut site = String::from("<no crate frame>");
        for (i, l) in lines.iter().enumerate() {
            if l.contains(": wow_") || l.contains(": <wow_") {
                let at = lines.get(i + 1).map(|s| s.trim()).unwrap_or("");
                site = format!("{} {}", l.trim().splitn(2, ": ").nth(1).unwrap_or(l), at);
                break;
            }
        }
        if let Ok(mut g) = BIG_SITE.try_lock() {
            if size > g.0 {
                *g = (size, site);
            }
        }
        IN_BT.store(false, Ordering::SeqCst);
    }
}
/// Run `f` once more with allocation-site tracing and return the site of the largest big request.
fn big_site<T, E>(f: impl FnOnce() -> Result<T, E>) -> String {
    *BIG_SITE.lock().unwrap_or_else(|e| e.into_inner()) = (0, String::new());
    TRACE.store(true, Ordering::SeqCst);
    let _ = catch_unwind(AssertUnwindSafe(|| f().map(|_| ()).map_err(|_| ())));
    TRACE.store(false, Ordering::SeqCst);
    BIG_SITE.lock().unwrap_or_else(|e| e.into_inner()).1.clone()
}

unsafe impl GlobalAlloc for Recording {
    unsafe fn alloc(&self, l: Layout) -> *mut u8 {
        MAX_REQ.fetch_max(l.size(), Ordering::Relaxed);
        note_big(l.size());
        if l.size() > ALLOC_REFUSE {
            return std::ptr::null_mut();
        }
        unsafe { System.alloc(l) }
    }
    unsafe fn alloc_zeroed(&self, l: Layout) -> *mut u8 {
        MAX_REQ.fetch_max(l.size(), Ordering::Relaxed);
        note_big(l.size());
        if l.size() > ALLOC_REFUSE {
            return std::ptr::null_mut();
        }
        unsafe { System.alloc_zeroed(l) }
    }
    unsafe fn realloc(&self, p: *mut u8, l: Layout, n: usize) -> *mut u8 {
        MAX_REQ.fetch_max(n, Ordering::Relaxed);
        note_big(n);
        if n > ALLOC_REFUSE {
            return std::ptr::null_mut();
        }
        unsafe { System.realloc(p, l, n) }
    }
    unsafe fn dealloc(&self, p: *mut u8, l: Layout) {
        unsafe { System.dealloc(p, l) }
    }
}

#[global_allocator]
static GLOBAL: Recording = Recording;

static LOCK: Mutex<()> = Mutex::new(());

/// Outcome of one probe.
#[derive(Debug)]
struct Outcome {
    panic: Option<String>,
    max_alloc: usize,
    returned: &'static str,
    err: String,
}

fn probe<T, E: std::fmt::Debug>(f: impl FnOnce() -> Result<T, E>) -> Outcome {
    let _g = LOCK.lock().unwrap_or_else(|e| e.into_inner());
    MAX_REQ.store(0, Ordering::Relaxed);
    let r = catch_unwind(AssertUnwindSafe(|| f().map(|_| ()).map_err(|e| { format!("{e:?}").chars().take(120).collect::<String>() })));
    let max_alloc = MAX_REQ.load(Ordering::Relaxed);
    match r {
        Ok(Ok(())) => Outcome { panic: None, max_alloc, returned: "Ok", err: String::new() },
        Ok(Err(e)) => Outcome { panic: None, max_alloc, returned: "Err", err: e },
        Err(p) => {
            let msg = p
                .downcast_ref::<String>()
                .cloned()
                .or_else(|| p.downcast_ref::<&str>().map(|s| s.to_string()))
                .unwrap_or_else(|| "<non-string panic>".into());
            Outcome { panic: Some(msg), max_alloc, returned: "panic", err: String::new() }
        }
    }
}

fn check(name: &str, o: Outcome) {
    eprintln!("{name}: {o:?}");
    assert!(o.panic.is_none(), "{name}: panicked: {:?}", o.panic);
    assert!(
        o.max_alloc <= ALLOC_LIMIT,
        "{name}: single allocation request of {} bytes ({} MiB) from a tiny input (returned {})",
        o.max_alloc,
        o.max_alloc >> 20,
        o.returned
    );
}

fn put_u32(buf: &mut [u8], off: usize, v: u32) {
    buf[off..off + 4].copy_from_slice(&v.to_le_bytes());
}


use wow_cdbc::DbcParser;

fn parse(b: &[u8]) -> Result<usize, wow_cdbc::Error> {
    let p = DbcParser::parse_bytes(b)?;
    let r = p.parse_records()?;
    Ok(r.len())
}

fn minimal_dbc() -> Vec<u8> {
    let mut b = b"WDBC".to_vec();
    for v in [2u32, 2, 8, 4] {
        b.extend_from_slice(&v.to_le_bytes());
    }
    b.extend_from_slice(&[1, 0, 0, 0, 0, 0, 0, 0, 2, 0, 0, 0, 1, 0, 0, 0]);
    b.extend_from_slice(b"\0ab\0");
    b
}


#[test]
fn baseline() {
    let o = probe(|| parse(&minimal_dbc()));
    eprintln!("{o:?}");
    assert_eq!(o.returned, "Ok", "{o:?}");
}

/// stringblock.rs:20 `vec![0u8; size]` with size = header.string_block_size (WDBC header +0x10).
/// 41-byte file; records are parsed first (they are intact), then the string block is "read".
#[test]
fn dbc_string_block_size_huge() {
    let mut b = minimal_dbc();
    put_u32(&mut b, 16, 0x1000_0000);
    let site = big_site(|| parse(&b));
    eprintln!("dbc_string_block_size_huge: input {} bytes alloc_site=[{site}]", b.len());
    check("dbc_string_block_size_huge", probe(|| parse(&b)));
}
#[test]
fn dbc_string_block_size_ffffffff() {
    let mut b = minimal_dbc();
    put_u32(&mut b, 16, 0xFFFF_FFFF);
    check("dbc_string_block_size_ffffffff", probe(|| parse(&b)));
}
/// Direct public call with a caller-chosen size over a 4-byte reader (same site).
#[test]
fn string_block_parse_direct() {
    let data = [0u8; 4];
    check(
        "string_block_parse_direct",
        probe(|| wow_cdbc::StringBlock::parse(&mut std::io::Cursor::new(&data[..]), 0, 0x1000_0000)),
    );
}

/// parser.rs:401 `Vec::with_capacity(array_size)` in parse_record_with_schema: array_size comes from the
/// caller-supplied `Schema` (SchemaField::new_array), never from the DBC bytes; `with_schema` validates the
/// schema against header.field_count / record_size, and schema_discovery only emits array sizes 2..=10.
/// Hostile header values therefore cannot enlarge this allocation: sweep the header under a fixed schema.
#[test]
fn schema_array_size_not_input_controlled() {
    use wow_cdbc::{FieldType, Schema, SchemaField};
    let mk = || {
        let mut s = Schema::new("T");
        s.add_field(SchemaField::new_array("a", FieldType::UInt32, 2));
        s
    };
    let run = |b: &[u8]| -> Result<usize, wow_cdbc::Error> {
        let p = DbcParser::parse_bytes(b)?.with_schema(mk())?;
        Ok(p.parse_records()?.len())
    };
    let base = minimal_dbc();
    let o = probe(|| run(&base));
    eprintln!("schema baseline: {o:?}");
    assert_eq!(o.returned, "Ok", "{o:?}");
    let mut worst_other = 0usize;
    for off in [8usize, 12] {
        // field_count, record_size (record_count / string_block_size are separate, known sites)
        for val in [0u32, 1, 3, 0x0010_0000, 0x0400_0000, 0x7FFF_FFFF, 0xFFFF_FFFF] {
            let mut b = base.clone();
            put_u32(&mut b, off, val);
            let o = probe(|| run(&b));
            eprintln!("schema hdr+{off:#x}={val:#x}: {o:?}");
            assert!(o.panic.is_none());
            worst_other = worst_other.max(o.max_alloc);
        }
    }
    assert!(worst_other < (1 << 20), "worst {worst_other}");
}
