//! Side finding: a multi-sector file added with compression = 0 (or whose sectors are all
//! incompressible) does not round-trip. The builder writes a sector offset table (+ CRC
//! table) in front of the data but does not set FLAG_COMPRESS; `read_file` takes the
//! "uncompressed" branch, reads `compressed_size` raw bytes from `file_pos` and returns
//! the offset table as file content. Sector checksums are never consulted on that path.

use tempfile::tempdir;
use wow_mpq::{Archive, ArchiveBuilder, ListfileOption};

#[test]
fn stored_multi_sector_file_round_trips() {
    let dir = tempdir().unwrap();
    let data: Vec<u8> = (0..4096 * 3 + 100).map(|i| (i % 251) as u8).collect();
    for crc in [false, true] {
        let p = dir.path().join(format!("stored_{crc}.mpq"));
        ArchiveBuilder::new()
            .block_size(3)
            .listfile_option(ListfileOption::Generate)
            .generate_crcs(crc)
            .add_file_data_with_options(data.clone(), "f.bin", 0, false, 0)
            .build(&p)
            .unwrap();
        let got = Archive::open(&p).unwrap().read_file("f.bin").unwrap();
        assert!(
            got == data,
            "crc={crc}: got {} bytes (expected {}), first 8 bytes {:02x?} (expected {:02x?})",
            got.len(),
            data.len(),
            &got[..8],
            &data[..8]
        );
    }
}
