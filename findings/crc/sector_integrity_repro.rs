//! Reproduction tests: sector-level integrity of multi-sector files.
//!
//! Property: when an archive carries integrity metadata (per-sector checksums),
//! after any modification of protected bytes either the read reports failure
//! or the returned content is still bit-identical to the original. Likewise a
//! sector that cannot be decompressed must never be silently replaced.

use std::fs;
use std::path::Path;
use tempfile::tempdir;
use wow_mpq::{Archive, ArchiveBuilder, ListfileOption, compression::flags};

const SECTOR: usize = 4096; // block_size(3)

fn prng(n: usize, mut s: u64) -> Vec<u8> {
    let mut v = Vec::with_capacity(n);
    for _ in 0..n {
        s ^= s << 13;
        s ^= s >> 7;
        s ^= s << 17;
        v.push((s >> 24) as u8);
    }
    v
}

/// Sector 0 compressible (sets FLAG_COMPRESS -> sectored read path),
/// sectors 1..=3 incompressible (stored verbatim inside the sectored file).
fn mixed_data() -> Vec<u8> {
    let mut d = vec![b'A'; SECTOR];
    d.extend(prng(SECTOR * 3, 0x1234_5678_9abc_def1));
    d
}

fn text_data() -> Vec<u8> {
    "Hello World! ".repeat(1300).into_bytes() // 16900 bytes -> 5 sectors
}

fn build(path: &Path, data: &[u8], crc: bool, encrypt: bool) {
    let mut b = ArchiveBuilder::new()
        .block_size(3)
        .listfile_option(ListfileOption::Generate);
    if crc {
        b = b.generate_crcs(true);
    }
    b = if encrypt {
        b.add_file_data_with_encryption(data.to_vec(), "f.bin", flags::ZLIB, false, 0)
    } else {
        b.add_file_data_with_options(data.to_vec(), "f.bin", flags::ZLIB, false, 0)
    };
    b.build(path).unwrap();
}

/// (file_pos, sector offsets) of an UNENCRYPTED sectored file, parsed from raw bytes.
fn sector_table(path: &Path, name: &str) -> (usize, Vec<usize>, u32) {
    let a = Archive::open(path).unwrap();
    let fi = a.find_file(name).unwrap().unwrap();
    assert!(!fi.is_single_unit() && fi.is_compressed() && !fi.is_encrypted());
    let raw = fs::read(path).unwrap();
    let pos = fi.file_pos as usize;
    let n = (fi.file_size as usize).div_ceil(SECTOR);
    let offs = (0..=n)
        .map(|i| u32::from_le_bytes(raw[pos + 4 * i..pos + 4 * i + 4].try_into().unwrap()) as usize)
        .collect();
    (pos, offs, fi.flags)
}

fn check(path: &Path, original: &[u8]) {
    let mut a = Archive::open(path).unwrap();
    match a.read_file("f.bin") {
        Err(e) => println!("read_file reported failure (correct): {e}"),
        Ok(d) => {
            let first_diff = d.iter().zip(original).position(|(x, y)| x != y);
            assert!(
                d == original,
                "read_file returned Ok with ALTERED content (len {} vs {}, first differing byte at {:?})",
                d.len(),
                original.len(),
                first_diff
            );
        }
    }
}

/// Item 1: sector checksums present, byte flipped in a stored sector.
#[test]
fn item1_sector_crc_detects_flip_in_stored_sector() {
    let dir = tempdir().unwrap();
    let p = dir.path().join("a.mpq");
    let data = mixed_data();
    build(&p, &data, true, false);

    // precondition: clean round trip, flag set, CRC table present in layout
    assert_eq!(Archive::open(&p).unwrap().read_file("f.bin").unwrap(), data);
    let (pos, offs, fl) = sector_table(&p, "f.bin");
    assert_ne!(fl & 0x0400_0000, 0, "FLAG_SECTOR_CRC expected");
    assert_eq!(offs[0], (4 + 1) * 4 + 4 * 4, "offset table + CRC table");
    assert_eq!(offs[3] - offs[2], SECTOR, "sector 2 is stored");

    let mut raw = fs::read(&p).unwrap();
    let at = pos + offs[2] + 100;
    assert_eq!(raw[at], data[2 * SECTOR + 100]);
    raw[at] ^= 0x01;
    fs::write(&p, &raw).unwrap();

    check(&p, &data);
}

/// Item 1b: the stored checksum itself is modified (protected metadata); data intact.
/// Either an error or identical content is acceptable -> this passes on any implementation
/// that returns the intact data; kept to make sure a fix does not return garbage.
#[test]
fn item1b_modified_crc_table_entry() {
    let dir = tempdir().unwrap();
    let p = dir.path().join("a.mpq");
    let data = mixed_data();
    build(&p, &data, true, false);
    let (pos, _offs, _) = sector_table(&p, "f.bin");
    let mut raw = fs::read(&p).unwrap();
    raw[pos + 5 * 4 + 4] ^= 0xFF; // CRC of sector 1
    fs::write(&p, &raw).unwrap();
    check(&p, &data);
}

fn corrupt_compressed_sector(crc: bool) {
    let dir = tempdir().unwrap();
    let p = dir.path().join("a.mpq");
    let data = text_data();
    build(&p, &data, crc, false);
    assert_eq!(Archive::open(&p).unwrap().read_file("f.bin").unwrap(), data);

    let (pos, offs, _) = sector_table(&p, "f.bin");
    let (s, e) = (pos + offs[1], pos + offs[2]);
    assert!(e - s < SECTOR, "sector 1 is compressed");
    let mut raw = fs::read(&p).unwrap();
    assert_eq!(raw[s], flags::ZLIB, "compression-type prefix byte");
    // keep the method byte, destroy the zlib stream
    for b in &mut raw[s + 1..e] {
        *b = !*b;
    }
    fs::write(&p, &raw).unwrap();

    check(&p, &data);
}

/// Item 2: undecompressable sector, no sector CRC.
#[test]
fn item2_corrupt_compressed_sector_without_crc() {
    corrupt_compressed_sector(false);
}

/// Item 2: undecompressable sector, with sector CRC.
#[test]
fn item2_corrupt_compressed_sector_with_crc() {
    corrupt_compressed_sector(true);
}

/// Item 2b: inverted sector offsets (end < start) are also "recovered" with zeros.
#[test]
fn item2b_inverted_sector_offsets() {
    let dir = tempdir().unwrap();
    let p = dir.path().join("a.mpq");
    let data = text_data();
    build(&p, &data, false, false);
    let (pos, offs, _) = sector_table(&p, "f.bin");
    let mut raw = fs::read(&p).unwrap();
    // make offset[2] smaller than offset[1]
    let bad = (offs[1] as u32 - 1).to_le_bytes();
    raw[pos + 8..pos + 12].copy_from_slice(&bad);
    fs::write(&p, &raw).unwrap();
    check(&p, &data);
}

/// Item 3 (informational): encrypted + sector CRC + multi-sector must round-trip.
#[test]
fn item3_encrypted_sector_crc_roundtrip() {
    let dir = tempdir().unwrap();
    for (label, data) in [("text", text_data()), ("mixed", mixed_data())] {
        let p = dir.path().join(format!("{label}.mpq"));
        build(&p, &data, true, true);
        let got = Archive::open(&p).unwrap().read_file("f.bin");
        match got {
            Ok(d) => assert!(d == data, "{label}: encrypted+CRC file does not round-trip"),
            Err(e) => panic!("{label}: encrypted+CRC file unreadable: {e}"),
        }
    }
}

/// Item 3b: encrypted + sector CRC, flip one ciphertext byte in a stored sector.
#[test]
fn item3b_encrypted_sector_crc_detects_flip() {
    let dir = tempdir().unwrap();
    let p = dir.path().join("a.mpq");
    let data = mixed_data();
    build(&p, &data, true, true);
    let a = Archive::open(&p).unwrap();
    let fi = a.find_file("f.bin").unwrap().unwrap();
    drop(a);
    // layout is deterministic: 5 offsets + 4 CRCs, sector 0 compressed, then 3 stored sectors;
    // the last 3*SECTOR bytes of the file block are the stored sectors.
    let end = fi.file_pos as usize + fi.compressed_size as usize + 4 * 4; // csize excludes CRC table
    let at = end - SECTOR - 1000; // inside sector 2
    let mut raw = fs::read(&p).unwrap();
    raw[at] ^= 0x80;
    fs::write(&p, &raw).unwrap();
    check(&p, &data);
}
