//! Round-trip of the trailing header fields of version-4 skins.
//!
//! A new-format skin header of version 4 may carry `center_position` and
//! `center_bounds` (16 bytes) after the five array references; this is how
//! `SkinHeader::new` builds the header for BfA and later, and `write` emits the
//! fields whenever they are set. `parse` must therefore give them back, and must
//! keep giving `None` for a version-4 header that does not have them (Legion).

use std::io::Cursor;

use wow_m2::common::M2Array;
use wow_m2::skin::{SkinBatch, SkinHeader, SkinHeaderT, SkinSubmesh};
use wow_m2::{M2Version, Skin, SkinFile, parse_skin};

fn submesh(id: u16) -> SkinSubmesh {
    SkinSubmesh {
        id,
        level: 0,
        vertex_start: 0,
        vertex_count: 4,
        triangle_start: 0,
        triangle_count: 6,
        bone_count: 1,
        bone_start: 0,
        bone_influence: 1,
        center: [0.5, 1.5, 2.5],
        sort_center: [0.25, 0.75, 1.25],
        bounding_radius: 3.5,
    }
}

fn batch(section: u16) -> SkinBatch {
    SkinBatch {
        flags: 0x10,
        priority_plane: -1,
        shader_id: 0x8000,
        skin_section_index: section,
        geoset_index: section,
        color_index: 0xFFFF,
        material_index: 1,
        material_layer: 0,
        texture_count: 1,
        texture_combo_index: 2,
        texture_coord_combo_index: 3,
        texture_weight_combo_index: 4,
        texture_transform_combo_index: 5,
    }
}

/// A skin with every array populated.
fn full_skin(version: M2Version) -> Skin {
    let mut header = SkinHeader::new(version);
    header.vertex_count = 4;
    Skin {
        header,
        indices: vec![0, 1, 2, 3],
        triangles: vec![0, 1, 2, 2, 1, 3],
        bone_indices: vec![0, 0, 0, 0, 1, 0, 0, 0, 2, 0, 0, 0, 3, 0, 0, 0],
        submeshes: vec![submesh(0), submesh(1)],
        batches: vec![batch(0), batch(1)],
    }
}

/// A skin with no array data at all: the file is the header alone.
fn header_only_skin(version: M2Version) -> Skin {
    Skin {
        header: SkinHeader::new(version),
        indices: Vec::new(),
        triangles: Vec::new(),
        bone_indices: Vec::new(),
        submeshes: Vec::new(),
        batches: Vec::new(),
    }
}

/// A skin whose only data is the last array of the header.
fn batches_only_skin(version: M2Version) -> Skin {
    let mut skin = header_only_skin(version);
    skin.batches = vec![batch(7)];
    skin
}

fn with_center(mut skin: Skin, position: [f32; 3], bounds: f32) -> Skin {
    skin.header.center_position = Some(position);
    skin.header.center_bounds = Some(bounds);
    skin
}

fn write_skin(skin: &Skin) -> Vec<u8> {
    let mut out = Cursor::new(Vec::new());
    skin.write(&mut out).expect("write skin");
    out.into_inner()
}

fn assert_submesh_eq(got: &SkinSubmesh, want: &SkinSubmesh, ctx: &str) {
    assert_eq!(got.id, want.id, "submesh id ({ctx})");
    assert_eq!(got.level, want.level, "submesh level ({ctx})");
    assert_eq!(got.vertex_start, want.vertex_start, "{ctx}");
    assert_eq!(got.vertex_count, want.vertex_count, "{ctx}");
    assert_eq!(got.triangle_start, want.triangle_start, "{ctx}");
    assert_eq!(got.triangle_count, want.triangle_count, "{ctx}");
    assert_eq!(got.bone_count, want.bone_count, "{ctx}");
    assert_eq!(got.bone_start, want.bone_start, "{ctx}");
    assert_eq!(got.bone_influence, want.bone_influence, "{ctx}");
    assert_eq!(got.center, want.center, "submesh center ({ctx})");
    assert_eq!(got.sort_center, want.sort_center, "{ctx}");
    assert_eq!(got.bounding_radius, want.bounding_radius, "{ctx}");
}

fn assert_batch_eq(got: &SkinBatch, want: &SkinBatch, ctx: &str) {
    assert_eq!(got.flags, want.flags, "batch flags ({ctx})");
    assert_eq!(got.priority_plane, want.priority_plane, "{ctx}");
    assert_eq!(got.shader_id, want.shader_id, "{ctx}");
    assert_eq!(got.skin_section_index, want.skin_section_index, "{ctx}");
    assert_eq!(got.geoset_index, want.geoset_index, "{ctx}");
    assert_eq!(got.color_index, want.color_index, "{ctx}");
    assert_eq!(got.material_index, want.material_index, "{ctx}");
    assert_eq!(got.material_layer, want.material_layer, "{ctx}");
    assert_eq!(got.texture_count, want.texture_count, "{ctx}");
    assert_eq!(got.texture_combo_index, want.texture_combo_index, "{ctx}");
    assert_eq!(
        got.texture_coord_combo_index, want.texture_coord_combo_index,
        "{ctx}"
    );
    assert_eq!(
        got.texture_weight_combo_index, want.texture_weight_combo_index,
        "{ctx}"
    );
    assert_eq!(
        got.texture_transform_combo_index, want.texture_transform_combo_index,
        "{ctx}"
    );
}

/// parse(write(x)) == x, field by field, and write(parse(write(x))) == write(x).
fn check_round_trip(original: &Skin, ctx: &str) {
    let written = write_skin(original);
    let parsed = Skin::parse(&mut Cursor::new(&written)).expect("parse written skin");

    // Header
    assert_eq!(parsed.header.magic, original.header.magic, "magic ({ctx})");
    assert_eq!(
        parsed.header.version, original.header.version,
        "version ({ctx})"
    );
    assert_eq!(parsed.header.name, original.header.name, "name ({ctx})");
    assert_eq!(
        parsed.header.vertex_count, original.header.vertex_count,
        "vertex_count ({ctx})"
    );
    assert_eq!(
        parsed.header.center_position, original.header.center_position,
        "center_position ({ctx})"
    );
    assert_eq!(
        parsed.header.center_bounds, original.header.center_bounds,
        "center_bounds ({ctx})"
    );

    // Data
    assert_eq!(parsed.indices, original.indices, "indices ({ctx})");
    assert_eq!(parsed.triangles, original.triangles, "triangles ({ctx})");
    assert_eq!(
        parsed.bone_indices, original.bone_indices,
        "bone_indices ({ctx})"
    );
    assert_eq!(
        parsed.submeshes.len(),
        original.submeshes.len(),
        "submesh count ({ctx})"
    );
    for (got, want) in parsed.submeshes.iter().zip(&original.submeshes) {
        assert_submesh_eq(got, want, ctx);
    }
    assert_eq!(
        parsed.batches.len(),
        original.batches.len(),
        "batch count ({ctx})"
    );
    for (got, want) in parsed.batches.iter().zip(&original.batches) {
        assert_batch_eq(got, want, ctx);
    }

    // Second generation is byte-identical
    let rewritten = write_skin(&parsed);
    assert_eq!(
        rewritten, written,
        "write(parse(write(x))) differs from write(x) ({ctx})"
    );
}

#[test]
fn bfa_skin_keeps_center_position_and_bounds() {
    let skin = with_center(full_skin(M2Version::BfA), [1.5, -2.25, 3.0], 7.5);
    check_round_trip(&skin, "BfA, all arrays populated");
}

#[test]
fn bfa_default_header_keeps_its_zero_center() {
    // `SkinHeader::new(BfA)` sets `Some([0.0; 3])` / `Some(0.0)`, not `None`.
    let skin = full_skin(M2Version::BfA);
    assert_eq!(skin.header.center_position, Some([0.0, 0.0, 0.0]));
    check_round_trip(&skin, "BfA, default center");
}

#[test]
fn every_post_legion_version_keeps_center_position() {
    for version in [
        M2Version::BfA,
        M2Version::Shadowlands,
        M2Version::Dragonflight,
        M2Version::TheWarWithin,
    ] {
        let skin = with_center(full_skin(version), [-4.0, 0.125, 9.75], 12.0);
        check_round_trip(&skin, &format!("{version:?}, all arrays populated"));
    }
}

#[test]
fn bfa_header_only_skin_keeps_center_position() {
    let skin = with_center(header_only_skin(M2Version::BfA), [1.0, 2.0, 3.0], 4.0);
    check_round_trip(&skin, "BfA, no array data");
}

#[test]
fn bfa_skin_with_only_batches_keeps_center_position() {
    let skin = with_center(batches_only_skin(M2Version::BfA), [1.0, 2.0, 3.0], 4.0);
    check_round_trip(&skin, "BfA, batches only");
}

#[test]
fn bfa_skin_keeps_center_position_through_format_detection() {
    let skin = with_center(full_skin(M2Version::BfA), [1.5, -2.25, 3.0], 7.5);
    let written = write_skin(&skin);

    match parse_skin(&mut Cursor::new(&written)).expect("parse_skin") {
        SkinFile::New(parsed) => {
            assert_eq!(parsed.header.center_position, Some([1.5, -2.25, 3.0]));
            assert_eq!(parsed.header.center_bounds, Some(7.5));
            assert_eq!(parsed.header.get_m2_version(), Some(M2Version::BfA));
        }
        SkinFile::Old(_) => panic!("a version-4 skin must be detected as new format"),
    }
}

#[test]
fn bfa_header_alone_round_trips() {
    let mut header = SkinHeader::new(M2Version::BfA);
    header.center_position = Some([1.5, -2.25, 3.0]);
    header.center_bounds = Some(7.5);
    // Array data lying somewhere after the 76-byte header.
    header.indices = M2Array::new(3, 0x80);

    let mut bytes = Vec::new();
    header.write(&mut bytes).expect("write header");
    assert_eq!(bytes.len(), header.calculate_size());
    bytes.resize(0x80 + 3 * 2, 0);

    let parsed = SkinHeader::parse(&mut Cursor::new(&bytes)).expect("parse header");
    assert_eq!(parsed.center_position, Some([1.5, -2.25, 3.0]));
    assert_eq!(parsed.center_bounds, Some(7.5));
    assert_eq!(parsed.indices, header.indices);
}

// A version-4 header without the trailing fields (Legion) must keep parsing as
// such: the bytes that follow it are array data, not a center position.

#[test]
fn legion_skin_has_no_center_position() {
    let skin = full_skin(M2Version::Legion);
    assert_eq!(skin.header.version, 4);
    assert_eq!(skin.header.center_position, None);
    check_round_trip(&skin, "Legion, all arrays populated");
}

#[test]
fn legion_header_only_skin_has_no_center_position() {
    check_round_trip(
        &header_only_skin(M2Version::Legion),
        "Legion, no array data",
    );
}

#[test]
fn legion_skin_with_only_batches_has_no_center_position() {
    check_round_trip(
        &batches_only_skin(M2Version::Legion),
        "Legion, batches only",
    );
}
