//! Round-trip of the embedded skin views of pre-WotLK models.
//!
//! Pre-WotLK models (header version <= 263) carry their skin views inside the
//! M2 file. The library keeps them as raw byte arrays in
//! `M2Model::raw_data.embedded_skins` and `M2Model::write` re-emits them with a
//! freshly built 44-byte view header (five count/offset pairs + bone_count_max).
//!
//! A batch (texture unit) is 24 bytes on disk; this is what the model parser
//! uses to size the `batches` array it reads back. The count the writer puts in
//! the view header must therefore be `batches.len() / 24`, otherwise a model
//! written by the library does not parse back to the same data.

use std::io::Cursor;

use wow_m2::header::M2Header;
use wow_m2::model::EmbeddedSkinRaw;
use wow_m2::{M2Model, M2Version};

/// Size in bytes of one batch / texture unit in a skin view.
const BATCH_SIZE: usize = 24;

/// Deterministic, non-constant filler so that truncated or shifted arrays are
/// detected by the comparison.
fn pattern(len: usize, seed: u8) -> Vec<u8> {
    (0..len)
        .map(|i| seed.wrapping_add((i as u8).wrapping_mul(7)))
        .collect()
}

fn u32_at(bytes: &[u8], at: usize) -> u32 {
    u32::from_le_bytes([bytes[at], bytes[at + 1], bytes[at + 2], bytes[at + 3]])
}

/// One embedded skin view with `n_batches` batches.
fn skin_view(version: M2Version, n_batches: usize, seed: u8) -> EmbeddedSkinRaw {
    let submesh_size = if version.to_header_version() < 260 {
        32
    } else {
        48
    };

    // Only bone_count_max (last 4 bytes) of the stored view header is carried
    // over by the writer; counts and offsets are recomputed.
    let mut model_view = vec![0u8; 44];
    model_view[40..44].copy_from_slice(&21u32.to_le_bytes());

    EmbeddedSkinRaw {
        model_view,
        indices: pattern(4 * 2, seed),
        triangles: pattern(6 * 2, seed.wrapping_add(1)),
        properties: pattern(4 * 4, seed.wrapping_add(2)),
        submeshes: pattern(2 * submesh_size, seed.wrapping_add(3)),
        batches: pattern(n_batches * BATCH_SIZE, seed.wrapping_add(4)),
        ..Default::default()
    }
}

fn model_with_views(version: M2Version, batch_counts: &[usize]) -> M2Model {
    let mut model = M2Model {
        header: M2Header::new(version),
        ..Default::default()
    };
    model.raw_data.embedded_skins = batch_counts
        .iter()
        .enumerate()
        .map(|(i, &n)| skin_view(version, n, 0x10 * (i as u8 + 1)))
        .collect();
    model
}

fn write_model(model: &M2Model) -> Vec<u8> {
    let mut out = Cursor::new(Vec::new());
    model.write(&mut out).expect("write model");
    out.into_inner()
}

fn parse_model(bytes: &[u8]) -> M2Model {
    M2Model::parse(&mut Cursor::new(bytes)).expect("parse written model")
}

fn check_round_trip(version: M2Version, batch_counts: &[usize]) {
    let original = model_with_views(version, batch_counts);
    let written = write_model(&original);
    let parsed = parse_model(&written);

    let ctx = format!("version {version:?}, batch counts {batch_counts:?}");

    assert_eq!(
        parsed.raw_data.embedded_skins.len(),
        original.raw_data.embedded_skins.len(),
        "number of embedded skin views ({ctx})"
    );

    for (i, (got, want)) in parsed
        .raw_data
        .embedded_skins
        .iter()
        .zip(&original.raw_data.embedded_skins)
        .enumerate()
    {
        // The count in the written view header is the number of 24-byte batches.
        assert_eq!(
            u32_at(&got.model_view, 32) as usize,
            want.batches.len() / BATCH_SIZE,
            "n_batches in the header of view {i} ({ctx})"
        );
        assert_eq!(got.indices, want.indices, "indices of view {i} ({ctx})");
        assert_eq!(
            got.triangles, want.triangles,
            "triangles of view {i} ({ctx})"
        );
        assert_eq!(
            got.properties, want.properties,
            "properties of view {i} ({ctx})"
        );
        assert_eq!(
            got.submeshes, want.submeshes,
            "submeshes of view {i} ({ctx})"
        );
        assert_eq!(got.batches, want.batches, "batches of view {i} ({ctx})");
        assert_eq!(
            u32_at(&got.model_view, 40),
            u32_at(&want.model_view, 40),
            "bone_count_max of view {i} ({ctx})"
        );
    }

    // Writing what was parsed reproduces the file byte for byte ...
    let rewritten = write_model(&parsed);
    assert_eq!(
        rewritten, written,
        "write(parse(write(x))) differs from write(x) ({ctx})"
    );

    // ... and parsing that gives the very same views, header bytes included.
    let reparsed = parse_model(&rewritten);
    for (i, (a, b)) in reparsed
        .raw_data
        .embedded_skins
        .iter()
        .zip(&parsed.raw_data.embedded_skins)
        .enumerate()
    {
        assert_eq!(a.model_view, b.model_view, "view header {i} ({ctx})");
        assert_eq!(
            a.batches, b.batches,
            "batches of view {i}, 2nd pass ({ctx})"
        );
    }
}

#[test]
fn vanilla_single_batch_round_trips() {
    // 24 bytes of batch data: the smallest non-empty case.
    check_round_trip(M2Version::Vanilla, &[1]);
}

#[test]
fn vanilla_batch_counts_round_trip() {
    for n in [0usize, 1, 2, 3, 4, 5, 8, 9] {
        check_round_trip(M2Version::Vanilla, &[n]);
    }
}

#[test]
fn tbc_batch_counts_round_trip() {
    for n in [0usize, 1, 2, 3, 4, 5, 8, 9] {
        check_round_trip(M2Version::TBC, &[n]);
    }
}

#[test]
fn several_views_round_trip() {
    // Four views, as in retail pre-WotLK models, each with its own batch count.
    check_round_trip(M2Version::Vanilla, &[5, 3, 2, 1]);
    check_round_trip(M2Version::TBC, &[5, 3, 2, 1]);
}
