//! The MOHD chunk `WmoWriter` produces must be the 64-byte header every WMO
//! v17 reader expects (wowdev.wiki/WMO#MOHD_chunk), and both parsers of this
//! crate must read the values that were written back out of it.

use std::collections::HashMap;
use std::io::Cursor;

use wow_wmo::{
    BoundingBox, Color, ParsedWmo, Vec3, WmoDoodadDef, WmoDoodadSet, WmoFlags, WmoGroupFlags,
    WmoGroupInfo, WmoHeader, WmoMaterial, WmoMaterialFlags, WmoParser, WmoRoot, WmoVersion,
    WmoWriter, parse_wmo,
};

fn bounding_box() -> BoundingBox {
    BoundingBox {
        min: Vec3 {
            x: -10.5,
            y: -20.25,
            z: -1.0,
        },
        max: Vec3 {
            x: 30.0,
            y: 40.75,
            z: 12.5,
        },
    }
}

fn sample_root() -> WmoRoot {
    let doodad = |name_offset: u32| WmoDoodadDef {
        name_offset,
        position: Vec3 {
            x: 1.0,
            y: 2.0,
            z: 3.0,
        },
        orientation: [0.0, 0.0, 0.0, 1.0],
        scale: 1.0,
        color: Color {
            r: 255,
            g: 255,
            b: 255,
            a: 255,
        },
        set_index: 0,
    };

    WmoRoot {
        version: WmoVersion::Classic,
        materials: vec![WmoMaterial {
            flags: WmoMaterialFlags::UNLIT,
            shader: 0,
            blend_mode: 0,
            texture1: 0,
            emissive_color: Color::default(),
            sidn_color: Color::default(),
            framebuffer_blend: Color::default(),
            texture2: 0,
            diffuse_color: Color::default(),
            ground_type: 0,
        }],
        groups: vec![WmoGroupInfo {
            flags: WmoGroupFlags::empty(),
            bounding_box: bounding_box(),
            name: "group_000".to_string(),
        }],
        portals: Vec::new(),
        portal_references: Vec::new(),
        visible_block_lists: Vec::new(),
        lights: Vec::new(),
        // Three placements of the same model
        doodad_defs: vec![doodad(0), doodad(0), doodad(0)],
        doodad_sets: vec![WmoDoodadSet {
            name: "Set_$DefaultGlobal".to_string(),
            start_doodad: 0,
            n_doodads: 3,
        }],
        bounding_box: bounding_box(),
        textures: vec!["world\\texture.blp".to_string()],
        texture_offset_index_map: HashMap::new(),
        header: WmoHeader {
            n_materials: 1,
            n_groups: 1,
            n_portals: 0,
            n_lights: 0,
            n_doodad_names: 1,
            n_doodad_defs: 3,
            n_doodad_sets: 1,
            flags: WmoFlags::OUTDOOR | WmoFlags::HAS_LIQUIDS,
            ambient_color: Color {
                r: 0x11,
                g: 0x22,
                b: 0x33,
                a: 0x44,
            },
        },
        skybox: None,
        convex_volume_planes: None,
    }
}

fn write(root: &WmoRoot) -> Vec<u8> {
    let mut out = Cursor::new(Vec::new());
    WmoWriter::new()
        .write_root(&mut out, root, WmoVersion::Classic)
        .unwrap();
    out.into_inner()
}

/// (declared size, offset of the chunk after it) of the chunk with the given magic
fn find_chunk(data: &[u8], magic: &[u8; 4]) -> (u32, usize) {
    let mut on_disk = *magic;
    on_disk.reverse();
    let mut pos = 0;
    while pos + 8 <= data.len() {
        let size = u32::from_le_bytes(data[pos + 4..pos + 8].try_into().unwrap());
        if data[pos..pos + 4] == on_disk {
            return (size, pos + 8 + size as usize);
        }
        pos += 8 + size as usize;
    }
    panic!("chunk {} not found", String::from_utf8_lossy(magic));
}

#[test]
fn mohd_is_the_64_byte_header() {
    let data = write(&sample_root());
    let (size, next) = find_chunk(&data, b"MOHD");
    assert_eq!(size, 64, "declared MOHD size");
    // What follows the declared size is the next chunk: the declared size is what was written
    assert_eq!(&data[next..next + 4], b"XTOM", "chunk after MOHD");
}

#[test]
fn parse_wmo_reads_back_the_written_header() {
    let root = sample_root();
    let data = write(&root);

    let parsed = match parse_wmo(&mut Cursor::new(&data)).unwrap() {
        ParsedWmo::Root(parsed) => parsed,
        ParsedWmo::Group(_) => panic!("written root detected as a group file"),
    };

    assert_eq!(parsed.n_materials, 1);
    assert_eq!(parsed.n_groups, 1);
    assert_eq!(parsed.n_portals, 0);
    assert_eq!(parsed.n_lights, 0);
    assert_eq!(parsed.n_doodad_defs, 3);
    assert_eq!(parsed.n_doodad_sets, 1);
    // The count in the header is the count of names in the MODN chunk of the same file
    assert_eq!(parsed.n_doodad_names as usize, parsed.doodad_names.len());

    // BGRA on disk
    assert_eq!(parsed.ambient_color, [0x33, 0x22, 0x11, 0x44]);
    assert_eq!(
        parsed.flags as u32,
        root.header.flags.bits(),
        "flags (0x3C in MOHD)"
    );
    assert_eq!(parsed.wmo_id, 0, "the writer has no WMO id to write");
    assert_eq!(parsed.num_lod, 0);
    let bbox = bounding_box();
    assert_eq!(
        parsed.bounding_box_min,
        [bbox.min.x, bbox.min.y, bbox.min.z]
    );
    assert_eq!(
        parsed.bounding_box_max,
        [bbox.max.x, bbox.max.y, bbox.max.z]
    );
}

#[test]
fn wmo_parser_reads_back_the_written_header() {
    let root = sample_root();
    let data = write(&root);

    let parsed = WmoParser::new()
        .parse_root(&mut Cursor::new(&data))
        .unwrap();

    assert_eq!(parsed.header.n_materials, 1);
    assert_eq!(parsed.header.n_groups, 1);
    assert_eq!(parsed.header.n_portals, 0);
    assert_eq!(parsed.header.n_lights, 0);
    assert_eq!(parsed.header.n_doodad_defs, 3);
    assert_eq!(parsed.header.n_doodad_sets, 1);
    assert_eq!(parsed.header.flags, root.header.flags);
    assert_eq!(parsed.header.ambient_color, root.header.ambient_color);
}

/// A header as the game client's files have it: the WMO id sits at 0x20 and the
/// flags at 0x3C. `WmoParser` must not take one for the other.
#[test]
fn wmo_parser_reads_flags_from_their_place_in_a_client_header() {
    let mut data = Vec::new();
    data.extend_from_slice(b"REVM");
    data.extend_from_slice(&4u32.to_le_bytes());
    data.extend_from_slice(&17u32.to_le_bytes());

    data.extend_from_slice(b"DHOM");
    data.extend_from_slice(&64u32.to_le_bytes());
    for count in [0u32; 7] {
        data.extend_from_slice(&count.to_le_bytes());
    }
    data.extend_from_slice(&[0x33, 0x22, 0x11, 0x44]); // ambient colour, BGRA
    data.extend_from_slice(&0x0000_1234u32.to_le_bytes()); // WMO id
    for v in [-1.0f32, -2.0, -3.0, 1.0, 2.0, 3.0] {
        data.extend_from_slice(&v.to_le_bytes());
    }
    data.extend_from_slice(&0x000Au16.to_le_bytes()); // flags: OUTDOOR | HAS_LIQUIDS
    data.extend_from_slice(&0u16.to_le_bytes()); // LOD count

    let parsed = WmoParser::new()
        .parse_root(&mut Cursor::new(&data))
        .unwrap();
    assert_eq!(
        parsed.header.flags,
        WmoFlags::OUTDOOR | WmoFlags::HAS_LIQUIDS
    );
    assert_eq!(
        parsed.header.ambient_color,
        Color {
            r: 0x11,
            g: 0x22,
            b: 0x33,
            a: 0x44
        }
    );
}
