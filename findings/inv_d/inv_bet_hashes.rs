//! V3/V4 archives written by `ArchiveBuilder` must be fully usable through the
//! HET/BET tables alone: every file name resolves through HET to candidates of
//! which exactly the right one is confirmed by its BET name hash, and the BET
//! entry describes the same file as the classic hash/block tables do.
//!
//! `Archive::find_file` falls back to the classic tables when the HET/BET path
//! does not confirm a name, so a wrong BET hash never shows in a plain
//! read-back. The lookup is therefore done here on the tables themselves.

use tempfile::TempDir;
use wow_mpq::{Archive, ArchiveBuilder, AttributesOption, FormatVersion, ListfileOption};

fn file_names() -> Vec<String> {
    let mut names = vec![
        "readme.txt".to_string(),
        "Units\\Human\\Footman.mdx".to_string(),
        "interface/glue/MainMenu.blp".to_string(),
    ];
    for i in 0..40 {
        names.push(format!("data\\dir{}\\file_{i:03}.bin", i % 5));
    }
    names
}

/// Resolve `name` through HET and BET only; `None` when that path does not find it.
fn het_bet_lookup(archive: &Archive, name: &str) -> Option<(u32, wow_mpq::BetFileInfo)> {
    let het = archive.het_table().expect("archive has a HET table");
    let bet = archive.bet_table().expect("archive has a BET table");
    let (_, candidates) = het.find_file_with_collision_info(name);
    let confirmed: Vec<u32> = candidates
        .iter()
        .copied()
        .filter(|&index| bet.verify_file_hash(index, name))
        .collect();
    assert!(
        confirmed.len() <= 1,
        "'{name}': more than one BET entry confirms the name hash: {confirmed:?}"
    );
    let index = *confirmed.first()?;
    Some((index, bet.get_file_info(index)?))
}

fn check(version: FormatVersion, compress_tables: bool, attributes: AttributesOption) {
    let dir = TempDir::new().unwrap();
    let path = dir.path().join("het_bet.mpq");

    let names = file_names();
    let mut builder = ArchiveBuilder::new()
        .version(version)
        .listfile_option(ListfileOption::Generate)
        .attributes_option(attributes.clone())
        .compress_tables(compress_tables);
    for (i, name) in names.iter().enumerate() {
        builder = builder.add_file_data(format!("content of file {i}").into_bytes(), name);
    }
    builder.build(&path).unwrap();

    let archive = Archive::open(&path).unwrap();
    let case = format!("{version:?}, compress_tables={compress_tables}, {attributes:?}");

    let mut expected: Vec<String> = names.clone();
    expected.push("(listfile)".to_string());
    if !matches!(attributes, AttributesOption::None) {
        expected.push("(attributes)".to_string());
    }

    let bet = archive.bet_table().expect("archive has a BET table");
    assert_eq!(
        { bet.header.file_count } as usize,
        expected.len(),
        "[{case}] BET file count"
    );

    let mut missing = Vec::new();
    for (position, name) in expected.iter().enumerate() {
        let Some((index, info)) = het_bet_lookup(&archive, name) else {
            missing.push(name.clone());
            continue;
        };
        // Files are written, and numbered, in the order they were added
        assert_eq!(index as usize, position, "[{case}] '{name}': BET index");

        // The BET entry is the file the classic tables describe
        let classic = archive
            .find_file(name)
            .unwrap()
            .unwrap_or_else(|| panic!("[{case}] '{name}' not found at all"));
        assert_eq!(
            info.file_pos, classic.file_pos,
            "[{case}] '{name}': position"
        );
        assert_eq!(info.file_size, classic.file_size, "[{case}] '{name}': size");
        assert_eq!(
            info.compressed_size, classic.compressed_size,
            "[{case}] '{name}': compressed size"
        );
        assert_eq!(info.flags, classic.flags, "[{case}] '{name}': flags");
    }
    assert!(
        missing.is_empty(),
        "[{case}] {} of {} files cannot be resolved through HET/BET alone: {:?}",
        missing.len(),
        expected.len(),
        &missing[..missing.len().min(5)]
    );

    // A name that is not in the archive is confirmed by no BET hash
    assert!(het_bet_lookup(&archive, "no\\such\\file.txt").is_none());
}

#[test]
fn v3_het_bet_alone_resolves_every_file() {
    check(FormatVersion::V3, false, AttributesOption::None);
}

#[test]
fn v3_compressed_tables_het_bet_alone_resolves_every_file() {
    check(FormatVersion::V3, true, AttributesOption::None);
}

#[test]
fn v4_het_bet_alone_resolves_every_file() {
    check(FormatVersion::V4, false, AttributesOption::None);
}

#[test]
fn v4_compressed_tables_het_bet_alone_resolves_every_file() {
    check(FormatVersion::V4, true, AttributesOption::None);
}

#[test]
fn v4_generated_attributes_het_bet_alone_resolves_every_file() {
    check(FormatVersion::V4, false, AttributesOption::GenerateCrc32);
}
