//! Every file of a V3/V4 archive written by `ArchiveBuilder` must be reachable
//! through the HET table, whatever its 8-bit name hash is. A name hash always has
//! its top bit set, so it can take the value 0xFF: a slot holding that value is an
//! occupied slot, not a free one.
//!
//! `Archive::find_file` falls back to the classic tables, so the HET/BET tables are
//! queried directly here.

use tempfile::TempDir;
use wow_mpq::crypto::het_hash;
use wow_mpq::{Archive, ArchiveBuilder, FormatVersion, ListfileOption};

fn check(version: FormatVersion) {
    let dir = TempDir::new().unwrap();
    let path = dir.path().join("het.mpq");

    let names: Vec<String> = (0..600).map(|i| format!("data\\f{i}.bin")).collect();
    let with_ff: Vec<&String> = names
        .iter()
        .filter(|name| het_hash(name, 8).1 == 0xFF)
        .collect();
    assert!(
        !with_ff.is_empty(),
        "the input must hold names whose 8-bit name hash is 0xFF"
    );

    let mut builder = ArchiveBuilder::new()
        .version(version)
        .listfile_option(ListfileOption::Generate);
    for (i, name) in names.iter().enumerate() {
        builder = builder.add_file_data(format!("content {i}").into_bytes(), name);
    }
    builder.build(&path).unwrap();

    let archive = Archive::open(&path).unwrap();
    let het = archive.het_table().expect("archive has a HET table");
    let bet = archive.bet_table().expect("archive has a BET table");

    let mut missing = Vec::new();
    for (i, name) in names.iter().enumerate() {
        let (_, candidates) = het.find_file_with_collision_info(name);
        if !candidates.contains(&(i as u32)) {
            missing.push((name.as_str(), het_hash(name, 8).1));
            continue;
        }
        // The BET entry HET points at is this file's
        let info = bet.get_file_info(i as u32).unwrap();
        let classic = archive.find_file(name).unwrap().unwrap();
        assert_eq!(info.file_pos, classic.file_pos, "'{name}': position");
        assert_eq!(info.file_size, classic.file_size, "'{name}': size");
    }
    assert!(
        missing.is_empty(),
        "[{version:?}] {} of {} files are not reachable through HET (name, 8-bit name hash): {:?}",
        missing.len(),
        names.len(),
        missing
    );

    // A name that is not in the archive has no candidate pointing at a real file
    let (found, _) = het.find_file_with_collision_info("no\\such\\file.txt");
    if let Some(index) = found {
        assert!(!bet.verify_file_hash(index, "no\\such\\file.txt"));
    }
}

#[test]
fn v3_every_name_hash_is_reachable_through_het() {
    check(FormatVersion::V3);
}

#[test]
fn v4_every_name_hash_is_reachable_through_het() {
    check(FormatVersion::V4);
}
