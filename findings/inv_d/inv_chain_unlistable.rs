//! An archive that cannot name its own files (no `(listfile)`) still serves them
//! by name. A `PatchChain` lookup must therefore ask every archive, in priority
//! order: a file that lives only in such an archive is found, and such an archive
//! overrides a lower-priority one that does list the same name.

use std::path::{Path, PathBuf};
use tempfile::TempDir;
use wow_mpq::{Archive, ArchiveBuilder, ListfileOption, PatchChain};

fn build(dir: &Path, name: &str, listfile: ListfileOption, files: &[(&str, &[u8])]) -> PathBuf {
    let path = dir.join(name);
    let mut builder = ArchiveBuilder::new().listfile_option(listfile);
    for (filename, data) in files {
        builder = builder.add_file_data(data.to_vec(), filename);
    }
    builder.build(&path).unwrap();
    path
}

fn chain_with_unlistable_patch(dir: &Path) -> (PatchChain, PathBuf, PathBuf) {
    let base = build(
        dir,
        "base.mpq",
        ListfileOption::Generate,
        &[
            ("shared.txt", b"shared, base version"),
            ("base_only.txt", b"only in base"),
        ],
    );
    let patch = build(
        dir,
        "patch.mpq",
        ListfileOption::None,
        &[
            ("shared.txt", b"shared, patch version"),
            ("patch_only.txt", b"only in patch"),
        ],
    );

    // The patch archive on its own serves both files by name, it just cannot list them
    let mut alone = Archive::open(&patch).unwrap();
    assert_eq!(alone.read_file("patch_only.txt").unwrap(), b"only in patch");
    assert_eq!(
        alone.read_file("shared.txt").unwrap(),
        b"shared, patch version"
    );
    assert!(alone.find_file("(listfile)").unwrap().is_none());

    let mut chain = PatchChain::new();
    chain.add_archive(&base, 0).unwrap();
    chain.add_archive(&patch, 100).unwrap();
    (chain, base, patch)
}

#[test]
fn file_only_in_unlistable_archive_is_served() {
    let dir = TempDir::new().unwrap();
    let (mut chain, _base, patch) = chain_with_unlistable_patch(dir.path());

    assert!(chain.contains_file("patch_only.txt"));
    assert_eq!(
        chain.find_file_archive("patch_only.txt"),
        Some(patch.as_path())
    );
    assert_eq!(chain.read_file("patch_only.txt").unwrap(), b"only in patch");
}

#[test]
fn unlistable_archive_keeps_its_priority() {
    let dir = TempDir::new().unwrap();
    let (mut chain, base, patch) = chain_with_unlistable_patch(dir.path());

    assert_eq!(chain.find_file_archive("shared.txt"), Some(patch.as_path()));
    assert_eq!(
        chain.read_file("shared.txt").unwrap(),
        b"shared, patch version"
    );

    // Files of the listed archive are unaffected
    assert_eq!(
        chain.find_file_archive("base_only.txt"),
        Some(base.as_path())
    );
    assert_eq!(chain.read_file("base_only.txt").unwrap(), b"only in base");

    // And a name no archive holds is still reported as missing
    assert!(!chain.contains_file("nowhere.txt"));
    assert_eq!(chain.find_file_archive("nowhere.txt"), None);
    assert!(chain.read_file("nowhere.txt").is_err());
}

#[test]
fn unlistable_base_archive_is_served_below_a_listed_patch() {
    let dir = TempDir::new().unwrap();
    let base = build(
        dir.path(),
        "base.mpq",
        ListfileOption::None,
        &[
            ("shared.txt", b"shared, base version"),
            ("base_only.txt", b"only in base"),
        ],
    );
    let patch = build(
        dir.path(),
        "patch.mpq",
        ListfileOption::Generate,
        &[("shared.txt", b"shared, patch version")],
    );

    let mut chain = PatchChain::from_archives_parallel(vec![(&base, 0), (&patch, 100)]).unwrap();

    assert_eq!(chain.read_file("base_only.txt").unwrap(), b"only in base");
    assert_eq!(
        chain.read_file("shared.txt").unwrap(),
        b"shared, patch version"
    );
    assert_eq!(chain.find_file_archive("shared.txt"), Some(patch.as_path()));
}
