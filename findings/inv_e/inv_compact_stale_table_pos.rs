//! Candidate 2: add -> compact -> remove -> flush/compact breaks the archive (V1/V2).
//!
//! When a flush relocates a grown block table it records the new position in
//! `updated_block_table_pos`. `compact()` replaces the archive file by a freshly built
//! one but keeps that recorded position. The next flush then writes the block table at
//! the new file's real position, but `update_header` stores the stale position of the
//! *old* file in the header. On reopen the block table is read from the wrong place.

use wow_mpq::compression::CompressionMethod;
use wow_mpq::{
    AddFileOptions, Archive, ArchiveBuilder, FormatVersion, ListfileOption, MutableArchive,
};

fn build(path: &std::path::Path, version: FormatVersion) {
    ArchiveBuilder::new()
        .version(version)
        .listfile_option(ListfileOption::Generate)
        .add_file_data(b"alpha alpha alpha".to_vec(), "a.txt")
        .add_file_data(b"beta beta beta beta".to_vec(), "b.txt")
        .add_file_data(b"gamma".to_vec(), "dir\\c.txt")
        .build(path)
        .unwrap();
}

fn check(path: &std::path::Path, expected: &[(&str, &[u8])], what: &str) {
    let mut a = Archive::open(path).unwrap_or_else(|e| panic!("{what}: reopen: {e}"));
    let mut names: Vec<String> = a
        .list()
        .unwrap_or_else(|e| panic!("{what}: list: {e}"))
        .into_iter()
        .map(|e| e.name)
        .filter(|n| !n.starts_with('('))
        .collect();
    names.sort();
    let mut want: Vec<String> = expected.iter().map(|(n, _)| n.to_string()).collect();
    want.sort();
    assert_eq!(names, want, "{what}: listed names");
    for (n, d) in expected {
        let got = a
            .read_file(n)
            .unwrap_or_else(|e| panic!("{what}: read {n}: {e}"));
        assert_eq!(&got[..], *d, "{what}: content of {n}");
    }
}

fn add_compact_remove_flush(version: FormatVersion) {
    let dir = tempfile::TempDir::new().unwrap();
    let path = dir.path().join("a.mpq");
    build(&path, version);
    {
        let mut m = MutableArchive::open(&path).unwrap();
        let opts = AddFileOptions::new().compression(CompressionMethod::None);
        // grows the block table: the flush inside compact() relocates it
        m.add_file_data(b"delta delta", "d.txt", opts).unwrap();
        m.compact().unwrap();
        m.remove_file("d.txt").unwrap();
        m.flush().unwrap();
    }
    check(
        &path,
        &[
            ("a.txt", b"alpha alpha alpha"),
            ("b.txt", b"beta beta beta beta"),
            ("dir\\c.txt", b"gamma"),
        ],
        &format!("{version:?} add,compact,remove,flush"),
    );
}

fn add_compact_remove_compact(version: FormatVersion) {
    let dir = tempfile::TempDir::new().unwrap();
    let path = dir.path().join("a.mpq");
    build(&path, version);
    {
        let mut m = MutableArchive::open(&path).unwrap();
        let opts = AddFileOptions::new().compression(CompressionMethod::None);
        m.add_file_data(b"delta delta", "d.txt", opts).unwrap();
        m.compact().unwrap();
        m.remove_file("b.txt").unwrap();
        m.compact()
            .unwrap_or_else(|e| panic!("{version:?}: second compact: {e}"));
    }
    check(
        &path,
        &[
            ("a.txt", b"alpha alpha alpha"),
            ("d.txt", b"delta delta"),
            ("dir\\c.txt", b"gamma"),
        ],
        &format!("{version:?} add,compact,remove,compact"),
    );
}

/// Control: without an add before the first compact nothing was relocated
fn compact_remove_compact(version: FormatVersion) {
    let dir = tempfile::TempDir::new().unwrap();
    let path = dir.path().join("a.mpq");
    build(&path, version);
    {
        let mut m = MutableArchive::open(&path).unwrap();
        m.compact().unwrap();
        m.remove_file("b.txt").unwrap();
        m.compact().unwrap();
    }
    check(
        &path,
        &[("a.txt", b"alpha alpha alpha"), ("dir\\c.txt", b"gamma")],
        &format!("{version:?} compact,remove,compact"),
    );
}

#[test]
fn v1_add_compact_remove_flush() {
    add_compact_remove_flush(FormatVersion::V1);
}

#[test]
fn v2_add_compact_remove_flush() {
    add_compact_remove_flush(FormatVersion::V2);
}

#[test]
fn v1_add_compact_remove_compact() {
    add_compact_remove_compact(FormatVersion::V1);
}

#[test]
fn v2_add_compact_remove_compact() {
    add_compact_remove_compact(FormatVersion::V2);
}

#[test]
fn v1_v2_compact_remove_compact_control() {
    compact_remove_compact(FormatVersion::V1);
    compact_remove_compact(FormatVersion::V2);
}
