//! Candidate 4: "adding a zero-length file makes the archive unlistable on reopen".
//!
//! NOT reproduced as a defect of its own. Every directed case and the random campaign
//! below pass on the unmodified crate, except `zero_length_add_compact_remove`, whose
//! "No block table loaded" is the stale table position kept across `compact()`
//! (candidate 2, see inv_compact_stale_table_pos.rs) - it fails the same way with a
//! non-empty file.

use std::collections::BTreeMap;
use wow_mpq::compression::CompressionMethod;
use wow_mpq::{
    AddFileOptions, Archive, ArchiveBuilder, AttributesOption, FormatVersion, ListfileOption,
    MutableArchive,
};

const VERSIONS: [FormatVersion; 4] = [
    FormatVersion::V1,
    FormatVersion::V2,
    FormatVersion::V3,
    FormatVersion::V4,
];

fn options(i: u8) -> AddFileOptions {
    match i {
        0 => AddFileOptions::new(),
        1 => AddFileOptions::new().compression(CompressionMethod::None),
        2 => AddFileOptions::new().encrypt(),
        _ => AddFileOptions::new()
            .compression(CompressionMethod::None)
            .fix_key(),
    }
}

fn build(path: &std::path::Path, version: FormatVersion, listfile: bool, attrs: bool) {
    let mut b = ArchiveBuilder::new()
        .version(version)
        .listfile_option(if listfile {
            ListfileOption::Generate
        } else {
            ListfileOption::None
        });
    if attrs {
        b = b.attributes_option(AttributesOption::GenerateCrc32);
    }
    b.add_file_data(b"first file".to_vec(), "one.txt")
        .add_file_data(vec![7u8; 3000], "dir\\two.bin")
        .build(path)
        .unwrap();
}

fn verify(path: &std::path::Path, listfile: bool, model: &BTreeMap<String, Vec<u8>>, what: &str) {
    let mut a = Archive::open(path).unwrap_or_else(|e| panic!("{what}: reopen: {e}"));
    let listed = a.list().unwrap_or_else(|e| panic!("{what}: list: {e}"));
    if listfile {
        let mut names: Vec<String> = listed
            .into_iter()
            .map(|e| e.name)
            .filter(|n| !n.starts_with('('))
            .collect();
        names.sort();
        let want: Vec<String> = model.keys().cloned().collect();
        assert_eq!(names, want, "{what}: listed names");
    }
    for (n, d) in model {
        let got = a
            .read_file(n)
            .unwrap_or_else(|e| panic!("{what}: read {n}: {e}"));
        assert!(
            &got == d,
            "{what}: {n}: got {} bytes, want {}",
            got.len(),
            d.len()
        );
    }
}

fn base_model() -> BTreeMap<String, Vec<u8>> {
    let mut m = BTreeMap::new();
    m.insert("one.txt".to_string(), b"first file".to_vec());
    m.insert("dir\\two.bin".to_string(), vec![7u8; 3000]);
    m
}

#[test]
fn zero_length_directed() {
    let dir = tempfile::TempDir::new().unwrap();
    let mut n = 0;
    for version in VERSIONS {
        for listfile in [true, false] {
            for attrs in [false, true] {
                for opt in 0..4u8 {
                    for scenario in 0..5u8 {
                        n += 1;
                        let path = dir.path().join(format!("z{n}.mpq"));
                        build(&path, version, listfile, attrs);
                        let mut model = base_model();
                        let what = format!(
                            "{version:?} listfile={listfile} attrs={attrs} opt={opt} scenario={scenario}"
                        );
                        {
                            let mut m = MutableArchive::open(&path).unwrap();
                            match scenario {
                                // only a new zero-length file
                                0 => {
                                    m.add_file_data(&[], "empty.dat", options(opt)).unwrap();
                                    model.insert("empty.dat".into(), vec![]);
                                }
                                // zero-length file, then a normal one
                                1 => {
                                    m.add_file_data(&[], "empty.dat", options(opt)).unwrap();
                                    m.add_file_data(b"after", "after.dat", options(opt))
                                        .unwrap();
                                    model.insert("empty.dat".into(), vec![]);
                                    model.insert("after.dat".into(), b"after".to_vec());
                                }
                                // existing file truncated to zero length
                                2 => {
                                    m.add_file_data(&[], "dir\\two.bin", options(opt)).unwrap();
                                    model.insert("dir\\two.bin".into(), vec![]);
                                }
                                // from a zero-length file on disk
                                3 => {
                                    let src = dir.path().join("src_empty");
                                    std::fs::write(&src, b"").unwrap();
                                    m.add_file(&src, "from\\disk.dat", options(opt)).unwrap();
                                    model.insert("from\\disk.dat".into(), vec![]);
                                }
                                // zero-length, flush, second session adds and removes
                                _ => {
                                    m.add_file_data(&[], "empty.dat", options(opt)).unwrap();
                                    m.flush().unwrap();
                                    drop(m);
                                    m = MutableArchive::open(&path)
                                        .unwrap_or_else(|e| panic!("{what}: second session: {e}"));
                                    m.add_file_data(&[], "empty2.dat", options(opt)).unwrap();
                                    m.remove_file("one.txt").unwrap();
                                    model.insert("empty.dat".into(), vec![]);
                                    model.insert("empty2.dat".into(), vec![]);
                                    model.remove("one.txt");
                                }
                            }
                            m.flush().unwrap();
                        }
                        verify(&path, listfile, &model, &what);
                        std::fs::remove_file(&path).unwrap();
                    }
                }
            }
        }
    }
    assert_eq!(n, 4 * 2 * 2 * 4 * 5);
}

struct Rng(u64);
impl Rng {
    fn next(&mut self) -> u64 {
        let mut x = self.0;
        x ^= x << 13;
        x ^= x >> 7;
        x ^= x << 17;
        self.0 = x;
        x
    }
    fn below(&mut self, n: u64) -> u64 {
        self.next() % n
    }
}

/// 400 random histories (add / remove / flush / new session), half of the adds zero-length
#[test]
fn zero_length_random_histories_v1_v2() {
    const NAMES: [&str; 6] = [
        "one.txt",
        "dir\\two.bin",
        "a.dat",
        "b.dat",
        "dir\\c.dat",
        "d\\e\\f.x",
    ];
    let dir = tempfile::TempDir::new().unwrap();
    let mut rng = Rng(0x0BAD_5EED_1234_5679);
    for h in 0..400 {
        let version = if h % 2 == 0 {
            FormatVersion::V1
        } else {
            FormatVersion::V2
        };
        let listfile = rng.below(4) != 0;
        let attrs = rng.below(3) == 0;
        let path = dir.path().join(format!("r{h}.mpq"));
        build(&path, version, listfile, attrs);
        let mut model = base_model();
        let mut log = Vec::new();
        let mut m = MutableArchive::open(&path).unwrap();
        for _ in 0..1 + rng.below(7) {
            match rng.below(10) {
                0..=5 => {
                    let name = NAMES[rng.below(6) as usize];
                    let len = if rng.below(2) == 0 {
                        0
                    } else {
                        [1usize, 5, 700, 20000][rng.below(4) as usize]
                    };
                    let data: Vec<u8> = (0..len).map(|_| rng.next() as u8).collect();
                    let opt = rng.below(4) as u8;
                    log.push(format!("add {name} len={len} opt={opt}"));
                    m.add_file_data(&data, name, options(opt))
                        .unwrap_or_else(|e| panic!("history {h} {log:?}: {e}"));
                    model.insert(name.to_string(), data);
                }
                6 | 7 => {
                    if let Some(name) = model
                        .keys()
                        .nth(rng.below(model.len().max(1) as u64) as usize)
                        .cloned()
                    {
                        log.push(format!("remove {name}"));
                        m.remove_file(&name)
                            .unwrap_or_else(|e| panic!("history {h} {log:?}: {e}"));
                        model.remove(&name);
                    }
                }
                8 => {
                    log.push("flush".into());
                    m.flush()
                        .unwrap_or_else(|e| panic!("history {h} {log:?}: {e}"));
                }
                _ => {
                    log.push("new session".into());
                    m.flush()
                        .unwrap_or_else(|e| panic!("history {h} {log:?}: {e}"));
                    drop(m);
                    m = MutableArchive::open(&path)
                        .unwrap_or_else(|e| panic!("history {h} {log:?}: {e}"));
                }
            }
        }
        m.flush()
            .unwrap_or_else(|e| panic!("history {h} {log:?}: {e}"));
        drop(m);
        verify(
            &path,
            listfile,
            &model,
            &format!("history {h} {version:?} {log:?}"),
        );
        std::fs::remove_file(&path).unwrap();
    }
}

/// The one zero-length history the random harness flagged. It is candidate 2 (stale
/// block table position kept across compact), not a zero-length problem: replace `&[]`
/// by any non-empty data and it fails identically on the unmodified crate.
#[test]
fn zero_length_add_compact_remove() {
    for version in [FormatVersion::V1, FormatVersion::V2] {
        let dir = tempfile::TempDir::new().unwrap();
        let path = dir.path().join("c.mpq");
        build(&path, version, true, false);
        let mut model = base_model();
        {
            let mut m = MutableArchive::open(&path).unwrap();
            m.add_file_data(&[], "empty.dat", AddFileOptions::new())
                .unwrap();
            m.compact().unwrap();
            m.remove_file("one.txt").unwrap();
            m.flush().unwrap();
        }
        model.insert("empty.dat".into(), vec![]);
        model.remove("one.txt");
        verify(
            &path,
            true,
            &model,
            &format!("{version:?} add(empty),compact,remove"),
        );
    }
}
