//! Scratch random-history harness (investigation only)
use std::collections::BTreeMap;
use std::path::Path;
use wow_mpq::compression::CompressionMethod;
use wow_mpq::{
    AddFileOptions, Archive, ArchiveBuilder, AttributesOption, FormatVersion, ListfileOption,
    MutableArchive,
};

struct Rng(u64);
impl Rng {
    fn next(&mut self) -> u64 {
        let mut x = self.0;
        x ^= x << 13;
        x ^= x >> 7;
        x ^= x << 17;
        self.0 = x;
        x
    }
    fn below(&mut self, n: u64) -> u64 {
        self.next() % n
    }
}

#[derive(Debug, Clone)]
enum Op {
    Add {
        name: String,
        size: usize,
        random: bool,
        seed: u64,
        opt: u8,
    },
    Remove(String),
    Rename(String, String),
    Compact,
    Flush,
    Reopen,
}

fn gen_data(size: usize, random: bool, seed: u64) -> Vec<u8> {
    let mut r = Rng(seed | 1);
    (0..size)
        .map(|i| {
            if random {
                r.next() as u8
            } else {
                (b'a' + ((i / 7 + seed as usize) % 5) as u8) as u8
            }
        })
        .collect()
}

fn options(opt: u8) -> AddFileOptions {
    match opt {
        0 => AddFileOptions::new(),
        1 => AddFileOptions::new().compression(CompressionMethod::None),
        2 => AddFileOptions::new().encrypt(),
        3 => AddFileOptions::new()
            .compression(CompressionMethod::None)
            .encrypt(),
        4 => AddFileOptions::new().fix_key(),
        _ => AddFileOptions::new()
            .compression(CompressionMethod::None)
            .fix_key(),
    }
}

#[derive(Clone, Copy)]
struct Cfg {
    version: FormatVersion,
    attrs: bool,
    allow_encrypt: bool,
    allow_rename: bool,
    allow_compact: bool,
    allow_zero: bool,
    allow_remove: bool,
    listfile: bool,
    zero_bias: bool,
    allow_reopen: bool,
    initial: u8, // 0 = three files, 1 = no files, 2 = three files + a zero-length one
}

const NAMES: [&str; 8] = [
    "f0.dat",
    "f1.dat",
    "f2.dat",
    "dir\\g3.bin",
    "dir\\g4.bin",
    "h5.txt",
    "h6.txt",
    "deep\\er\\i7.x",
];

fn gen_history(rng: &mut Rng, cfg: &Cfg, initial: &[String]) -> Vec<Op> {
    let mut live: Vec<String> = initial.to_vec();
    let n = 1 + rng.below(7);
    let mut ops = vec![];
    for _ in 0..n {
        let k = rng.below(10);
        if k < 5 || live.is_empty() {
            let name = NAMES[rng.below(8) as usize].to_string();
            let sizes = [0usize, 1, 3, 100, 600, 5000, 20000, 70000];
            let mut size = sizes[rng.below(8) as usize];
            if cfg.zero_bias && rng.below(2) == 0 {
                size = 0;
            }
            if size == 0 && !cfg.allow_zero {
                size = 10;
            }
            let opt = if cfg.allow_encrypt {
                rng.below(6) as u8
            } else {
                rng.below(2) as u8
            };
            if !live.contains(&name) {
                live.push(name.clone());
            }
            ops.push(Op::Add {
                name,
                size,
                random: rng.below(2) == 0,
                seed: rng.next(),
                opt,
            });
        } else if k < 7 && cfg.allow_remove {
            let i = rng.below(live.len() as u64) as usize;
            ops.push(Op::Remove(live.remove(i)));
        } else if k == 7 && cfg.allow_rename {
            let i = rng.below(live.len() as u64) as usize;
            let new = NAMES[rng.below(8) as usize].to_string();
            if !live.contains(&new) {
                let old = std::mem::replace(&mut live[i], new.clone());
                ops.push(Op::Rename(old, new));
            }
        } else if k == 8 && cfg.allow_compact {
            ops.push(Op::Compact);
        } else if k == 9 && cfg.allow_reopen && rng.below(2) == 0 {
            ops.push(Op::Reopen);
        } else {
            ops.push(Op::Flush);
        }
    }
    ops
}

fn run_history(path: &Path, cfg: &Cfg, ops: &[Op]) -> Result<(), String> {
    let mut model: BTreeMap<String, Vec<u8>> = BTreeMap::new();
    let mut b = ArchiveBuilder::new()
        .version(cfg.version)
        .listfile_option(if cfg.listfile {
            ListfileOption::Generate
        } else {
            ListfileOption::None
        });
    if cfg.attrs {
        b = b.attributes_option(AttributesOption::GenerateCrc32);
    }
    let init_names: &[&str] = match cfg.initial {
        0 => &["f0.dat", "dir\\g3.bin", "h5.txt"],
        1 => &[],
        _ => &["f0.dat", "dir\\g3.bin", "h5.txt", "f2.dat"],
    };
    for (i, n) in init_names.iter().enumerate() {
        let d = gen_data(if i == 3 { 0 } else { 50 + i * 3000 }, i == 1, i as u64 + 1);
        model.insert(n.to_string(), d.clone());
        b = b.add_file_data(d, n);
    }
    b.build(path).map_err(|e| format!("build: {e}"))?;

    {
        let mut m = MutableArchive::open(path).map_err(|e| format!("mopen: {e}"))?;
        for (i, op) in ops.iter().enumerate() {
            match op {
                Op::Add {
                    name,
                    size,
                    random,
                    seed,
                    opt,
                } => {
                    let d = gen_data(*size, *random, *seed);
                    m.add_file_data(&d, name, options(*opt))
                        .map_err(|e| format!("op{i} add: {e}"))?;
                    model.insert(name.clone(), d);
                }
                Op::Remove(n) => {
                    m.remove_file(n).map_err(|e| format!("op{i} remove: {e}"))?;
                    model.remove(n);
                }
                Op::Rename(a, b) => {
                    m.rename_file(a, b)
                        .map_err(|e| format!("op{i} rename: {e}"))?;
                    let d = model.remove(a).unwrap();
                    model.insert(b.clone(), d);
                }
                Op::Compact => m.compact().map_err(|e| format!("op{i} compact: {e}"))?,
                Op::Flush => m.flush().map_err(|e| format!("op{i} flush: {e}"))?,
                Op::Reopen => {
                    m.flush()
                        .map_err(|e| format!("op{i} flush-before-reopen: {e}"))?;
                    drop(m);
                    m = MutableArchive::open(path).map_err(|e| format!("op{i} reopen: {e}"))?;
                }
            }
        }
        m.flush().map_err(|e| format!("final flush: {e}"))?;
    }

    let mut a = Archive::open(path).map_err(|e| format!("reopen: {e}"))?;
    let mut names: Vec<String> = a
        .list()
        .map_err(|e| format!("list: {e}"))?
        .into_iter()
        .map(|e| e.name)
        .filter(|n| !n.starts_with('('))
        .collect();
    names.sort();
    let expect: Vec<String> = model.keys().cloned().collect();
    if !cfg.listfile {
        for n in NAMES {
            let present = a.find_file(n).map_err(|e| format!("find: {e}"))?.is_some();
            if present != model.contains_key(n) {
                return Err(format!("presence of {n}: {present}"));
            }
        }
    } else if names != expect {
        return Err(format!("names {names:?} != expected {expect:?}"));
    }
    for (n, d) in &model {
        match a.read_file(n) {
            Ok(got) => {
                if &got != d {
                    return Err(format!(
                        "content of {n}: got {} bytes, expected {} bytes (differs)",
                        got.len(),
                        d.len()
                    ));
                }
            }
            Err(e) => return Err(format!("read {n}: {e}")),
        }
    }
    Ok(())
}

fn campaign(label: &str, cfg: Cfg, seed: u64, count: usize) -> usize {
    let dir = tempfile::TempDir::new().unwrap();
    let mut rng = Rng(seed);
    let initial: Vec<String> = match cfg.initial {
        0 => vec!["f0.dat", "dir\\g3.bin", "h5.txt"],
        1 => vec![],
        _ => vec!["f0.dat", "dir\\g3.bin", "h5.txt", "f2.dat"],
    }
    .iter()
    .map(|s| s.to_string())
    .collect();
    let mut fails = 0;
    let mut shortest: Option<(Vec<Op>, String)> = None;
    for i in 0..count {
        let ops = gen_history(&mut rng, &cfg, &initial);
        let path = dir.path().join(format!("h{i}.mpq"));
        let r = std::panic::catch_unwind(|| run_history(&path, &cfg, &ops))
            .unwrap_or_else(|_| Err("PANIC".to_string()));
        if let Err(e) = r {
            fails += 1;
            if shortest.as_ref().is_none_or(|(o, _)| ops.len() < o.len()) {
                shortest = Some((ops.clone(), e.clone()));
            }
            if fails <= 6 {
                println!("[{label}] FAIL #{i}: {e}\n    {ops:?}");
            }
        }
        let _ = std::fs::remove_file(&path);
    }
    println!("[{label}] {fails}/{count} histories failed");
    if let Some((o, e)) = shortest {
        println!("[{label}] shortest: {e}\n    {o:?}");
    }
    fails
}

fn base(version: FormatVersion) -> Cfg {
    Cfg {
        version,
        attrs: false,
        allow_encrypt: false,
        allow_rename: false,
        allow_compact: false,
        allow_zero: false,
        allow_remove: true,
        listfile: true,
        zero_bias: false,
        allow_reopen: false,
        initial: 0,
    }
}

#[test]
fn c1_v3_plain() {
    campaign(
        "v3 plain",
        base(FormatVersion::V3),
        0x1234_5678_9abc_def1,
        300,
    );
    campaign(
        "v4 plain",
        base(FormatVersion::V4),
        0x1234_5678_9abc_def1,
        300,
    );
    let mut c = base(FormatVersion::V3);
    c.attrs = true;
    campaign("v3 attrs", c, 0x1234_5678_9abc_def1, 300);
    let mut c = base(FormatVersion::V4);
    c.allow_encrypt = true;
    campaign("v4 enc", c, 0x1234_5678_9abc_def1, 300);
}

#[test]
fn c0_v1v2_plain() {
    campaign(
        "v1 plain",
        base(FormatVersion::V1),
        0x9999_5678_9abc_def1,
        300,
    );
    campaign(
        "v2 plain",
        base(FormatVersion::V2),
        0x9999_5678_9abc_def1,
        300,
    );
    let mut c = base(FormatVersion::V1);
    c.attrs = true;
    campaign("v1 attrs", c, 0x9999_5678_9abc_def1, 300);
    let mut c = base(FormatVersion::V2);
    c.allow_encrypt = true;
    campaign("v2 enc", c, 0x9999_5678_9abc_def1, 300);
}

#[test]
fn c2_compact() {
    let mut c = base(FormatVersion::V1);
    c.allow_compact = true;
    campaign("v1 compact", c, 0x7777_5678_9abc_def1, 300);
    c.version = FormatVersion::V2;
    campaign("v2 compact", c, 0x7777_5678_9abc_def1, 300);
}

#[test]
fn c3_rename() {
    let mut c = base(FormatVersion::V1);
    c.allow_rename = true;
    campaign("v1 rename noenc", c, 0x5555_5678_9abc_def1, 300);
    c.allow_encrypt = true;
    campaign("v1 rename enc", c, 0x5555_5678_9abc_def1, 300);
}

#[test]
fn c4_zero() {
    let mut c = base(FormatVersion::V1);
    c.allow_zero = true;
    campaign("v1 zero", c, 0x3333_5678_9abc_def1, 300);
}

#[test]
fn c4_zero_wide() {
    for v in [
        FormatVersion::V1,
        FormatVersion::V2,
        FormatVersion::V3,
        FormatVersion::V4,
    ] {
        for (listfile, attrs, enc, compact) in [
            (true, false, false, false),
            (false, false, false, false),
            (true, true, false, false),
            (false, true, true, false),
            (true, false, true, false),
            (true, false, false, true),
            (true, true, true, true),
        ] {
            let mut c = base(v);
            c.allow_zero = true;
            c.zero_bias = true;
            c.listfile = listfile;
            c.attrs = attrs;
            c.allow_encrypt = enc;
            c.allow_compact = compact && listfile;
            campaign(
                &format!("{v:?} zero lf={listfile} at={attrs} enc={enc} cp={compact}"),
                c,
                0x3333_5678_9abc_def1,
                200,
            );
        }
    }
}

#[test]
fn c5_reopen_wide() {
    for v in [
        FormatVersion::V1,
        FormatVersion::V2,
        FormatVersion::V3,
        FormatVersion::V4,
    ] {
        for initial in 0..3u8 {
            for (listfile, attrs, enc, compact) in [
                (true, false, false, false),
                (false, false, false, false),
                (true, true, true, false),
                (true, false, false, true),
            ] {
                let mut c = base(v);
                c.allow_zero = true;
                c.zero_bias = true;
                c.listfile = listfile;
                c.attrs = attrs;
                c.allow_encrypt = enc;
                c.allow_compact = compact && listfile;
                c.allow_reopen = true;
                c.initial = initial;
                campaign(
                    &format!(
                        "{v:?} reopen init={initial} lf={listfile} at={attrs} enc={enc} cp={compact}"
                    ),
                    c,
                    0x2222_5678_9abc_def1,
                    200,
                );
            }
        }
    }
}
