//! Candidate 1: in-place modification of a V3/V4 (HET/BET) archive corrupts file data.
//!
//! `MutableArchive::flush` writes the V3+ table block (HET, BET, hash, block) at the
//! *current stream position* of the file handle instead of at the end of the archive.
//! The stream position is wherever the last read or write ended:
//!  - after re-adding a name that is already in (listfile), the last I/O is the read of
//!    (listfile), so the tables land right behind the listfile, on top of whatever was
//!    appended after it;
//!  - with no (listfile) and no add at all (only remove_file) the position is 0, so the
//!    tables land on the MPQ header and the first file.

use wow_mpq::compression::CompressionMethod;
use wow_mpq::{
    AddFileOptions, Archive, ArchiveBuilder, FormatVersion, ListfileOption, MutableArchive,
};

fn pattern(len: usize, seed: u32) -> Vec<u8> {
    // xorshift32, incompressible enough and deterministic
    let mut x = seed | 1;
    (0..len)
        .map(|_| {
            x ^= x << 13;
            x ^= x >> 17;
            x ^= x << 5;
            x as u8
        })
        .collect()
}

fn names(a: &mut Archive) -> Vec<String> {
    let mut v: Vec<String> = a
        .list()
        .unwrap()
        .into_iter()
        .map(|e| e.name)
        .filter(|n| !n.starts_with('('))
        .collect();
    v.sort();
    v
}

/// add new name, then overwrite an already-listed name, flush
fn overwrite_listed_name(version: FormatVersion) {
    let dir = tempfile::TempDir::new().unwrap();
    let path = dir.path().join("a.mpq");

    let mut builder = ArchiveBuilder::new()
        .version(version)
        .listfile_option(ListfileOption::Generate);
    let mut expected = Vec::new();
    for i in 0..12u32 {
        let name = format!("file{i:02}.dat");
        let data = pattern(300 + i as usize, i + 1);
        builder = builder.add_file_data(data.clone(), &name);
        expected.push((name, data));
    }
    builder.build(&path).unwrap();

    let plain = || AddFileOptions::new().compression(CompressionMethod::None);
    let added = pattern(100, 77);
    let replaced = pattern(5000, 99);
    {
        let mut m = MutableArchive::open(&path).unwrap();
        // New name: file data, then the rewritten (listfile), are appended at the end
        m.add_file_data(&added, "added.dat", plain()).unwrap();
        // Listed name: only file data is appended (behind the listfile); the last I/O
        // of this call is the *read* of (listfile)
        m.add_file_data(&replaced, "file00.dat", plain()).unwrap();
        m.flush().unwrap();
    }
    expected[0].1 = replaced;
    expected.push(("added.dat".to_string(), added));
    expected.sort();

    let mut a = Archive::open(&path).unwrap();
    let want: Vec<String> = expected.iter().map(|(n, _)| n.clone()).collect();
    assert_eq!(names(&mut a), want);
    for (name, data) in &expected {
        let got = a
            .read_file(name)
            .unwrap_or_else(|e| panic!("{version:?}: read {name}: {e}"));
        assert!(
            &got == data,
            "{version:?}: {name} reads back wrong bytes ({} bytes, expected {})",
            got.len(),
            data.len()
        );
    }
}

#[test]
fn v3_overwrite_listed_name_keeps_data() {
    overwrite_listed_name(FormatVersion::V3);
}

#[test]
fn v4_overwrite_listed_name_keeps_data() {
    overwrite_listed_name(FormatVersion::V4);
}

/// Control: the same history on V1/V2 is fine
#[test]
fn v1_v2_overwrite_listed_name_keeps_data() {
    overwrite_listed_name(FormatVersion::V1);
    overwrite_listed_name(FormatVersion::V2);
}

/// No (listfile): remove_file does no file I/O before flush, the stream position is 0
fn remove_without_listfile(version: FormatVersion) {
    let dir = tempfile::TempDir::new().unwrap();
    let path = dir.path().join("b.mpq");
    let keep = pattern(4000, 5);
    ArchiveBuilder::new()
        .version(version)
        .listfile_option(ListfileOption::None)
        .default_compression(0)
        .add_file_data(keep.clone(), "keep.dat")
        .add_file_data(pattern(100, 6), "gone.dat")
        .build(&path)
        .unwrap();
    {
        let mut m = MutableArchive::open(&path).unwrap();
        m.remove_file("gone.dat").unwrap();
        m.flush().unwrap();
    }
    let mut a = Archive::open(&path).unwrap_or_else(|e| panic!("{version:?}: reopen: {e}"));
    assert!(a.find_file("gone.dat").unwrap().is_none());
    let got = a
        .read_file("keep.dat")
        .unwrap_or_else(|e| panic!("{version:?}: read keep.dat: {e}"));
    assert!(got == keep, "{version:?}: keep.dat reads back wrong bytes");
}

#[test]
fn v3_remove_without_listfile_keeps_data() {
    remove_without_listfile(FormatVersion::V3);
}

#[test]
fn v4_remove_without_listfile_keeps_data() {
    remove_without_listfile(FormatVersion::V4);
}

#[test]
fn v1_v2_remove_without_listfile_keeps_data() {
    remove_without_listfile(FormatVersion::V1);
    remove_without_listfile(FormatVersion::V2);
}
