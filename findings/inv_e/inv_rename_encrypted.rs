//! Candidate 3: renaming an encrypted file makes it unreadable.
//!
//! The key of an encrypted file derives from its name (with FIX_KEY also from its
//! position and size). `rename_file` only moves the hash table entry, so the data stays
//! encrypted under the old name's key and decrypts to garbage under the new name.
//!
//! Contract checked here, satisfied by either repair (re-encrypt, or refuse):
//!  - rename returned Ok  -> the new name reads back the original bytes, the old name is gone
//!  - rename returned Err -> the archive is unchanged: the old name still reads back

use wow_mpq::compression::CompressionMethod;
use wow_mpq::{
    AddFileOptions, Archive, ArchiveBuilder, FormatVersion, ListfileOption, MutableArchive,
};

fn payload() -> Vec<u8> {
    (0..2000u32).map(|i| (i * 31 % 251) as u8).collect()
}

fn check_rename(path: &std::path::Path, old: &str, new: &str, data: &[u8], what: &str) {
    let renamed = {
        let mut m = MutableArchive::open(path).unwrap();
        let r = m.rename_file(old, new);
        m.flush().unwrap();
        r
    };
    let mut a = Archive::open(path).unwrap();
    let mut names: Vec<String> = a.list().unwrap().into_iter().map(|e| e.name).collect();
    names.sort();
    match renamed {
        Ok(()) => {
            assert!(
                a.find_file(old).unwrap().is_none(),
                "{what}: old name still present after rename"
            );
            assert!(
                names.iter().any(|n| n == new),
                "{what}: {new} not listed: {names:?}"
            );
            let got = a.read_file(new).unwrap_or_else(|e| {
                panic!("{what}: rename returned Ok but {new} is unreadable: {e}")
            });
            assert!(
                got == data,
                "{what}: rename returned Ok but {new} reads back wrong bytes"
            );
        }
        Err(e) => {
            println!("{what}: rename refused: {e}");
            assert!(
                a.find_file(new).unwrap().is_none(),
                "{what}: rename failed but {new} exists"
            );
            assert!(
                names.iter().any(|n| n == old),
                "{what}: {old} not listed: {names:?}"
            );
            let got = a
                .read_file(old)
                .unwrap_or_else(|e| panic!("{what}: rename failed and {old} is unreadable: {e}"));
            assert!(got == data, "{what}: rename failed and {old} changed");
        }
    }
}

fn base_archive(path: &std::path::Path) {
    ArchiveBuilder::new()
        .version(FormatVersion::V1)
        .listfile_option(ListfileOption::Generate)
        .add_file_data(b"plain".to_vec(), "plain.txt")
        .add_file_data_with_encryption(payload(), "built\\secret.bin", 0, false, 0)
        .add_file_data_with_encryption(payload(), "built\\fixkey.bin", 0, true, 0)
        .build(path)
        .unwrap();
}

#[test]
fn rename_file_encrypted_by_mutable_archive() {
    let dir = tempfile::TempDir::new().unwrap();
    let path = dir.path().join("a.mpq");
    base_archive(&path);
    {
        let mut m = MutableArchive::open(&path).unwrap();
        let opts = AddFileOptions::new()
            .compression(CompressionMethod::None)
            .encrypt();
        m.add_file_data(&payload(), "secret.dat", opts).unwrap();
        m.flush().unwrap();
    }
    check_rename(&path, "secret.dat", "renamed.dat", &payload(), "encrypt()");
}

#[test]
fn rename_file_encrypted_compressed_same_session() {
    let dir = tempfile::TempDir::new().unwrap();
    let path = dir.path().join("a.mpq");
    base_archive(&path);
    let renamed = {
        let mut m = MutableArchive::open(&path).unwrap();
        m.add_file_data(&payload(), "secret.dat", AddFileOptions::new().encrypt())
            .unwrap();
        let r = m.rename_file("secret.dat", "other\\renamed.dat");
        m.flush().unwrap();
        r
    };
    let mut a = Archive::open(&path).unwrap();
    let name = if renamed.is_ok() {
        "other\\renamed.dat"
    } else {
        "secret.dat"
    };
    let got = a
        .read_file(name)
        .unwrap_or_else(|e| panic!("rename -> {renamed:?}, but {name} is unreadable: {e}"));
    assert!(
        got == payload(),
        "rename -> {renamed:?}, but {name} reads back wrong bytes"
    );
}

#[test]
fn rename_file_encrypted_with_fix_key() {
    let dir = tempfile::TempDir::new().unwrap();
    let path = dir.path().join("a.mpq");
    base_archive(&path);
    {
        let mut m = MutableArchive::open(&path).unwrap();
        let opts = AddFileOptions::new()
            .compression(CompressionMethod::None)
            .fix_key();
        m.add_file_data(&payload(), "secret.dat", opts).unwrap();
        m.flush().unwrap();
    }
    check_rename(&path, "secret.dat", "renamed.dat", &payload(), "fix_key()");
}

#[test]
fn rename_file_encrypted_by_builder() {
    let dir = tempfile::TempDir::new().unwrap();
    let path = dir.path().join("a.mpq");
    base_archive(&path);
    check_rename(
        &path,
        "built\\secret.bin",
        "built\\moved.bin",
        &payload(),
        "builder",
    );
    // FIX_KEY file; also: same base name, other directory (this crate keys on the full path)
    check_rename(
        &path,
        "built\\fixkey.bin",
        "elsewhere\\fixkey.bin",
        &payload(),
        "builder fix_key",
    );
}

/// Control: an unencrypted file renames fine
#[test]
fn rename_file_unencrypted_control() {
    let dir = tempfile::TempDir::new().unwrap();
    let path = dir.path().join("a.mpq");
    base_archive(&path);
    let renamed = {
        let mut m = MutableArchive::open(&path).unwrap();
        let r = m.rename_file("plain.txt", "docs\\plain.txt");
        m.flush().unwrap();
        r
    };
    renamed.unwrap();
    let mut a = Archive::open(&path).unwrap();
    assert_eq!(a.read_file("docs\\plain.txt").unwrap(), b"plain");
    assert!(a.find_file("plain.txt").unwrap().is_none());
}
