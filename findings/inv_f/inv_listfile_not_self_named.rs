//! Candidate 1: rebuilding an archive whose `(listfile)` does not name itself.
//!
//! The source is built with an external listfile text `a.txt\r\nb.txt\r\n`, the way
//! real Blizzard archives are. The source therefore contains three files: `a.txt`,
//! `b.txt` and `(listfile)`. A faithful rebuild yields a target with the same three
//! files with the same bytes, truthful summary counts, and passes `verify=true`.

use std::fs;
use tempfile::TempDir;
use wow_mpq::{
    Archive, ArchiveBuilder, AttributesOption, FormatVersion, ListfileOption, RebuildOptions,
    rebuild_archive,
};

const LISTFILE_TEXT: &[u8] = b"a.txt\r\nb.txt\r\n";

fn build_source(dir: &TempDir, version: FormatVersion) -> std::path::PathBuf {
    let listfile_path = dir.path().join("external_listfile.txt");
    fs::write(&listfile_path, LISTFILE_TEXT).unwrap();

    let source = dir.path().join(format!("source_{version:?}.mpq"));
    ArchiveBuilder::new()
        .version(version)
        .listfile_option(ListfileOption::External(listfile_path))
        .attributes_option(AttributesOption::None)
        .add_file_data(b"alpha alpha alpha".to_vec(), "a.txt")
        .add_file_data(b"beta".to_vec(), "b.txt")
        .build(&source)
        .unwrap();

    // Sanity: the source really holds a (listfile) with the external text.
    let mut archive = Archive::open(&source).unwrap();
    assert_eq!(archive.read_file("(listfile)").unwrap(), LISTFILE_TEXT);
    source
}

fn check(version: FormatVersion, verify: bool) {
    let dir = TempDir::new().unwrap();
    let source = build_source(&dir, version);
    let target = dir.path().join("target.mpq");

    let options = RebuildOptions {
        verify,
        ..RebuildOptions::default()
    };
    let summary = rebuild_archive(&source, &target, options, None)
        .unwrap_or_else(|e| panic!("{version:?} verify={verify}: rebuild failed: {e}"));

    let mut src = Archive::open(&source).unwrap();
    let mut tgt = Archive::open(&target).unwrap();
    for name in ["a.txt", "b.txt", "(listfile)"] {
        assert_eq!(
            src.read_file(name).unwrap(),
            tgt.read_file(name).unwrap(),
            "{version:?} verify={verify}: bytes of {name} differ between source and target"
        );
    }

    // The source holds three files; all three are carried over, none skipped.
    assert_eq!(summary.source_files, 3, "{version:?}: source_files");
    assert_eq!(summary.extracted_files, 3, "{version:?}: extracted_files");
    assert_eq!(summary.skipped_files, 0, "{version:?}: skipped_files");
    assert_eq!(summary.verified, verify);
}

#[test]
fn rebuild_v1_without_verify_keeps_listfile_bytes() {
    check(FormatVersion::V1, false);
}

#[test]
fn rebuild_v1_with_verify_succeeds() {
    check(FormatVersion::V1, true);
}

#[test]
fn rebuild_v2_with_verify_succeeds() {
    check(FormatVersion::V2, true);
}

#[test]
fn rebuild_v3_with_verify_succeeds() {
    check(FormatVersion::V3, true);
}

#[test]
fn rebuild_v4_with_verify_succeeds() {
    check(FormatVersion::V4, true);
}
