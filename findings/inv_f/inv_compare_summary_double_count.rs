//! Candidate 3: `compare_archives` summary counts.
//!
//! A common file that differs in more than one respect (size, flags, content) is one
//! different file. `different_files` must count it once, and
//! `identical_files + different_files` must equal the number of common files.

use tempfile::TempDir;
use wow_mpq::{
    ArchiveBuilder, AttributesOption, FormatVersion, ListfileOption, compare_archives,
    compression::flags,
};

/// Two archives sharing `a.txt` (different size and different flags) and an identical
/// `same.txt`; the generated `(listfile)` is identical on both sides as well.
fn build_pair(dir: &TempDir) -> (std::path::PathBuf, std::path::PathBuf) {
    let source = dir.path().join("source.mpq");
    let target = dir.path().join("target.mpq");

    ArchiveBuilder::new()
        .version(FormatVersion::V1)
        .listfile_option(ListfileOption::Generate)
        .attributes_option(AttributesOption::None)
        .add_file_data_with_options(vec![b'x'; 4000], "a.txt", 0, false, 0)
        .add_file_data_with_options(b"same".to_vec(), "same.txt", 0, false, 0)
        .build(&source)
        .unwrap();

    ArchiveBuilder::new()
        .version(FormatVersion::V1)
        .listfile_option(ListfileOption::Generate)
        .attributes_option(AttributesOption::None)
        .add_file_data_with_options(vec![b'y'; 5000], "a.txt", flags::ZLIB, false, 0)
        .add_file_data_with_options(b"same".to_vec(), "same.txt", 0, false, 0)
        .build(&target)
        .unwrap();

    (source, target)
}

#[test]
fn file_with_size_and_flags_difference_is_one_different_file() {
    let dir = TempDir::new().unwrap();
    let (source, target) = build_pair(&dir);

    let result = compare_archives(&source, &target, true, false, false, true, None).unwrap();
    let files = result.files.as_ref().unwrap();

    // Preconditions: a.txt is reported in both difference lists, nothing else differs.
    assert_eq!(files.common_files.len(), 3, "{:?}", files.common_files);
    assert_eq!(files.size_differences.len(), 1);
    assert_eq!(files.size_differences[0].name, "a.txt");
    assert_eq!(files.metadata_differences.len(), 1);
    assert_eq!(files.metadata_differences[0].name, "a.txt");

    assert_eq!(
        result.summary.different_files, 1,
        "one file differs: {:?}",
        result.summary
    );
    assert_eq!(
        result.summary.identical_files, 2,
        "same.txt and (listfile) are identical: {:?}",
        result.summary
    );
}

#[test]
fn file_with_size_flags_and_content_difference_is_one_different_file() {
    let dir = TempDir::new().unwrap();
    let (source, target) = build_pair(&dir);

    let result = compare_archives(&source, &target, true, true, false, true, None).unwrap();
    let files = result.files.as_ref().unwrap();
    assert_eq!(files.content_differences, ["a.txt"]);

    assert_eq!(result.summary.different_files, 1, "{:?}", result.summary);
    assert_eq!(result.summary.identical_files, 2, "{:?}", result.summary);
}

/// With the filter narrowing the comparison to the single differing file, the summary's
/// subtraction has one common file and two (or three) difference records.
#[test]
fn single_common_file_does_not_underflow() {
    let dir = TempDir::new().unwrap();
    let (source, target) = build_pair(&dir);

    let outcome = std::panic::catch_unwind(|| {
        compare_archives(
            &source,
            &target,
            true,
            false,
            false,
            true,
            Some("a.txt".to_string()),
        )
    });

    let result = match outcome {
        Ok(result) => result.unwrap(),
        Err(_) => panic!("compare_archives panicked (usize underflow in the summary)"),
    };
    assert_eq!(result.files.as_ref().unwrap().common_files, ["a.txt"]);
    assert_eq!(result.summary.different_files, 1, "{:?}", result.summary);
    assert_eq!(result.summary.identical_files, 0, "{:?}", result.summary);
}
