//! Candidate 2: rebuilding an archive whose `(listfile)` names the same entry twice.
//!
//! MPQ names are case-insensitive and `/` equals `\`, so `a.txt` / `A.TXT` and
//! `dir/a.txt` / `dir\a.txt` are one hash-table entry each. A rebuild must treat each
//! pair as one file: succeed, carry the bytes over, and count the file once.

use std::fs;
use tempfile::TempDir;
use wow_mpq::{
    Archive, ArchiveBuilder, AttributesOption, FormatVersion, ListfileOption, RebuildOptions,
    rebuild_archive,
};

fn build_source(
    dir: &TempDir,
    version: FormatVersion,
    listfile_text: &[u8],
    stored_name: &str,
) -> std::path::PathBuf {
    let listfile_path = dir.path().join("external_listfile.txt");
    fs::write(&listfile_path, listfile_text).unwrap();

    let source = dir.path().join("source.mpq");
    ArchiveBuilder::new()
        .version(version)
        .listfile_option(ListfileOption::External(listfile_path))
        .attributes_option(AttributesOption::None)
        .add_file_data(b"the one and only file".to_vec(), stored_name)
        .build(&source)
        .unwrap();
    source
}

fn check(
    version: FormatVersion,
    verify: bool,
    listfile_text: &[u8],
    stored_name: &str,
    spellings: [&str; 2],
) {
    let dir = TempDir::new().unwrap();
    let source = build_source(&dir, version, listfile_text, stored_name);
    let target = dir.path().join("target.mpq");

    // Sanity: both spellings resolve to the same stored file.
    {
        let mut src = Archive::open(&source).unwrap();
        assert_eq!(
            src.read_file(spellings[0]).unwrap(),
            src.read_file(spellings[1]).unwrap()
        );
    }

    let options = RebuildOptions {
        verify,
        ..RebuildOptions::default()
    };
    let summary = rebuild_archive(&source, &target, options, None)
        .unwrap_or_else(|e| panic!("{version:?} verify={verify}: rebuild failed: {e}"));

    let mut src = Archive::open(&source).unwrap();
    let mut tgt = Archive::open(&target).unwrap();
    for name in [spellings[0], spellings[1], "(listfile)"] {
        assert_eq!(
            src.read_file(name).unwrap(),
            tgt.read_file(name).unwrap(),
            "{version:?} verify={verify}: bytes of {name} differ between source and target"
        );
    }

    // One data file plus the (listfile): two files, none skipped.
    assert_eq!(summary.source_files, 2, "{version:?}: source_files");
    assert_eq!(summary.extracted_files, 2, "{version:?}: extracted_files");
    assert_eq!(summary.skipped_files, 0, "{version:?}: skipped_files");
    assert_eq!(summary.verified, verify);
}

const CASE_LISTFILE: &[u8] = b"a.txt\r\nA.TXT\r\n(listfile)\r\n";
const SLASH_LISTFILE: &[u8] = b"dir/a.txt\r\ndir\\a.txt\r\n(listfile)\r\n";

#[test]
fn case_variants_v1() {
    check(
        FormatVersion::V1,
        false,
        CASE_LISTFILE,
        "a.txt",
        ["a.txt", "A.TXT"],
    );
}

#[test]
fn case_variants_v1_verify() {
    check(
        FormatVersion::V1,
        true,
        CASE_LISTFILE,
        "a.txt",
        ["a.txt", "A.TXT"],
    );
}

#[test]
fn case_variants_v2_verify() {
    check(
        FormatVersion::V2,
        true,
        CASE_LISTFILE,
        "a.txt",
        ["a.txt", "A.TXT"],
    );
}

#[test]
fn case_variants_v3_verify() {
    check(
        FormatVersion::V3,
        true,
        CASE_LISTFILE,
        "a.txt",
        ["a.txt", "A.TXT"],
    );
}

#[test]
fn case_variants_v4_verify() {
    check(
        FormatVersion::V4,
        true,
        CASE_LISTFILE,
        "a.txt",
        ["a.txt", "A.TXT"],
    );
}

#[test]
fn slash_variants_v1_verify() {
    check(
        FormatVersion::V1,
        true,
        SLASH_LISTFILE,
        "dir\\a.txt",
        ["dir/a.txt", "dir\\a.txt"],
    );
}

#[test]
fn slash_variants_v4_verify() {
    check(
        FormatVersion::V4,
        true,
        SLASH_LISTFILE,
        "dir\\a.txt",
        ["dir/a.txt", "dir\\a.txt"],
    );
}

#[test]
fn exact_duplicate_line_v1_verify() {
    check(
        FormatVersion::V1,
        true,
        b"a.txt\r\na.txt\r\n(listfile)\r\n",
        "a.txt",
        ["a.txt", "a.txt"],
    );
}

/// `Archive::list()` itself: how many entries does it report for the one data file?
#[test]
fn list_reports_the_entry_once() {
    let dir = TempDir::new().unwrap();
    let source = build_source(&dir, FormatVersion::V1, CASE_LISTFILE, "a.txt");
    let mut archive = Archive::open(&source).unwrap();
    let names: Vec<String> = archive
        .list()
        .unwrap()
        .into_iter()
        .map(|e| e.name)
        .collect();
    assert_eq!(names, ["a.txt", "(listfile)"], "list() = {names:?}");
}
