//! C15 reproduction: a group written by WmoWriter::write_group must parse back (parse_wmo) with the same content.
use std::io::Cursor;
use wow_wmo::{BoundingBox, TexCoord, Vec3, WmoGroup, WmoGroupFlags, WmoGroupHeader, WmoVersion, WmoWriter, parse_wmo, ParsedWmo};

fn v(x: f32, y: f32, z: f32) -> Vec3 {
    Vec3 { x, y, z }
}

#[test]
fn written_group_parses_back() {
    let group = WmoGroup {
        header: WmoGroupHeader {
            flags: WmoGroupFlags::INDOOR,
            bounding_box: BoundingBox { min: v(-1.0, -2.0, -3.0), max: v(4.0, 5.0, 6.0) },
            name_offset: 7,
            group_index: 0,
        },
        materials: vec![0],
        vertices: vec![v(0.0, 0.0, 0.0), v(1.0, 0.0, 0.0), v(0.0, 1.0, 0.0)],
        normals: vec![v(0.0, 0.0, 1.0); 3],
        tex_coords: vec![TexCoord { u: 0.25, v: 0.75 }; 3],
        batches: Vec::new(),
        indices: vec![0, 1, 2],
        vertex_colors: None,
        bsp_nodes: None,
        liquid: None,
        doodad_refs: None,
    };
    let mut out = Cursor::new(Vec::new());
    WmoWriter::new().write_group(&mut out, &group, WmoVersion::Wotlk).expect("write_group");
    let bytes = out.into_inner();
    let parsed = parse_wmo(&mut Cursor::new(bytes)).expect("a written group must parse");
    match parsed {
        ParsedWmo::Group(g) => {
            assert_eq!(g.vertex_positions.len(), 3, "vertices");
            assert_eq!(g.bounding_box, vec![-1.0, -2.0, -3.0, 4.0, 5.0, 6.0], "bounding box");
        }
        other => panic!("expected a group, got {other:?}"),
    }
}
