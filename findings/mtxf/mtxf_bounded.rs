//! C14 reproduction: MTXF (texture flags) and MTXP (texture params) must parse back to what was built,
//! and a parse -> rebuild round must not grow the file.
use std::io::Cursor;

use wow_adt::AdtVersion;
use wow_adt::api::{ParsedAdt, RootAdt, parse_adt};
use wow_adt::builder::AdtBuilder;
use wow_adt::chunks::{MtxfChunk, MtxpChunk, TextureHeightParams};

fn parse_root(bytes: &[u8]) -> RootAdt {
    match parse_adt(&mut Cursor::new(bytes.to_vec())).expect("serialised ADT must parse") {
        ParsedAdt::Root(root) => *root,
        _ => panic!("expected a root ADT"),
    }
}

#[test]
fn wotlk_texture_flags_round_trip() {
    let bytes = AdtBuilder::new()
        .with_version(AdtVersion::WotLK)
        .add_texture("a.blp")
        .add_texture("b.blp")
        .add_texture_flags(MtxfChunk { flags: vec![1, 2] })
        .build()
        .unwrap()
        .to_bytes()
        .unwrap();
    let root = parse_root(&bytes);
    assert_eq!(
        root.texture_flags.as_ref().map(|f| f.flags.clone()),
        Some(vec![1, 2]),
        "MTXF must contain exactly the two flags that were written"
    );
}

#[test]
fn mop_texture_params_round_trip_and_file_does_not_grow() {
    let params = MtxpChunk {
        entries: vec![TextureHeightParams { flags: 1, height_scale: 2.5, height_offset: 0.75, padding: 0 }],
    };
    let bytes = AdtBuilder::new()
        .with_version(AdtVersion::MoP)
        .add_texture("a.blp")
        .add_texture_flags(MtxfChunk { flags: vec![7] })
        .add_texture_params(params)
        .build()
        .unwrap()
        .to_bytes()
        .unwrap();
    let root = parse_root(&bytes);
    assert_eq!(root.texture_flags.as_ref().map(|f| f.flags.len()), Some(1));
    assert_eq!(root.texture_params.as_ref().map(|p| p.entries.len()), Some(1));
    let again = AdtBuilder::from_parsed(root).build().unwrap().to_bytes().unwrap();
    assert!(again.len() <= bytes.len(), "a parse -> rebuild round must not grow the file ({} -> {})", bytes.len(), again.len());
    let root2 = parse_root(&again);
    assert_eq!(root2.texture_flags.as_ref().map(|f| f.flags.clone()), Some(vec![7]));
    assert_eq!(root2.texture_params.as_ref().map(|p| p.entries.len()), Some(1));
}
