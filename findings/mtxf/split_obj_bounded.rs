//! Reproduction: per-chunk object references (MCRD / MCRW) in a Cataclysm+ `_obj0` file must be
//! read from their own sub-chunk only, not until the end of the file.
use std::io::Cursor;
use wow_adt::api::{ParsedAdt, parse_adt};
use wow_adt::ChunkId;

fn chunk(out: &mut Vec<u8>, id: ChunkId, payload: &[u8]) {
    out.extend_from_slice(&id.0);
    out.extend_from_slice(&(payload.len() as u32).to_le_bytes());
    out.extend_from_slice(payload);
}

fn u32s(v: &[u32]) -> Vec<u8> {
    v.iter().flat_map(|x| x.to_le_bytes()).collect()
}

#[test]
fn object_references_stop_at_their_sub_chunk() {
    let mut data = Vec::new();
    chunk(&mut data, ChunkId::MVER, &18u32.to_le_bytes());
    chunk(&mut data, ChunkId::MMDX, b"a.m2\0");
    chunk(&mut data, ChunkId::MMID, &u32s(&[0]));
    chunk(&mut data, ChunkId::MDDF, &[]);
    // first terrain chunk: two doodad refs followed by one WMO ref
    let mut mcnk = Vec::new();
    chunk(&mut mcnk, ChunkId::MCRD, &u32s(&[0, 1]));
    chunk(&mut mcnk, ChunkId::MCRW, &u32s(&[5]));
    chunk(&mut data, ChunkId::MCNK, &mcnk);
    // second terrain chunk: one doodad ref
    let mut mcnk2 = Vec::new();
    chunk(&mut mcnk2, ChunkId::MCRD, &u32s(&[7]));
    chunk(&mut data, ChunkId::MCNK, &mcnk2);

    let obj = match parse_adt(&mut Cursor::new(data)).expect("obj0 file parses") {
        ParsedAdt::Obj0(o) | ParsedAdt::Obj1(o) => o,
        other => panic!("expected an object file, got {other:?}"),
    };
    assert_eq!(obj.mcnk_objects.len(), 2);
    assert_eq!(obj.mcnk_objects[0].doodad_refs, vec![0, 1]);
    assert_eq!(obj.mcnk_objects[0].wmo_refs, vec![5]);
    assert_eq!(obj.mcnk_objects[1].doodad_refs, vec![7]);
}
